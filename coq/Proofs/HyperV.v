(* Proofs/HyperV.v — the Hyper-V VMCX/VMRS reader model decodes what the writer stored. *)
From Coq Require Import String.
From Coq Require Import ZArith List Bool Lia Permutation.
From DH Require Import Base.Arith Base.Plan Base.Layout Base.Table Model.HyperV Spec.HyperV.
Import ListNotations.
Open Scope Z_scope.

(* ====================================================================== lists *)
Lemma firstn_app_len {A} (a b : list A) n : length a = n -> firstn n (a ++ b) = a.
Proof.
  intros <-. rewrite firstn_app, Nat.sub_diag, firstn_all. cbn. apply app_nil_r.
Qed.

Lemma skipn_app_len {A} (a b : list A) n : length a = n -> skipn n (a ++ b) = b.
Proof.
  intros <-. rewrite skipn_app, Nat.sub_diag, skipn_all. reflexivity.
Qed.

Lemma zlen_app {A} (a b : list A) : zlen (a ++ b) = zlen a + zlen b.
Proof. unfold zlen. rewrite app_length. lia. Qed.

Lemma zlen_nonneg {A} (a : list A) : 0 <= zlen a.
Proof. unfold zlen. lia. Qed.

Lemma zlen_le_bytes n v : zlen (le_bytes n v) = Z.of_nat n.
Proof. unfold zlen. now rewrite le_bytes_length. Qed.

Lemma to_nat_zlen {A} (a : list A) : Z.to_nat (zlen a) = length a.
Proof. unfold zlen. lia. Qed.

Lemma zfirstn_eq {A} n (l : list A) : zfirstn n l = firstn (Z.to_nat n) l.
Proof.
  unfold zfirstn, zlen. destruct (Z.min_spec n (Z.of_nat (length l))) as [[_ ->]|[Hlt ->]]; [reflexivity|].
  rewrite Nat2Z.id, firstn_all, firstn_all2 by lia. reflexivity.
Qed.

Lemma zskipn_eq {A} n (l : list A) : zskipn n l = skipn (Z.to_nat n) l.
Proof.
  unfold zskipn, zlen. destruct (Z.min_spec n (Z.of_nat (length l))) as [[_ ->]|[Hlt ->]]; [reflexivity|].
  rewrite Nat2Z.id, skipn_all, skipn_all2 by lia. reflexivity.
Qed.

(* ====================================================================== packed records *)
Lemma parse_fields_enc ws vs rest :
  Forall2 fits ws vs -> parse_fields ws (enc_fields ws vs ++ rest) = Some vs.
Proof.
  induction 1 as [|w v ws vs [Hw Hv] _ IH]; [reflexivity|].
  cbn [enc_fields parse_fields]. rewrite <- app_assoc.
  rewrite firstn_app_len by apply le_bytes_length.
  rewrite skipn_app_len by apply le_bytes_length.
  rewrite zlen_le_bytes, Z2Nat.id by lia.
  rewrite Z.ltb_irrefl, IH.
  rewrite le_uint_le_bytes by (rewrite Z2Nat.id by lia; exact Hv). reflexivity.
Qed.

Lemma enc_fields_length ws vs :
  length ws = length vs -> Forall (fun w => 0 <= w) ws ->
  zlen (enc_fields ws vs) = fold_right Z.add 0 ws.
Proof.
  revert vs; induction ws as [|w ws IH]; intros [|v vs] Hl Hw; try discriminate; [reflexivity|].
  inversion Hw; subst. cbn [enc_fields fold_right]. rewrite zlen_app, zlen_le_bytes, IH by (auto; cbn in Hl; lia). lia.
Qed.

(* the generated layouts are the packed records the format defines *)
Lemma fhdr_widths_eq : fhdr_widths = W_fhdr. Proof. reflexivity. Qed.
Lemma rlog_widths_eq : rlog_widths = W_rlog. Proof. reflexivity. Qed.
Lemma otab_widths_eq : otab_widths = W_otab. Proof. reflexivity. Qed.
Lemma oent_widths_eq : oent_widths = W_oent. Proof. reflexivity. Qed.
Lemma ktab_widths_eq : ktab_widths = W_ktab. Proof. reflexivity. Qed.
Lemma kent_widths_eq : kent_widths = W_kent. Proof. reflexivity. Qed.
Lemma fop_widths_eq : K.fop_widths = W_fop /\ K.fop_size_first = true. Proof. split; reflexivity. Qed.

Lemma struct_sizes :
  fhdr_size = 46 /\ L.hyperv_HyperVStorageReplayLog_size = 34 /\ L.hyperv_HyperVStorageReplayLogEntry_size = 28 /\
  otab_size = 8 /\ oent_size = 18 /\ ktab_hsize = 10 /\ kent_hsize = 21 /\
  fold_right Z.add 0 W_fhdr = 46 /\ fold_right Z.add 0 W_rlog = 34 /\ fold_right Z.add 0 W_rlog_entry = 28 /\
  fold_right Z.add 0 W_otab = 8 /\ fold_right Z.add 0 W_oent = 18 /\ fold_right Z.add 0 W_ktab = 10 /\
  fold_right Z.add 0 W_kent = 21 /\
  map f_name L.hyperv_HyperVStorageKeyTableEntryHeader_layout
    = ["type"; "size"; "parent_table_idx"; "parent_offset"; "checksum"; "insertion_sequence"; "data_offset"]%string /\
  map f_name L.hyperv_HyperVStorageKeyTable_layout = ["signature"; "index"; "sequence_number"; "checksum"]%string /\
  map f_name L.hyperv_HyperVStorageObjectTableEntry_layout = ["type"; "checksum"; "offset"; "size"; "allocated"]%string /\
  map f_name L.hyperv_HyperVStorageObjectTable_layout = ["signature"; "num_entries"]%string /\
  map f_name L.hyperv_HyperVStorageHeader_layout
    = ["signature"; "checksum"; "sequence_number"; "version"; "unknown2"; "alignment"; "replay_log_offset";
       "replay_log_size"; "header_size"]%string /\
  L.hyperv_big_endian = false.
Proof. repeat split; reflexivity. Qed.

(* the literals of hyperv.py are the ones the format defines *)
Lemma literals :
  K.supported_version = 1024 /\ K.flags_mask = 65280 /\ K.flags_shift = 8 /\ K.type_mask = 255 /\
  K.key_terminator = 1 /\ K.skipped_type = 1 /\ K.node_type = 9 /\ K.blob_types = [6; 7] /\ K.len_width = 4 /\
  K.value_formats = [(3, (K.fmt_q, 8)); (4, (K.fmt_Q, 8)); (5, (K.fmt_d, 8)); (8, (K.fmt_I, 4))] /\
  E.hyperv_KeyDataType_Int = 3 /\ E.hyperv_KeyDataType_UInt = 4 /\ E.hyperv_KeyDataType_Double = 5 /\
  E.hyperv_KeyDataType_String = 6 /\ E.hyperv_KeyDataType_Array = 7 /\ E.hyperv_KeyDataType_Bool = 8 /\
  E.hyperv_KeyDataType_Free = 1 /\ E.hyperv_KeyDataType_Node = 9 /\ E.hyperv_KeyDataFlag_FileObjectPointer = 1 /\
  E.hyperv_ObjectEntryType_ObjectTable = 1 /\ E.hyperv_ObjectEntryType_KeyTable = 2 /\
  E.hyperv_ObjectEntryType_File = 3 /\ E.hyperv_ObjectEntryType_ReplayLog = 6 /\
  C.hyperv_SIGNATURE_KEY_TABLE_HEADER = 2 /\ C.hyperv_OBJECT_TABLE_OFFSET = 8192 /\
  C.hyperv_FIRST_HEADER_OFFSET = 0 /\ C.hyperv_SECOND_HEADER_OFFSET = 4096.
Proof. repeat split; reflexivity. Qed.

Lemma fits_of w v : 0 <= w -> 0 <= v < 256 ^ w -> fits w v.
Proof. now split. Qed.

Lemma khdr_roundtrip t s pi po ck ins d rest :
  0 <= t < 2 ^ 16 -> 0 <= s < 2 ^ 32 -> 0 <= pi < 2 ^ 16 -> 0 <= po < 2 ^ 32 ->
  0 <= ck < 2 ^ 32 -> 0 <= ins < 2 ^ 32 -> 0 <= d < 2 ^ 8 ->
  parse_khdr (enc_fields W_kent [t; s; pi; po; ck; ins; d] ++ rest)
  = Some {| kh_type := t; kh_size := s; kh_pidx := pi; kh_poff := po; kh_ins := ins; kh_doff := d |}.
Proof.
  intros. unfold parse_khdr. rewrite kent_widths_eq, parse_fields_enc; [reflexivity|].
  unfold W_kent. repeat constructor; cbn; lia.
Qed.

Lemma ktab_hdr_roundtrip idx seq ck rest :
  0 <= idx < 2 ^ 16 -> 0 <= seq < 2 ^ 16 -> 0 <= ck < 2 ^ 32 ->
  parse_fields ktab_widths (enc_fields W_ktab [2; idx; seq; ck] ++ rest) = Some [2; idx; seq; ck].
Proof.
  intros. rewrite ktab_widths_eq, parse_fields_enc; [reflexivity|].
  unfold W_ktab. repeat constructor; cbn; lia.
Qed.

(* ====================================================================== values *)
Lemma take_uint_app n v pad :
  0 <= n -> 0 <= v < 256 ^ n -> take_uint n (le_bytes (Z.to_nat n) v ++ pad) = Ok v.
Proof.
  intros Hn Hv. unfold take_uint.
  rewrite firstn_app_len by apply le_bytes_length.
  rewrite zlen_le_bytes, Z2Nat.id, Z.ltb_irrefl by lia.
  rewrite le_uint_le_bytes by (rewrite Z2Nat.id by lia; exact Hv). reflexivity.
Qed.

Lemma signed64_roundtrip z : - 2 ^ 63 <= z < 2 ^ 63 -> signed 8 (z mod 2 ^ 64) = z.
Proof.
  intros Hz. unfold signed. change (2 ^ (8 * 8 - 1)) with (2 ^ 63). change (2 ^ (8 * 8)) with (2 ^ 64).
  destruct (Z.ltb_spec z 0) as [Hneg|Hpos].
  - assert (Hm : z mod 2 ^ 64 = z + 2 ^ 64).
    { symmetry. apply Z.mod_unique with (q := -1); lia. }
    rewrite Hm. destruct (Z.ltb_spec (z + 2 ^ 64) (2 ^ 63)); lia.
  - rewrite Z.mod_small by lia. destruct (Z.ltb_spec z (2 ^ 63)); lia.
Qed.

Lemma units_of_bytes u : units_ok u -> units_of (units_bytes u) = Some u.
Proof.
  induction 1 as [|x u Hx _ IH]; [reflexivity|].
  cbn [units_bytes units_of]. rewrite IH. do 2 f_equal.
  pose proof (Z.div_mod x 256 ltac:(lia)). lia.
Qed.

Lemma units_bytes_length u : zlen (units_bytes u) = 2 * zlen u.
Proof. induction u as [|x u IH]; [reflexivity|]. unfold zlen in *. cbn [units_bytes length]. lia. Qed.

Ltac lits := pose proof literals as Hlits; repeat (destruct Hlits as [? Hlits]).

Lemma scalar_value f fo r t fmt n v pad z :
  e_typ r = t -> e_is_fop r = false -> assoc_z K.value_formats t = Some (fmt, n) ->
  0 <= n -> 0 <= v < 256 ^ n ->
  e_data_inline r = le_bytes (Z.to_nat n) v ++ pad ->
  z = (if fmt =? K.fmt_q then signed n v else v) ->
  e_value f fo r =
    (if t =? E.hyperv_KeyDataType_Int then Ok (VInt z)
     else if t =? E.hyperv_KeyDataType_UInt then Ok (VUInt z)
     else if t =? E.hyperv_KeyDataType_Double then Ok (VDouble z)
     else if t =? E.hyperv_KeyDataType_Bool then Ok (VBool (negb (z =? 0)))
     else Err).
Proof.
  intros Ht Hf Hfmt Hn Hv Hd ->. unfold e_value, e_data. rewrite Hf, Hd. cbn [bind]. rewrite Ht, Hfmt.
  rewrite take_uint_app by assumption. reflexivity.
Qed.

Theorem value_roundtrip f fo r v : stored_as f fo r v -> e_value f fo r = Ok v.
Proof.
  intros H. destruct H as [z pad Ht Hf Hok Hd|z pad Ht Hf Hok Hd|b pad Ht Hf Hok Hd|w pad Ht Hf Hw Hd
                           |v pad Hty Ht Hf Hok Hd|v blob off size osz pad Hty Ht Hf Hok Hb Hs Ho Hd Hfo Hle Hrd].
  - cbn [enc_inline] in Hd. cbn [value_ok] in Hok.
    rewrite (scalar_value f fo r 3 K.fmt_q 8 (z mod 2 ^ 64) pad z Ht Hf eq_refl ltac:(lia)); [reflexivity| |exact Hd|].
    + change (256 ^ 8) with (2 ^ 64). apply Z.mod_pos_bound. lia.
    + cbn. symmetry. apply signed64_roundtrip. exact Hok.
  - cbn [enc_inline] in Hd. cbn [value_ok] in Hok.
    rewrite (scalar_value f fo r 4 K.fmt_Q 8 z pad z Ht Hf eq_refl ltac:(lia)); [reflexivity| |exact Hd|reflexivity].
    change (256 ^ 8) with (2 ^ 64). exact Hok.
  - cbn [enc_inline] in Hd. cbn [value_ok] in Hok.
    rewrite (scalar_value f fo r 5 K.fmt_d 8 b pad b Ht Hf eq_refl ltac:(lia)); [reflexivity| |exact Hd|reflexivity].
    change (256 ^ 8) with (2 ^ 64). exact Hok.
  - rewrite (scalar_value f fo r 8 K.fmt_I 4 w pad w Ht Hf eq_refl ltac:(lia)); [reflexivity| |exact Hd|reflexivity].
    change (256 ^ 4) with (2 ^ 32). exact Hw.
  - unfold e_value, e_data. rewrite Hf, Hd. cbn [bind]. rewrite Ht.
    destruct v as [| | |u|b|]; cbn [type_of] in *; try (destruct Hty; discriminate).
    + (* string, inline *)
      destruct Hok as (Hu & Hv & Hlen).
      change (assoc_z K.value_formats 6) with (@None (Z * Z)). change (zmem 6 K.blob_types) with true.
      cbn [enc_inline]. rewrite <- app_assoc.
      change K.len_width with 4.
      rewrite (take_uint_app 4 (2 * zlen u)) by (pose proof (zlen_nonneg u); change (256 ^ 4) with (2 ^ 32); lia).
      cbn [bind]. change (Z.to_nat 4) with 4%nat.
      rewrite skipn_app_len by apply le_bytes_length. rewrite zfirstn_eq.
      rewrite firstn_app_len by (rewrite <- units_bytes_length; symmetry; apply to_nat_zlen).
      change (6 =? E.hyperv_KeyDataType_String) with true. cbn iota.
      rewrite units_of_bytes by exact Hu. rewrite Hv. reflexivity.
    + (* array, inline *)
      destruct Hok as (Hb & Hlen).
      change (assoc_z K.value_formats 7) with (@None (Z * Z)). change (zmem 7 K.blob_types) with true.
      cbn [enc_inline]. rewrite <- app_assoc.
      change K.len_width with 4.
      rewrite (take_uint_app 4 (zlen b)) by (pose proof (zlen_nonneg b); change (256 ^ 4) with (2 ^ 32); lia).
      cbn [bind]. change (Z.to_nat 4) with 4%nat.
      rewrite skipn_app_len by apply le_bytes_length. rewrite zfirstn_eq.
      rewrite firstn_app_len by (symmetry; apply to_nat_zlen).
      reflexivity.
  - unfold e_value, e_data. rewrite Hf, Hd. unfold fop_of.
    replace (le_bytes 4 size ++ le_bytes 8 off ++ pad) with (enc_fields W_fop [size; off] ++ pad)
      by (cbn [enc_fields W_fop]; change (Z.to_nat 4) with 4%nat; change (Z.to_nat 8) with 8%nat;
          rewrite app_nil_r, <- app_assoc; reflexivity).
    destruct fop_widths_eq as [-> ->].
    rewrite parse_fields_enc by (unfold W_fop; repeat constructor; cbn; lia).
    rewrite Hfo. rewrite Z.min_l by exact Hle. rewrite Hrd. cbn [bind]. rewrite Ht.
    destruct v as [| | |u|b|]; cbn [type_of] in *; try (destruct Hty; discriminate).
    + destruct Hok as (Hu & Hv & Hlen). cbn [blob_of] in Hb. injection Hb as <-.
      change (assoc_z K.value_formats 6) with (@None (Z * Z)). change (zmem 6 K.blob_types) with true.
      cbn [bind]. change (6 =? E.hyperv_KeyDataType_String) with true. cbn iota.
      rewrite units_of_bytes by exact Hu. rewrite Hv. reflexivity.
    + cbn [blob_of] in Hb. injection Hb as <-.
      change (assoc_z K.value_formats 7) with (@None (Z * Z)). change (zmem 7 K.blob_types) with true.
      reflexivity.
Qed.

(* ====================================================================== key-table walk *)
Lemma enc_khdr_length t s pi po ck ins d :
  length (enc_fields W_kent [t; s; pi; po; ck; ins; d]) = 21%nat.
Proof. cbn [enc_fields W_kent]. rewrite !app_length, !le_bytes_length. reflexivity. Qed.

Lemma enc_sentry_length e : zlen (enc_sentry e) = se_size e.
Proof.
  unfold enc_sentry, se_size, zlen. rewrite !app_length, enc_khdr_length. cbn [length]. lia.
Qed.

Lemma se_size_pos e : 21 < se_size e.
Proof. unfold se_size. pose proof (zlen_nonneg (se_key e)). pose proof (zlen_nonneg (se_body e)). lia. Qed.

Lemma total_size_nonneg es : 0 <= total_size es.
Proof. induction es as [|e es IH]; cbn; [lia|]. pose proof (se_size_pos e). unfold total_size in IH. lia. Qed.

Lemma zero_tail_parses tail :
  21 <= zlen tail -> firstn 4 (skipn 2 tail) = [0; 0; 0; 0] ->
  exists h, parse_khdr tail = Some h /\ kh_size h = 0.
Proof.
  intros Hlen Hz. unfold zlen in Hlen.
  do 21 (destruct tail as [|? tail]; [cbn in Hlen; lia|]).
  cbn in Hz. injection Hz as -> -> -> ->.
  eexists. split; [reflexivity|]. reflexivity.
Qed.

(* walking over stored entries finds each of them at its offset, and stops at the end of the
   table or at the first entry header whose size is 0 *)
Lemma walk_place es : forall fuel pre tail size eoff,
  zlen pre = eoff -> Forall sentry_ok es ->
  (length es < fuel)%nat ->
  ((tail = [] /\ size = eoff + total_size es) \/
   (21 <= zlen tail /\ firstn 4 (skipn 2 tail) = [0; 0; 0; 0] /\ eoff + total_size es < size)) ->
  walk fuel (pre ++ concat (map enc_sentry es) ++ tail) size eoff = Ok (place eoff es).
Proof.
  induction es as [|e es IH]; intros fuel pre tail size eoff Hpre Hok Hfuel Hend.
  - cbn [map concat app place]. cbn [total_size fold_right] in Hend.
    destruct Hend as [[-> ->]|(Hl & Hz & Hlt)].
    + destruct fuel; cbn [walk]; rewrite Z.add_0_r, Z.ltb_irrefl; reflexivity.
    + destruct fuel as [|fuel]; [cbn in Hfuel; lia|]. cbn [walk].
      destruct (Z.ltb_spec eoff size); [|lia]. rewrite zskipn_eq.
      rewrite skipn_app_len by (rewrite <- Hpre; symmetry; apply to_nat_zlen).
      destruct (zero_tail_parses tail Hl Hz) as (h & -> & ->). reflexivity.
  - inversion Hok as [|? ? He Hes]; subst.
    destruct He as (Ht & Hs & Hpi & Hpo & Hck & Hins & Hk).
    pose proof (se_size_pos e) as Hpos. pose proof (total_size_nonneg es) as Htot.
    pose proof (zlen_nonneg (se_key e)) as Hkn.
    cbn [total_size fold_right] in Hend. fold (total_size es) in Hend.
    destruct fuel as [|fuel]; [cbn in Hfuel; lia|]. cbn [walk].
    destruct (Z.ltb_spec (zlen pre) size) as [_|Hge]; [|destruct Hend as [[_ ->]|(_ & _ & ?)]; lia].
    cbn [map concat]. rewrite <- app_assoc. rewrite zskipn_eq.
    rewrite skipn_app_len by (symmetry; apply to_nat_zlen).
    unfold enc_sentry at 1. rewrite <- !app_assoc.
    rewrite khdr_roundtrip by lia. cbn [kh_size].
    destruct (Z.eqb_spec (se_size e) 0); [lia|].
    (* the rest of the walk *)
    rewrite (app_assoc pre (enc_sentry e)).
    rewrite (IH fuel (pre ++ enc_sentry e) tail size (zlen pre + se_size e)).
    + cbn [bind place]. do 2 f_equal.
      unfold rentry_of. f_equal.
      (* raw = table.raw[off + 21 : off + size] *)
      rewrite zfirstn_eq, zskipn_eq. change kent_hsize with 21.
      generalize (concat (map enc_sentry es) ++ tail) as R. intros R. unfold enc_sentry.
      replace ((pre ++ enc_fields W_kent [se_type e; se_size e; se_pidx e; se_poff e; se_ck e; se_ins e; zlen (se_key e) + 1]
                  ++ se_key e ++ [0] ++ se_body e) ++ R)
        with ((pre ++ enc_fields W_kent [se_type e; se_size e; se_pidx e; se_poff e; se_ck e; se_ins e; zlen (se_key e) + 1])
                ++ (se_key e ++ [0] ++ se_body e) ++ R)
        by (rewrite <- !app_assoc; reflexivity).
      rewrite skipn_app_len.
      * apply firstn_app_len. unfold se_size, zlen. rewrite !app_length. cbn [length]. lia.
      * rewrite app_length, enc_khdr_length. unfold zlen. lia.
    + rewrite zlen_app, enc_sentry_length. reflexivity.
    + exact Hes.
    + cbn [length] in Hfuel. lia.
    + destruct Hend as [[-> ->]|(Hl & Hz & Hlt)]; [left|right]; repeat split; try assumption; lia.
Qed.

Lemma concat_enc_length es : (length es <= length (concat (map enc_sentry es)))%nat.
Proof.
  induction es as [|e es IH]; [cbn; lia|]. cbn [map concat]. rewrite app_length.
  pose proof (enc_sentry_length e) as He. pose proof (se_size_pos e). unfold zlen in He. cbn [length]. lia.
Qed.

(* HyperVStorageKeyTable.__init__ on an encoded table *)
Theorem table_walk_roundtrip idx seq ck es tail size :
  0 <= idx < 2 ^ 16 -> 0 <= seq < 2 ^ 16 -> 0 <= ck < 2 ^ 32 -> Forall sentry_ok es ->
  ((tail = [] /\ size = 10 + total_size es) \/
   (21 <= zlen tail /\ firstn 4 (skipn 2 tail) = [0; 0; 0; 0] /\ 10 + total_size es < size)) ->
  parse_ktab (enc_ktable idx seq ck es tail) size
  = Ok {| kt_index := idx; kt_seq := seq; kt_entries := place 10 es |}.
Proof.
  intros Hi Hs Hc Hes Hend. unfold parse_ktab, enc_ktable.
  rewrite ktab_hdr_roundtrip by assumption.
  change (2 =? C.hyperv_SIGNATURE_KEY_TABLE_HEADER) with true. cbn [negb].
  change ktab_hsize with 10.
  rewrite (walk_place es _ (enc_fields W_ktab [2; idx; seq; ck]) tail size 10).
  - reflexivity.
  - unfold zlen. cbn [enc_fields W_ktab]. rewrite !app_length, !le_bytes_length. reflexivity.
  - exact Hes.
  - rewrite !app_length. pose proof (concat_enc_length es). lia.
  - exact Hend.
Qed.

(* ====================================================================== what the reader sees of a stored entry *)
Lemma land_255 a : Z.land a 255 = a mod 256.
Proof. change 255 with (Z.ones 8). rewrite Z.land_ones by lia. reflexivity. Qed.

Lemma flags_of a : Z.shiftr (Z.land a 65280) 8 = (a / 256) mod 256.
Proof.
  rewrite Z.shiftr_land. change (Z.shiftr 65280 8) with 255. rewrite land_255.
  rewrite Z.shiftr_div_pow2 by lia. reflexivity.
Qed.

Theorem entry_fields off e :
  let r := rentry_of off e in
  key_bytes r = se_key e /\ e_data_inline r = se_body e /\
  e_typ r = se_type e mod 256 /\ e_flags r = (se_type e / 256) mod 256.
Proof.
  cbn zeta. unfold key_bytes, e_data_inline, e_typ, e_flags, rentry_of. cbn [r_raw r_hdr kh_doff kh_type].
  pose proof (zlen_nonneg (se_key e)) as Hk.
  change K.key_terminator with 1. change K.type_mask with 255. change K.flags_mask with 65280. change K.flags_shift with 8.
  repeat split.
  - unfold py_prefix. destruct (Z.ltb_spec (zlen (se_key e) + 1 - 1) 0); [lia|].
    replace (zlen (se_key e) + 1 - 1) with (zlen (se_key e)) by lia.
    apply firstn_app_len. symmetry. apply to_nat_zlen.
  - replace (se_key e ++ [0] ++ se_body e) with ((se_key e ++ [0]) ++ se_body e) by (rewrite <- app_assoc; reflexivity).
    apply skipn_app_len. rewrite app_length. unfold zlen. cbn [length]. lia.
  - apply land_255.
  - apply flags_of.
Qed.

(* ====================================================================== the walk terminates on arbitrary bytes *)
Lemma le_uint_nonneg l : bytes_ok l -> 0 <= le_uint l.
Proof. induction 1 as [|b l Hb _ IH]; cbn [le_uint]; lia. Qed.

Lemma bytes_ok_firstn n l : bytes_ok l -> bytes_ok (firstn n l).
Proof. intros H. rewrite <- (firstn_skipn n l) in H. apply Forall_app in H. tauto. Qed.

Lemma bytes_ok_skipn n l : bytes_ok l -> bytes_ok (skipn n l).
Proof. intros H. rewrite <- (firstn_skipn n l) in H. apply Forall_app in H. tauto. Qed.

Lemma parse_fields_some ws : forall buf vs,
  Forall (fun w => 0 <= w) ws -> parse_fields ws buf = Some vs ->
  fold_right Z.add 0 ws <= zlen buf /\ (bytes_ok buf -> Forall (fun v => 0 <= v) vs).
Proof.
  induction ws as [|w ws IH]; intros buf vs Hw Hp.
  - cbn in Hp. injection Hp as <-. split; [apply zlen_nonneg|constructor].
  - inversion Hw as [|? ? Hw0 Hws]; subst. cbn [parse_fields] in Hp.
    destruct (Z.ltb_spec (zlen (firstn (Z.to_nat w) buf)) w) as [|Hlen]; [discriminate|].
    destruct (parse_fields ws (skipn (Z.to_nat w) buf)) as [vs'|] eqn:Hrest; [|discriminate].
    injection Hp as <-. destruct (IH _ _ Hws Hrest) as [Hsum Hnn].
    unfold zlen in *. rewrite firstn_length in Hlen. rewrite skipn_length in Hsum. cbn [fold_right].
    split; [lia|]. intros Hb. constructor.
    + apply le_uint_nonneg, bytes_ok_firstn, Hb.
    + apply Hnn, bytes_ok_skipn, Hb.
Qed.

Lemma parse_khdr_some buf h :
  parse_khdr buf = Some h -> 21 <= zlen buf /\ (bytes_ok buf -> 0 <= kh_size h).
Proof.
  unfold parse_khdr. destruct (parse_fields kent_widths buf) as [vs|] eqn:Hp; [|discriminate].
  assert (Hw : Forall (fun w => 0 <= w) kent_widths) by (rewrite kent_widths_eq; unfold W_kent; repeat constructor; lia).
  destruct (parse_fields_some _ _ _ Hw Hp) as [Hsum Hnn].
  rewrite kent_widths_eq in Hsum. cbn in Hsum.
  destruct vs as [|t [|s [|pi [|po [|ck [|ins [|d [|]]]]]]]]; try discriminate.
  intros [= <-]. split; [exact Hsum|]. intros Hb. specialize (Hnn Hb).
  inversion Hnn as [|? ? _ Hnn']; subst. inversion Hnn'; subst. assumption.
Qed.

Theorem walk_progress fuel : forall raw size eoff,
  bytes_ok raw -> 0 <= eoff -> (length raw - Z.to_nat eoff < fuel)%nat ->
  walk fuel raw size eoff <> Fuel.
Proof.
  induction fuel as [|fuel IH]; intros raw size eoff Hb He Hf; [lia|].
  cbn [walk]. destruct (eoff <? size); [|discriminate].
  rewrite zskipn_eq.
  destruct (parse_khdr (skipn (Z.to_nat eoff) raw)) as [h|] eqn:Hp; [|discriminate].
  destruct (parse_khdr_some _ _ Hp) as [Hlen Hnn].
  specialize (Hnn (bytes_ok_skipn _ _ Hb)).
  destruct (Z.eqb_spec (kh_size h) 0) as [|Hnz]; [discriminate|].
  unfold zlen in Hlen. rewrite skipn_length in Hlen.
  specialize (IH raw size (eoff + kh_size h) Hb ltac:(lia) ltac:(lia)).
  destruct (walk fuel raw size (eoff + kh_size h)); cbn [bind]; congruence.
Qed.

Corollary parse_ktab_progress raw size : bytes_ok raw -> parse_ktab raw size <> Fuel.
Proof.
  intros Hb. unfold parse_ktab.
  destruct (parse_fields ktab_widths raw) as [[|sig [|idx [|seq [|ck [|]]]]]|]; try discriminate.
  destruct (negb _); [discriminate|].
  pose proof (walk_progress (S (length raw)) raw size ktab_hsize Hb ltac:(change ktab_hsize with 10; lia) ltac:(lia)) as Hw.
  destruct (walk _ raw size ktab_hsize); cbn [bind]; congruence.
Qed.

(* ====================================================================== linking: generic list facts *)
Definition kidsf (es : list lentry) (pid : ident) : list lentry := filter (fun e => id_eqb (l_par e) pid) es.

Lemma id_eqb_eq a b : id_eqb a b = true <-> a = b.
Proof.
  destruct a as [a1 a2], b as [b1 b2]. unfold id_eqb. cbn [fst snd]. rewrite andb_true_iff, !Z.eqb_eq.
  split; [intros [-> ->]; reflexivity|intros [= -> ->]; split; reflexivity].
Qed.

Lemma id_eqb_refl a : id_eqb a a = true.
Proof. now apply id_eqb_eq. Qed.

Lemma id_eqb_neq a b : a <> b -> id_eqb a b = false.
Proof. intros H. destruct (id_eqb a b) eqn:E; [apply id_eqb_eq in E; contradiction|reflexivity]. Qed.

Lemma list_eqb_eq a : forall b, list_eqb a b = true <-> a = b.
Proof.
  unfold list_eqb. induction a as [|x a IH]; intros [|y b].
  - cbn. split; reflexivity.
  - cbn. split; discriminate.
  - cbn. split; discriminate.
  - specialize (IH b). cbn [length combine forallb fst snd]. cbn [Nat.eqb].
    rewrite andb_true_iff in IH. rewrite !andb_true_iff, Z.eqb_eq.
    split.
    + intros (Hl & -> & Hf). f_equal. apply IH. split; assumption.
    + intros [= -> ->]. destruct IH as [_ IH]. destruct (IH eq_refl) as [Hl Hf]. repeat split; assumption.
Qed.

Lemma list_eqb_neq a b : a <> b -> list_eqb a b = false.
Proof. intros H. destruct (list_eqb a b) eqn:E; [apply list_eqb_eq in E; contradiction|reflexivity]. Qed.

Lemma dict_set_fresh {A} (d : list (list Z * A)) k v :
  ~ In k (map fst d) -> dict_set d k v = d ++ [(k, v)].
Proof.
  induction d as [|[k' v'] d IH]; intros Hn; [reflexivity|].
  cbn [dict_set]. cbn [map fst In] in Hn.
  rewrite list_eqb_neq by tauto. cbn [app]. f_equal. apply IH. tauto.
Qed.

Lemma NoDup_app_disjoint {A} (l l' : list A) x : NoDup (l ++ l') -> In x l -> In x l' -> False.
Proof.
  induction l as [|a l IH]; intros Hnd Hin Hin'; [contradiction|].
  cbn in Hnd. inversion Hnd as [|? ? Hna Hnd']; subst.
  destruct Hin as [->|Hin]; [apply Hna, in_or_app; now right|eauto].
Qed.

Lemma NoDup_app_l {A} (l l' : list A) : NoDup (l ++ l') -> NoDup l.
Proof.
  induction l as [|a l IH]; intros H; [constructor|].
  cbn in H. inversion H as [|? ? Hn Hd]; subst. constructor; [|auto].
  intros Hin. apply Hn, in_or_app. now left.
Qed.

Lemma NoDup_app_r {A} (l l' : list A) : NoDup (l ++ l') -> NoDup l'.
Proof. induction l as [|a l IH]; intros H; [exact H|]. cbn in H. inversion H; auto. Qed.

Lemma dict_of_nodup_gen es : forall d,
  NoDup (map fst d ++ map l_key es) ->
  fold_left (fun d e => dict_set d (l_key e) e) es d = d ++ map (fun e => (l_key e, e)) es.
Proof.
  induction es as [|e es IH]; intros d Hnd; [cbn; now rewrite app_nil_r|].
  cbn [fold_left map]. cbn [map] in Hnd.
  rewrite dict_set_fresh.
  - rewrite IH.
    + rewrite <- app_assoc. reflexivity.
    + rewrite map_app. cbn [map fst]. rewrite <- app_assoc. exact Hnd.
  - intros Hin. apply NoDup_remove_2 in Hnd. apply Hnd, in_or_app. now left.
Qed.

Lemma dict_of_nodup es : NoDup (map l_key es) -> dict_of es = map (fun e => (l_key e, e)) es.
Proof. intros H. unfold dict_of. now rewrite dict_of_nodup_gen. Qed.

Lemma mapM_perm {A B} (g : A -> res B) l1 l2 :
  Permutation l1 l2 -> forall r1, mapM g l1 = Ok r1 -> exists r2, mapM g l2 = Ok r2 /\ Permutation r1 r2.
Proof.
  induction 1 as [|x l l' _ IH|x y l|l l' l'' _ IH1 _ IH2]; intros r1 Hr.
  - cbn in Hr. injection Hr as <-. exists []. split; [reflexivity|constructor].
  - cbn [mapM] in *. destruct (g x) as [b| |]; cbn [bind] in *; try discriminate.
    destruct (mapM g l) as [r| |] eqn:Hl; cbn [bind] in *; try discriminate. injection Hr as <-.
    destruct (IH r eq_refl) as (r2 & -> & Hp). exists (b :: r2). split; [reflexivity|now constructor].
  - cbn [mapM] in *. destruct (g y) as [by_| |]; cbn [bind] in *; try discriminate.
    destruct (g x) as [bx| |]; cbn [bind] in *; try discriminate.
    destruct (mapM g l) as [r| |]; cbn [bind] in *; try discriminate. injection Hr as <-.
    exists (bx :: by_ :: r). split; [reflexivity|apply perm_swap].
  - destruct (IH1 _ Hr) as (r2 & H2 & P2). destruct (IH2 _ H2) as (r3 & H3 & P3).
    exists r3. split; [exact H3|eapply perm_trans; eassumption].
Qed.

Lemma Permutation_filter {A} (f : A -> bool) l l' : Permutation l l' -> Permutation (filter f l) (filter f l').
Proof.
  induction 1 as [|x l l' _ IH|x y l|l l' l'' _ IH1 _ IH2]; cbn [filter].
  - constructor.
  - destruct (f x); [now constructor|assumption].
  - destruct (f x), (f y); try apply Permutation_refl. apply perm_swap.
  - eapply perm_trans; eassumption.
Qed.

Lemma fold_and_Forall {A} (Q : A -> Prop) l : fold_right (fun c P => Q c /\ P) True l <-> Forall Q l.
Proof.
  induction l as [|a l IH]; cbn; [split; [constructor|trivial]|].
  rewrite IH. split; [intros []; now constructor|intros H; inversion H; tauto].
Qed.

(* ====================================================================== trees with a layout *)
Section atree_induction.
  Variable P : atree -> Prop.
  Hypothesis H : forall i k p cs, Forall P cs -> P (AT i k p cs).
  Fixpoint atree_ind' (a : atree) : P a :=
    match a with
    | AT i k p cs =>
        H i k p cs ((fix go (l : list atree) : Forall P l :=
                       match l with [] => Forall_nil _ | c :: r => Forall_cons _ (atree_ind' c) (go r) end) cs)
    end.
End atree_induction.

Inductive inside : atree -> atree -> Prop :=
| ins_self a : inside a a
| ins_kid n c a : In c (at_kids a) -> inside n c -> inside n a.

Definition insideF (n : atree) (G : list atree) : Prop := exists a, In a G /\ inside n a.

Fixpoint aids (a : atree) : list ident := at_id a :: flat_map aids (at_kids a).

Lemma ids_flat p a : map l_id (flat p a) = aids a.
Proof.
  revert p. induction a as [i k pl cs IH] using atree_ind'. intros p. cbn [flat aids at_id at_kids map]. f_equal.
  induction IH as [|c cs Hc _ IHcs]; [reflexivity|]. cbn [flat_map]. now rewrite map_app, Hc, IHcs.
Qed.

Lemma ids_flat_forest p G : map l_id (flat_forest p G) = flat_map aids G.
Proof.
  unfold flat_forest. induction G as [|a G IH]; [reflexivity|]. cbn [flat_map]. now rewrite map_app, ids_flat, IH.
Qed.

Lemma inside_id n a : inside n a -> In (at_id n) (aids a).
Proof.
  induction 1 as [a|n c a Hc _ IH]; destruct a as [i k pl cs]; cbn [aids at_id at_kids] in *; [now left|].
  right. apply in_flat_map. eauto.
Qed.

Lemma depth_le a G : In a G -> (depth a <= forest_depth G)%nat.
Proof.
  induction G as [|b G IH]; [contradiction|]. intros [->|Hin]; cbn [forest_depth fold_right]; [lia|].
  specialize (IH Hin). unfold forest_depth in IH. lia.
Qed.

Lemma kidsf_app l l' q : kidsf (l ++ l') q = kidsf l q ++ kidsf l' q.
Proof. apply filter_app. Qed.

Lemma kidsf_top p a l q : kidsf (top p a :: l) q = (if id_eqb p q then [top p a] else []) ++ kidsf l q.
Proof. unfold kidsf. cbn [filter top l_par]. destruct (id_eqb p q); reflexivity. Qed.

(* entries whose parent is q, in a forest none of whose nodes is q: only the roots can qualify *)
Lemma kidsf_forest_aux G i q :
  Forall (fun c => forall p, ~ In q (aids c) -> kidsf (flat p c) q = if id_eqb p q then [top p c] else []) G ->
  (forall c, In c G -> ~ In q (aids c)) ->
  kidsf (flat_map (flat i) G) q = if id_eqb i q then map (top i) G else [].
Proof.
  induction 1 as [|c G Hc _ IH]; intros Hout; [cbn; now destruct (id_eqb i q)|].
  cbn [flat_map map]. rewrite kidsf_app, Hc by (apply Hout; now left).
  rewrite IH by (intros c' Hc'; apply Hout; now right).
  destruct (id_eqb i q); reflexivity.
Qed.

Lemma kidsf_outside a : forall p q,
  ~ In q (aids a) -> kidsf (flat p a) q = if id_eqb p q then [top p a] else [].
Proof.
  induction a as [i k pl cs IH] using atree_ind'. intros p q Hq.
  cbn [flat]. rewrite kidsf_top. cbn [aids at_id at_kids In] in Hq.
  rewrite (kidsf_forest_aux cs i q).
  - rewrite (id_eqb_neq i q) by tauto. now rewrite app_nil_r.
  - eapply Forall_impl; [|exact IH]. intros c Hc p0. apply Hc.
  - intros c Hc Hin. apply Hq. right. apply in_flat_map. eauto.
Qed.

Lemma kidsf_forest_outside G i q :
  (forall c, In c G -> ~ In q (aids c)) ->
  kidsf (flat_map (flat i) G) q = if id_eqb i q then map (top i) G else [].
Proof.
  intros H. apply kidsf_forest_aux; [|exact H].
  apply Forall_forall. intros c _ p. apply kidsf_outside.
Qed.

(* with pairwise different identities, the entries whose parent is node n are exactly n's children *)
Lemma kids_of_inside n a :
  inside n a -> NoDup (aids a) ->
  kidsf (flat_forest (at_id a) (at_kids a)) (at_id n) = map (top (at_id n)) (at_kids n).
Proof.
  induction 1 as [a|n c a Hc Hin IH]; intros Hnd; destruct a as [i k pl cs]; cbn [at_id at_kids aids] in *.
  - unfold flat_forest. rewrite kidsf_forest_outside, id_eqb_refl; [reflexivity|].
    intros c Hc Hi. inversion Hnd as [|? ? Hni _]; subst. apply Hni, in_flat_map. eauto.
  - inversion Hnd as [|? ? Hni Hnd']; subst.
    destruct (in_split _ _ Hc) as (c1 & c2 & ->).
    pose proof (inside_id _ _ Hin) as Hq.
    rewrite flat_map_app in Hnd', Hni. cbn [flat_map] in Hnd', Hni.
    assert (Hneq : i <> at_id n).
    { intros ->. apply Hni, in_or_app. right. apply in_or_app. now left. }
    unfold flat_forest. rewrite flat_map_app. cbn [flat_map]. rewrite !kidsf_app.
    assert (H1 : forall c', In c' c1 -> ~ In (at_id n) (aids c')).
    { intros c' Hc' Hin'.
      apply (NoDup_app_disjoint _ _ (at_id n) Hnd'); [apply in_flat_map; eauto|apply in_or_app; now left]. }
    assert (H2 : forall c', In c' c2 -> ~ In (at_id n) (aids c')).
    { intros c' Hc' Hin'. apply NoDup_app_r in Hnd'.
      apply (NoDup_app_disjoint _ _ (at_id n) Hnd' Hq). apply in_flat_map. eauto. }
    rewrite (kidsf_forest_outside c1 i _ H1), (kidsf_forest_outside c2 i _ H2), (id_eqb_neq i (at_id n) Hneq).
    destruct c as [ci ck cpl ccs]. cbn [flat]. rewrite kidsf_top, (id_eqb_neq i (at_id n) Hneq).
    cbn [app]. rewrite app_nil_r. apply IH.
    apply NoDup_app_r in Hnd'. now apply NoDup_app_l in Hnd'.
Qed.

(* ====================================================================== as_dict *)
Definition conv (fuel : nat) (es : list lentry) (ke : list Z * lentry) : res (list Z * tree) :=
  let (k, e) := ke in
  if l_isnode e then do cs <- as_dict fuel es (l_id e); Ok (k, Node cs)
  else do v <- l_val e; Ok (k, Leaf v).

Lemma as_dict_S fuel es pid : as_dict (S fuel) es pid = mapM (conv fuel es) (dict_of (kidsf es pid)).
Proof. reflexivity. Qed.

Definition sib_rel (a b : list Z * tree) : Prop := fst a = fst b /\ tree_equiv (snd a) (snd b).

(* Theorem A: if, for the root and for every node n of the forest, the entries of es whose
   parent is n are (in any order) n's children, then as_dict returns the forest *)
Theorem as_dict_sound fuel : forall es G pid,
  Permutation (kidsf es pid) (map (top pid) G) ->
  (forall n, insideF n G -> at_payload n = PNode ->
             Permutation (kidsf es (at_id n)) (map (top (at_id n)) (at_kids n))) ->
  NoDup (map at_key G) ->
  (forall n, insideF n G -> at_payload n = PNode -> NoDup (map at_key (at_kids n))) ->
  (forest_depth G < fuel)%nat ->
  exists r, as_dict fuel es pid = Ok r /\ tree_equiv (Node r) (Node (map erase G)).
Proof.
  induction fuel as [|fuel IHf]; intros es G pid Hroot Hin Hkeys Hkin Hd; [lia|].
  rewrite as_dict_S.
  assert (Hk : NoDup (map l_key (kidsf es pid))).
  { apply (Permutation_NoDup (l := map at_key G)); [|exact Hkeys].
    apply Permutation_sym. replace (map at_key G) with (map l_key (map (top pid) G)).
    - apply Permutation_map, Hroot.
    - rewrite map_map. reflexivity. }
  rewrite (dict_of_nodup _ Hk).
  assert (Hall : forall G', incl G' G ->
            exists r0, mapM (conv fuel es) (map (fun e => (l_key e, e)) (map (top pid) G')) = Ok r0 /\
                       Forall2 sib_rel r0 (map erase G')).
  { induction G' as [|a G' IHG]; intros Hincl.
    - exists []. split; [reflexivity|constructor].
    - assert (Ha : In a G) by (apply Hincl; now left).
      destruct (IHG (fun x Hx => Hincl x (or_intror Hx))) as (r' & Hr' & HF').
      cbn [map mapM]. rewrite Hr'.
      destruct a as [i k pl cs]. destruct pl as [|v].
      + (* node *)
        destruct (IHf es cs i) as (ra & Hra & Hea).
        * apply (Hin (AT i k PNode cs)); [exists (AT i k PNode cs); split; [exact Ha|constructor]|reflexivity].
        * intros n (c & Hc & Hnc) Hp. apply Hin; [|exact Hp].
          exists (AT i k PNode cs). split; [exact Ha|]. eapply ins_kid; [exact Hc|exact Hnc].
        * apply (Hkin (AT i k PNode cs)); [exists (AT i k PNode cs); split; [exact Ha|constructor]|reflexivity].
        * intros n (c & Hc & Hnc) Hp. apply Hkin; [|exact Hp].
          exists (AT i k PNode cs). split; [exact Ha|]. eapply ins_kid; [exact Hc|exact Hnc].
        * pose proof (depth_le _ _ Ha) as Hle. cbn [depth] in Hle. fold (forest_depth cs) in Hle. lia.
        * cbn [conv top l_key l_isnode l_id at_key at_id at_payload]. rewrite Hra. cbn [bind].
          eexists. split; [reflexivity|]. constructor; [|exact HF'].
          split; [reflexivity|]. cbn [snd erase]. exact Hea.
      + cbn [conv top l_key l_isnode l_val at_key at_payload bind].
        eexists. split; [reflexivity|]. constructor; [|exact HF'].
        split; [reflexivity|]. cbn [snd erase]. constructor. }
  destruct (Hall G (incl_refl G)) as (r0 & Hr0 & HF0).
  destruct (mapM_perm (conv fuel es) _ (map (fun e => (l_key e, e)) (kidsf es pid))
              (Permutation_map _ (Permutation_sym Hroot)) r0 Hr0) as (r & Hr & Hp).
  exists r. split; [exact Hr|].
  apply (te_node r r0 (map erase G)); [apply Permutation_sym, Hp|exact HF0].
Qed.

Lemma keys_unique_inside n a :
  inside n a -> keys_unique a -> NoDup (map at_key (at_kids n)).
Proof.
  induction 1 as [a|n c a Hc _ IH]; intros Hk; destruct a as [i k pl cs]; cbn [keys_unique at_kids] in *.
  - tauto.
  - destruct Hk as [_ Hk]. apply fold_and_Forall in Hk. rewrite Forall_forall in Hk. apply IH, Hk, Hc.
Qed.

(* Theorem A + B: every permutation of the entries a tree stores, under any assignment of pairwise
   different identities, links back to the tree *)
Theorem link_entries_roundtrip F es :
  Permutation es (flat_forest root_id F) ->
  NoDup (root_id :: flat_map aids F) ->
  forest_keys_unique F ->
  exists r, as_dict (S (length es)) es root_id = Ok r /\ tree_equiv (Node r) (Node (map erase F)).
Proof.
  intros Hperm Hnd [Hk0 Hk].
  set (a0 := AT root_id [] PNode F).
  assert (Hkids : forall n, inside n a0 ->
            Permutation (kidsf es (at_id n)) (map (top (at_id n)) (at_kids n))).
  { intros n Hn. rewrite <- (kids_of_inside n a0 Hn Hnd). cbn [at_id at_kids a0].
    apply Permutation_filter, Hperm. }
  assert (Hup : forall n, insideF n F -> inside n a0).
  { intros n (a & Ha & Hna). eapply ins_kid; [exact Ha|exact Hna]. }
  apply as_dict_sound.
  - apply (Hkids a0). constructor.
  - intros n Hn _. apply Hkids, Hup, Hn.
  - exact Hk0.
  - intros n (a & Ha & Hna) _. apply fold_and_Forall in Hk. rewrite Forall_forall in Hk.
    eapply keys_unique_inside; [exact Hna|apply Hk, Ha].
  - rewrite (Permutation_length Hperm).
    (* the depth of a forest is at most the number of entries it stores *)
    assert (Hdepth : forall G p, (forest_depth G <= length (flat_forest p G))%nat).
    { assert (Hd1 : forall a p, (depth a <= length (flat p a))%nat).
      { induction a as [i k pl cs IH] using atree_ind'. intros p. cbn [flat length].
        destruct pl; cbn [depth]; [|lia].
        apply le_n_S. induction IH as [|c cs Hc _ IHcs]; [cbn; lia|].
        cbn [fold_right flat_map]. rewrite app_length. specialize (Hc i). lia. }
      induction G as [|a G IHG]; intros p; [cbn; lia|].
      cbn [forest_depth fold_right flat_forest flat_map]. rewrite app_length.
      specialize (Hd1 a p). specialize (IHG p). unfold forest_depth, flat_forest in IHG. lia. }
    specialize (Hdepth F root_id). lia.
Qed.

(* ====================================================================== link on key tables *)
Lemma flat_par a : forall p e, In e (flat p a) -> l_par e = p \/ In (l_par e) (aids a).
Proof.
  induction a as [i k pl cs IH] using atree_ind'. intros p e. cbn [flat aids at_id at_kids].
  intros [<-|Hin]; [now left|]. right. apply in_flat_map in Hin. destruct Hin as (c & Hc & Hec).
  rewrite Forall_forall in IH. destruct (IH c Hc i e Hec) as [->|Hd]; [now left|].
  right. apply in_flat_map. eauto.
Qed.

Lemma assoc_z_nodup {A} (ts : list (Z * A)) k v : NoDup (map fst ts) -> In (k, v) ts -> assoc_z ts k = Some v.
Proof.
  induction ts as [|[k' v'] ts IH]; intros Hnd Hin; [contradiction|].
  cbn [map fst] in Hnd. inversion Hnd as [|? ? Hn Hnd']; subst. cbn [assoc_z].
  destruct Hin as [[= -> ->]|Hin]; [now rewrite Z.eqb_refl|].
  destruct (Z.eqb_spec k' k) as [->|]; [|auto].
  exfalso. apply Hn. change k with (fst (k, v)). now apply in_map.
Qed.

Lemma find_not_none {A} (g : A -> bool) l x : In x l -> g x = true -> find g l <> None.
Proof. intros Hin Hg Hn. pose proof (find_none g l Hn x Hin). congruence. Qed.

Theorem link_roundtrip ts F :
  tables_wf ts ->
  Permutation (live_entries ts) (flat_forest root_id F) ->
  NoDup (root_id :: flat_map aids F) ->
  forest_keys_unique F ->
  exists t, link ts = Ok t /\ tree_equiv t (Node (map erase F)).
Proof.
  intros [Hnd Hidx] Hperm Hids Hkeys. unfold link.
  assert (Hchk : forallb (link_check ts) (live_entries ts) = true).
  { apply forallb_forall. intros e He. unfold link_check.
    assert (Hef : In e (flat_forest root_id F)) by (eapply Permutation_in; eassumption).
    unfold flat_forest in Hef. apply in_flat_map in Hef. destruct Hef as (a & Ha & Hea).
    assert (Hok : l_keyok e = true).
    { clear - Hea. revert Hea. generalize root_id as p. induction a as [i k pl cs IH] using atree_ind'.
      intros p. cbn [flat]. intros [<-|Hin]; [reflexivity|].
      apply in_flat_map in Hin. destruct Hin as (c & Hc & Hec). rewrite Forall_forall in IH. eauto. }
    rewrite Hok. cbn [andb].
    destruct (flat_par a root_id e Hea) as [->|Hp]; [reflexivity|].
    (* the parent is a stored entry, hence present in its table *)
    assert (Hpin : In (l_par e) (map l_id (flat_forest root_id F))).
    { rewrite ids_flat_forest. apply in_flat_map. eauto. }
    apply in_map_iff in Hpin. destruct Hpin as (e' & He' & Hin').
    apply (Permutation_in _ (Permutation_sym Hperm)) in Hin'.
    unfold live_entries in Hin'. apply filter_In in Hin'. destruct Hin' as [Hin' _].
    apply in_concat in Hin'. destruct Hin' as (l & Hl & Hel).
    apply in_map_iff in Hl. destruct Hl as ([idx l'] & Heq & Hts). cbn [snd] in Heq. subst l'.
    pose proof (Hidx idx l e' Hts Hel) as Hi.
    unfold lookup_id. rewrite <- He', Hi, (assoc_z_nodup ts idx l Hnd Hts).
    destruct (find (fun e0 => snd (l_id e0) =? snd (l_id e')) l) eqn:Hf.
    - apply orb_true_r.
    - exfalso. apply (find_not_none _ l e' Hel (Z.eqb_refl _) Hf). }
  rewrite Hchk.
  destruct (link_entries_roundtrip F (live_entries ts) Hperm Hids Hkeys) as (r & -> & Hr).
  cbn [bind]. eauto.
Qed.

(* ---------- free entries are ignored ---------- *)
Lemma live_strip ts : live_entries (strip_free ts) = live_entries ts.
Proof.
  unfold live_entries, strip_free. induction ts as [|[i l] ts IH]; [reflexivity|].
  cbn [map concat snd fst]. rewrite !filter_app, IH. f_equal.
  induction l as [|e l IHl]; [reflexivity|]. cbn [filter]. destruct (negb (l_free e)) eqn:E; cbn [filter]; rewrite ?E, IHl; reflexivity.
Qed.

Lemma assoc_strip ts k :
  assoc_z (strip_free ts) k = option_map (filter (fun e => negb (l_free e))) (assoc_z ts k).
Proof.
  induction ts as [|[i l] ts IH]; [reflexivity|]. cbn [strip_free map assoc_z fst snd].
  destruct (i =? k); [reflexivity|exact IH].
Qed.

Theorem free_ignored ts t : link (strip_free ts) = Ok t -> link ts = Ok t.
Proof.
  unfold link. rewrite live_strip.
  destruct (forallb (link_check (strip_free ts)) (live_entries ts)) eqn:Hs; [|discriminate].
  assert (Hc : forallb (link_check ts) (live_entries ts) = true).
  { rewrite forallb_forall in *. intros e He. specialize (Hs e He). unfold link_check in *.
    apply andb_true_iff in Hs. destruct Hs as [-> Hs]. cbn [andb].
    apply orb_true_iff in Hs. destruct Hs as [->|Hs]; [reflexivity|].
    apply orb_true_iff. right. unfold lookup_id in *. rewrite assoc_strip in Hs.
    destruct (assoc_z ts (fst (l_par e))) as [l|]; [|discriminate]. cbn [option_map] in Hs.
    destruct (find _ (filter _ l)) as [x|] eqn:Hf; [|discriminate].
    apply find_some in Hf. destruct Hf as [Hin Hx]. apply filter_In in Hin.
    destruct (find (fun e0 => snd (l_id e0) =? snd (l_par e)) l) eqn:Hf'; [reflexivity|].
    exfalso. apply (find_not_none _ l x (proj1 Hin) Hx Hf'). }
  now rewrite Hc.
Qed.

(* ====================================================================== the active header / key table *)
Theorem active_header_max h1 h2 :
  h_seq (active_header h1 h2) = Z.max (h_seq h1) (h_seq h2) /\
  (h_seq h2 < h_seq h1 -> active_header h1 h2 = h1) /\ (h_seq h1 < h_seq h2 -> active_header h1 h2 = h2).
Proof.
  unfold active_header, active_is_first. destruct (Z.gtb_spec (h_seq h1) (h_seq h2)); repeat split; intros; lia || reflexivity.
Qed.

Lemma insert_seq_in t l x : In x (insert_seq t l) <-> x = t \/ In x l.
Proof.
  induction l as [|h r IH]; cbn [insert_seq In]; [intuition|].
  destruct (kt_seq t <=? kt_seq h); cbn [In]; [rewrite IH|]; intuition.
Qed.

Definition head_max (l : list ktable) : Prop :=
  match l with [] => False | h :: r => forall x, In x r -> kt_seq x <= kt_seq h end.

Lemma insert_seq_head_max t l : (l = [] \/ head_max l) -> head_max (insert_seq t l).
Proof.
  destruct l as [|h r]; intros Hm; [cbn; contradiction|]. destruct Hm as [|Hm]; [discriminate|].
  cbn [insert_seq]. destruct (Z.leb_spec (kt_seq t) (kt_seq h)); cbn [head_max] in *.
  - intros x Hx. apply insert_seq_in in Hx. destruct Hx as [->|Hx]; [lia|auto].
  - intros x [->|Hx]; [lia|]. specialize (Hm x Hx). lia.
Qed.

Lemma rget_register t reg idx :
  assoc_z (register t reg) idx =
  if idx =? kt_index t
  then Some (insert_seq t (match assoc_z reg idx with Some l => l | None => [] end))
  else assoc_z reg idx.
Proof.
  induction reg as [|[i l] reg IH].
  - cbn [register assoc_z insert_seq]. rewrite (Z.eqb_sym (kt_index t) idx). destruct (idx =? kt_index t); reflexivity.
  - cbn [register]. destruct (Z.eqb_spec i (kt_index t)) as [->|Hne]; cbn [assoc_z].
    + rewrite (Z.eqb_sym (kt_index t) idx). destruct (idx =? kt_index t); reflexivity.
    + destruct (Z.eqb_spec i idx) as [->|Hni].
      * destruct (Z.eqb_spec idx (kt_index t)); [contradiction|reflexivity].
      * exact IH.
Qed.

Lemma keys_register t reg :
  map fst (register t reg) = map fst reg \/
  (~ In (kt_index t) (map fst reg) /\ map fst (register t reg) = map fst reg ++ [kt_index t]).
Proof.
  induction reg as [|[i l] reg IH]; cbn [register map fst].
  - right. split; [intros []|reflexivity].
  - destruct (Z.eqb_spec i (kt_index t)) as [->|Hne]; cbn [map fst]; [now left|].
    destruct IH as [->|[Hn ->]]; [now left|right]. split; [|reflexivity].
    cbn [In]. intros [|]; [congruence|contradiction].
Qed.

Definition reg_inv (reg : list (Z * list ktable)) (seen : list ktable) : Prop :=
  NoDup (map fst reg) /\
  forall idx, match assoc_z reg idx with
              | None => forall x, In x seen -> kt_index x <> idx
              | Some l => head_max l /\ forall x, In x l <-> In x seen /\ kt_index x = idx
              end.

Lemma register_inv t reg seen : reg_inv reg seen -> reg_inv (register t reg) (seen ++ [t]).
Proof.
  intros [Hnd Hget]. split.
  - destruct (keys_register t reg) as [->|[Hn ->]]; [exact Hnd|].
    apply NoDup_rev in Hnd. rewrite <- (rev_involutive (map fst reg ++ [kt_index t])). apply NoDup_rev.
    rewrite rev_app_distr. cbn [rev app]. constructor; [|exact Hnd]. now rewrite <- in_rev.
  - intros idx. rewrite rget_register. specialize (Hget idx).
    destruct (Z.eqb_spec idx (kt_index t)) as [->|Hne].
    + destruct (assoc_z reg (kt_index t)) as [l|].
      * destruct Hget as [Hm Hmem]. split; [apply insert_seq_head_max; now right|].
        intros x. rewrite insert_seq_in, Hmem, in_app_iff. cbn [In]. intuition (subst; auto).
      * split; [cbn; intros x []|]. intros x. cbn [insert_seq In]. rewrite in_app_iff. cbn [In].
        split; [intros [<-|[]]; auto|]. intros [[Hx|[<-|[]]] Hi]; [destruct (Hget x Hx Hi)|now left].
    + destruct (assoc_z reg idx) as [l|].
      * destruct Hget as [Hm Hmem]. split; [exact Hm|]. intros x. rewrite Hmem, in_app_iff. cbn [In].
        intuition (subst; congruence).
      * intros x Hx. apply in_app_iff in Hx. destruct Hx as [Hx|[<-|[]]]; [auto|congruence].
Qed.

(* among the key tables sharing an index the one with the highest sequence number is used,
   whatever the order in which the tables are met *)
Theorem active_key_table ts idx l :
  In (idx, l) (registry ts) ->
  exists h r, l = h :: r /\ In h ts /\ kt_index h = idx /\
              forall x, In x ts -> kt_index x = idx -> kt_seq x <= kt_seq h.
Proof.
  assert (Hgen : forall ts reg seen, reg_inv reg seen ->
            reg_inv (fold_left (fun reg t => register t reg) ts reg) (seen ++ ts)).
  { induction ts0 as [|t ts0 IH]; intros reg seen Hinv; [now rewrite app_nil_r|].
    cbn [fold_left]. replace (seen ++ t :: ts0) with ((seen ++ [t]) ++ ts0) by (rewrite <- app_assoc; reflexivity).
    apply IH, register_inv, Hinv. }
  assert (H0 : reg_inv [] []) by (split; [constructor|intros i x []]).
  specialize (Hgen ts [] [] H0). cbn [app] in Hgen. fold (registry ts) in Hgen.
  destruct Hgen as [Hnd Hget]. intros Hin. specialize (Hget idx).
  rewrite (assoc_z_nodup _ idx l Hnd Hin) in Hget. destruct Hget as [Hm Hmem].
  destruct l as [|h r]; [contradiction|]. exists h, r. split; [reflexivity|].
  destruct (proj1 (Hmem h) (or_introl eq_refl)) as [Hh Hi]. repeat split; try assumption.
  intros x Hx Hxi. destruct (proj2 (Hmem x) (conj Hx Hxi)) as [->|Hr]; [lia|]. apply Hm, Hr.
Qed.

(* ====================================================================== C11: the object-table worklist *)
Section WorklistBound.
  Variable ld_otab : Z -> res (list oentry).
  Variable ld_ktab : Z -> Z -> res ktable.
  Variable ld_rlog : Z -> res unit.
  Variable U : list Z.                       (* the offsets at which an object table can be loaded *)
  Hypothesis HU : forall o t, ld_otab o = Ok t -> In o U.

  Definition wl_inv (st : state) : Prop := NoDup (s_visited st) /\ incl (s_visited st) U.

  Let pe := proc_entry ld_otab ld_ktab ld_rlog.
  Let pes := proc_entries ld_otab ld_ktab ld_rlog.
  Let step := wl_step ld_otab ld_ktab ld_rlog.
  Let steps := wl_steps ld_otab ld_ktab ld_rlog.
  Let iter := wl_iter ld_otab ld_ktab ld_rlog.

  Lemma zmem_in x l : zmem x l = true <-> In x l.
  Proof.
    unfold zmem. rewrite existsb_exists. split.
    - intros (y & Hy & He). apply Z.eqb_eq in He. now subst.
    - intros H. exists x. split; [exact H|apply Z.eqb_refl].
  Qed.

  Lemma proc_entry_inv e st st' :
    wl_inv st -> pe e st = Ok st' ->
    wl_inv st' /\
    (length (s_visited st') + length (s_pending st) = length (s_visited st) + length (s_pending st'))%nat.
  Proof.
    intros [Hnd Hincl]. unfold pe, proc_entry.
    destruct (o_alloc e =? 0); [intros [= <-]; split; [split; assumption|reflexivity]|].
    destruct (o_type e =? E.hyperv_ObjectEntryType_ObjectTable).
    { destruct (zmem (o_off e) (s_visited st)) eqn:Hm; [intros [= <-]; split; [split; assumption|reflexivity]|].
      destruct (ld_otab (o_off e)) as [t| |] eqn:Hld; cbn [bind]; try discriminate.
      intros [= <-]. cbn [s_visited s_pending]. split; [split|].
      - apply NoDup_rev in Hnd. rewrite <- (rev_involutive (s_visited st ++ [o_off e])). apply NoDup_rev.
        rewrite rev_app_distr. cbn [rev app]. constructor; [|exact Hnd]. rewrite <- in_rev.
        intros Hin. apply zmem_in in Hin. congruence.
      - intros x Hx. apply in_app_or in Hx. destruct Hx as [Hx|[<-|[]]]; [auto|eapply HU; eassumption].
      - rewrite !app_length. cbn [length]. lia. }
    destruct (o_type e =? E.hyperv_ObjectEntryType_KeyTable).
    { destruct (ld_ktab (o_off e) (o_size e)); cbn [bind]; try discriminate.
      intros [= <-]. cbn [s_visited s_pending]. split; [split; assumption|reflexivity]. }
    destruct (o_type e =? E.hyperv_ObjectEntryType_File).
    { intros [= <-]. cbn [s_visited s_pending]. split; [split; assumption|reflexivity]. }
    destruct (o_type e =? E.hyperv_ObjectEntryType_ReplayLog).
    { destruct (ld_rlog (o_off e)); cbn [bind]; try discriminate.
      intros [= <-]. split; [split; assumption|reflexivity]. }
    intros [= <-]. split; [split; assumption|reflexivity].
  Qed.

  Lemma proc_entries_inv es : forall st st',
    wl_inv st -> pes es st = Ok st' ->
    wl_inv st' /\
    (length (s_visited st') + length (s_pending st) = length (s_visited st) + length (s_pending st'))%nat.
  Proof.
    induction es as [|e es IH]; intros st st' Hinv; cbn [pes proc_entries].
    - intros [= <-]. split; [assumption|reflexivity].
    - fold pe. destruct (pe e st) as [st1| |] eqn:H1; cbn [bind]; try discriminate.
      intros H2. destruct (proc_entry_inv e st st1 Hinv H1) as [Hinv1 Hl1].
      destruct (IH st1 st' Hinv1 H2) as [Hinv2 Hl2]. split; [assumption|lia].
  Qed.

  Definition measure (st : state) : nat := (length U - length (s_visited st) + length (s_pending st))%nat.

  Lemma visited_le st : wl_inv st -> (length (s_visited st) <= length U)%nat.
  Proof. intros [Hnd Hincl]. apply NoDup_incl_length; assumption. Qed.

  Lemma step_more st st' :
    wl_inv st -> step st = WMore st' -> wl_inv st' /\ (S (measure st') = measure st)%nat.
  Proof.
    intros Hinv. unfold step, wl_step. destruct (s_pending st) as [|t rest] eqn:Hp; [discriminate|].
    set (st0 := {| s_kts := s_kts st; s_fobjs := s_fobjs st; s_visited := s_visited st; s_pending := rest |}).
    destruct (proc_entries ld_otab ld_ktab ld_rlog t st0) as [st1| |] eqn:Hpe; try discriminate.
    intros [= <-].
    assert (Hinv0 : wl_inv st0) by exact Hinv.
    destruct (proc_entries_inv t st0 st1 Hinv0 Hpe) as [Hinv1 Hl].
    split; [exact Hinv1|]. pose proof (visited_le _ Hinv1). pose proof (visited_le _ Hinv).
    unfold measure. cbn [st0 s_visited s_pending] in Hl. rewrite Hp. cbn [length]. lia.
  Qed.

  (* the worklist ends within measure + 1 iterations: every object table is loaded at most once *)
  Theorem worklist_bounded n : forall st,
    wl_inv st -> (measure st < n)%nat -> forall st', steps n st <> WMore st'.
  Proof.
    induction n as [|n IH]; intros st Hinv Hm st'; [lia|].
    cbn [steps wl_steps]. fold step. destruct (step st) as [d| | |st1] eqn:Hs; try discriminate.
    destruct (step_more st st1 Hinv Hs) as [Hinv1 Hm1]. apply IH; [exact Hinv1|lia].
  Qed.

  Lemma steps_inv n : forall st st', wl_inv st -> steps n st = WDone st' -> wl_inv st'.
  Proof.
    induction n as [|n IH]; intros st st' Hinv; cbn [steps wl_steps]; [discriminate|].
    fold step. destruct (step st) as [d| | |st1] eqn:Hs; try discriminate.
    - intros [= <-]. unfold step, wl_step in Hs. destruct (s_pending st); [injection Hs as <-; exact Hinv|].
      destruct (proc_entries _ _ _ _ _); discriminate.
    - apply IH. apply (step_more st st1 Hinv Hs).
  Qed.

  Lemma steps_add a : forall b st,
    steps (a + b) st = match steps a st with WMore st' => steps b st' | r => r end.
  Proof.
    induction a as [|a IH]; intros b st; [reflexivity|].
    cbn [Nat.add steps wl_steps]. fold step. destruct (step st); try reflexivity. apply IH.
  Qed.

  Lemma iter_steps k : forall st, iter k st = steps (2 ^ k) st.
  Proof.
    induction k as [|k IH]; intros st.
    - cbn [iter wl_iter Nat.pow steps wl_steps]. fold step. destruct (step st); reflexivity.
    - cbn [iter wl_iter]. fold iter. replace (2 ^ S k)%nat with (2 ^ k + 2 ^ k)%nat by (cbn; lia).
      rewrite steps_add, IH. destruct (steps (2 ^ k) st); try reflexivity. apply IH.
  Qed.

  Lemma steps_mono n m st : (n <= m)%nat -> (forall st', steps n st <> WMore st') -> steps m st = steps n st.
  Proof.
    intros Hle Hn. replace m with (n + (m - n))%nat by lia. rewrite steps_add.
    destruct (steps n st) as [| | |st']; try reflexivity. destruct (Hn st' eq_refl).
  Qed.

  Hypothesis Hk_nofuel : forall o s, ld_ktab o s <> Fuel.
  Hypothesis Hr_nofuel : forall o, ld_rlog o <> Fuel.
  Hypothesis Ho_nofuel : forall o, ld_otab o <> Fuel.

  Lemma proc_entries_nofuel es : forall st, pes es st <> Fuel.
  Proof.
    induction es as [|e es IH]; intros st; cbn [pes proc_entries]; [discriminate|].
    assert (He : proc_entry ld_otab ld_ktab ld_rlog e st <> Fuel).
    { unfold proc_entry. destruct (o_alloc e =? 0); [discriminate|].
      destruct (o_type e =? _).
      { destruct (zmem _ _); [discriminate|]. pose proof (Ho_nofuel (o_off e)).
        destruct (ld_otab (o_off e)); cbn [bind]; congruence. }
      destruct (o_type e =? _).
      { pose proof (Hk_nofuel (o_off e) (o_size e)). destruct (ld_ktab _ _); cbn [bind]; congruence. }
      destruct (o_type e =? _); [discriminate|].
      destruct (o_type e =? _); [|discriminate].
      pose proof (Hr_nofuel (o_off e)). destruct (ld_rlog _); cbn [bind]; congruence. }
    destruct (proc_entry ld_otab ld_ktab ld_rlog e st) as [st1| |]; cbn [bind]; [apply IH|discriminate|congruence].
  Qed.

  Lemma steps_nofuel n : forall st, steps n st <> WFuel.
  Proof.
    induction n as [|n IH]; intros st; cbn [steps wl_steps]; [discriminate|].
    unfold wl_step. destruct (s_pending st) as [|t rest]; [discriminate|].
    pose proof (proc_entries_nofuel t {| s_kts := s_kts st; s_fobjs := s_fobjs st; s_visited := s_visited st;
                                         s_pending := rest |}) as Hp. unfold pes in Hp.
    destruct (proc_entries _ _ _ t _); [apply IH|discriminate|congruence].
  Qed.

  (* HyperVFile.__init__'s loop terminates whatever the object tables contain, and loads at most
     |U| tables, each offset once *)
  Theorem run_worklist_terminates k start :
    (length U < 2 ^ k)%nat ->
    run_worklist ld_otab ld_ktab ld_rlog k start <> Fuel /\
    forall st, run_worklist ld_otab ld_ktab ld_rlog k start = Ok st ->
               NoDup (s_visited st) /\ (length (s_visited st) <= length U)%nat.
  Proof.
    intros Hlen. unfold run_worklist.
    destruct (ld_otab start) as [t0| |] eqn:H0; cbn [bind]; [|split; [discriminate|discriminate]|destruct (Ho_nofuel _ H0)].
    fold iter. rewrite iter_steps.
    assert (Hinv : wl_inv (init_state start t0)).
    { split; cbn [init_state s_visited]; [repeat constructor; intros []|].
      intros x [<-|[]]. eapply HU; eassumption. }
    assert (Hm : (measure (init_state start t0) < 2 ^ k)%nat).
    { unfold measure. cbn [init_state s_visited s_pending length].
      pose proof (visited_le _ Hinv) as Hv. cbn [init_state s_visited length] in Hv. lia. }
    pose proof (worklist_bounded _ _ Hinv Hm) as Hb. pose proof (steps_nofuel (2 ^ k) (init_state start t0)) as Hf.
    split.
    - destruct (steps (2 ^ k) (init_state start t0)) as [| | |st'] eqn:Hs;
        [discriminate|discriminate|congruence|destruct (Hb st' eq_refl)].
    - intros st. destruct (steps (2 ^ k) (init_state start t0)) as [d| | |st'] eqn:Hs; try discriminate.
      intros [= <-]. pose proof (steps_inv _ _ _ Hinv Hs) as Hi. split; [apply Hi|apply visited_le, Hi].
  Qed.
End WorklistBound.

(* ====================================================================== examples (non-vacuity) *)
Definition ex_forest : list atree :=
  [AT (1, 10) [99] PNode
     [AT (2, 10) [118] (PLeaf (VInt 2304)) [];
      AT (7, 57) [110] (PLeaf (VString [65])) [];
      AT (2, 63) [115] PNode [AT (1, 80) [102] (PLeaf (VBool true)) []]]].

Definition ex_free : lentry :=
  {| l_id := (2, 40); l_par := root_id; l_key := []; l_keyok := true; l_free := true; l_isnode := false; l_val := Err |}.

Definition ex_tables : tables :=
  [(2, [top (1, 10) (AT (2, 10) [118] (PLeaf (VInt 2304)) []); ex_free;
        top (1, 10) (AT (2, 63) [115] PNode [])]);
   (7, [top (1, 10) (AT (7, 57) [110] (PLeaf (VString [65])) [])]);
   (1, [top root_id (AT (1, 10) [99] PNode []); top (2, 63) (AT (1, 80) [102] (PLeaf (VBool true)) [])])].

Lemma ex_nonvacuous :
  tables_wf ex_tables /\ Permutation (live_entries ex_tables) (flat_forest root_id ex_forest) /\
  NoDup (root_id :: flat_map aids ex_forest) /\ forest_keys_unique ex_forest /\
  link ex_tables = Ok (Node [([99], Node [([118], Leaf (VInt 2304)); ([115], Node [([102], Leaf (VBool true))]);
                                         ([110], Leaf (VString [65]))])]).
Proof.
  assert (Hnd : forall l : list ident, (forall a b, In a l -> In b l -> True) -> True) by trivial.
  split; [|split; [|split; [|split]]].
  - split.
    + cbn. repeat constructor; cbn; intuition discriminate.
    + intros idx l e Hin Hel. cbn in Hin.
      destruct Hin as [[= <- <-]|[[= <- <-]|[[= <- <-]|[]]]]; cbn in Hel;
        repeat (destruct Hel as [<-|Hel]; [reflexivity|]); contradiction.
  - cbn.
    (* live entries: v, s(ub), n, c(onfiguration), f(lag)  ~  c, v, n, s, f *)
    match goal with |- Permutation [?v; ?s; ?n; ?c; ?f] [?c'; ?v'; ?n'; ?s'; ?f'] =>
      apply (perm_trans (l' := [c; v; s; n; f])) end.
    + apply Permutation_sym. change (Permutation ([?[c]] ++ [?[v]; ?[s]; ?[n]] ++ [?[f]]) _) || idtac.
      apply (Permutation_cons_app [_; _; _] [_]). apply Permutation_refl.
    + apply perm_skip, perm_skip, perm_swap.
  - cbn. repeat constructor; cbn; intuition discriminate.
  - cbn. repeat split; repeat constructor; cbn; intuition discriminate.
  - vm_compute. reflexivity.
Qed.

Lemma ex_entry :
  let e := {| se_type := 6 + 256 * 2; se_pidx := 1; se_poff := 10; se_ck := 7; se_ins := 3; se_key := [107];
              se_body := enc_inline (VString [72; 105]) ++ [255; 255] |} in
  parse_ktab (enc_ktable 5 9 0 [e] []) (10 + se_size e) = Ok {| kt_index := 5; kt_seq := 9; kt_entries := place 10 [e] |} /\
  e_value {| fl_size := 0; fl_chunks := [] |} [] (rentry_of 10 e) = Ok (VString [72; 105]) /\
  stored_as {| fl_size := 0; fl_chunks := [] |} [] (rentry_of 10 e) (VString [72; 105]).
Proof.
  cbn zeta. split; [vm_compute; reflexivity|]. split; [vm_compute; reflexivity|].
  apply (st_inline _ _ _ (VString [72; 105]) [255; 255]).
  - now left.
  - vm_compute. reflexivity.
  - vm_compute. reflexivity.
  - cbn. repeat split; try reflexivity. repeat constructor; lia.
  - vm_compute. reflexivity.
Qed.

(* ====================================================================== concrete files: opening always terminates *)
Definition file_ok (f : file) : Prop := Forall (fun c : Z * list Z => bytes_ok (snd c)) (fl_chunks f).

Lemma zlen_repeat (x : Z) n : zlen (repeat x n) = Z.of_nat n.
Proof. unfold zlen. now rewrite repeat_length. Qed.

Lemma read_chunks_len cs : forall off n, zlen (read_chunks cs off n) <= Z.max 0 n.
Proof.
  induction cs as [|[co bs] cs IH]; intros off n; cbn [read_chunks].
  - destruct (Z.leb_spec n 0); [cbn; lia|]. rewrite zlen_repeat. lia.
  - destruct (Z.leb_spec n 0); [cbn; lia|].
    destruct (Z.leb_spec (off + n) co); [rewrite zlen_repeat; lia|].
    destruct (Z.leb_spec (co + zlen bs) off); [apply IH|].
    rewrite !zlen_app, zlen_repeat.
    pose proof (zlen_nonneg bs).
    set (s := Z.max off co). set (take := Z.min (off + n) (co + zlen bs) - s).
    assert (Hsl : zlen (slice bs (s - co) take) <= Z.max 0 take).
    { unfold slice, zlen. rewrite firstn_length. lia. }
    specialize (IH (s + take) (off + n - (s + take))). subst s take. lia.
Qed.

Lemma fread_len f off n : zlen (fread f off n) <= Z.max 0 (fl_size f - off) /\ (off < 0 -> fread f off n = []).
Proof.
  unfold fread. destruct (Z.ltb_spec off 0); split; try (cbn; lia); try reflexivity.
  - pose proof (read_chunks_len (fl_chunks f) off (Z.min n (fl_size f - off))). lia.
Qed.

Lemma bytes_ok_repeat0 n : bytes_ok (repeat 0 n).
Proof. induction n; cbn; constructor; [lia|assumption]. Qed.

Lemma read_chunks_ok cs : Forall (fun c : Z * list Z => bytes_ok (snd c)) cs ->
  forall off n, bytes_ok (read_chunks cs off n).
Proof.
  induction 1 as [|[co bs] cs Hb _ IH]; intros off n; cbn [read_chunks].
  - destruct (n <=? 0); [constructor|apply bytes_ok_repeat0].
  - destruct (n <=? 0); [constructor|].
    destruct (off + n <=? co); [apply bytes_ok_repeat0|].
    destruct (co + zlen bs <=? off); [apply IH|].
    apply Forall_app. split; [apply bytes_ok_repeat0|]. apply Forall_app. split; [|apply IH].
    unfold slice. apply bytes_ok_firstn, bytes_ok_skipn. exact Hb.
Qed.

Lemma fread_ok f off n : file_ok f -> bytes_ok (fread f off n).
Proof. intros H. unfold fread. destruct (off <? 0); [constructor|]. now apply read_chunks_ok. Qed.

Lemma load_otab_range f o t : load_otab f o = Ok t -> In o (zseq 0 (fl_size f)).
Proof.
  unfold load_otab. destruct (parse_fields otab_widths (fread f o otab_size)) as [vs|] eqn:Hp; [|discriminate].
  intros _.
  assert (Hw : Forall (fun w => 0 <= w) otab_widths) by (rewrite otab_widths_eq; unfold W_otab; repeat constructor; lia).
  destruct (parse_fields_some _ _ _ Hw Hp) as [Hsum _]. rewrite otab_widths_eq in Hsum. cbn in Hsum.
  destruct (fread_len f o otab_size) as [Hlen Hneg].
  destruct (Z.ltb_spec o 0) as [Ho|Ho]; [rewrite (Hneg Ho) in Hsum; cbn in Hsum; lia|].
  apply zseq_In. lia.
Qed.

Lemma load_otab_nofuel f o : load_otab f o <> Fuel.
Proof.
  unfold load_otab. destruct (parse_fields _ _) as [[|sig [|n [|]]]|]; try discriminate.
  destruct (negb _); [discriminate|]. destruct (_ && _); [discriminate|].
  destruct (all_some _); discriminate.
Qed.

Lemma load_rlog_nofuel f o : load_rlog f o <> Fuel.
Proof.
  unfold load_rlog. destruct (parse_fields _ _) as [[|sig [|ck [|n rest]]]|]; try discriminate.
  destruct (negb _); [discriminate|]. destruct (_ && _); discriminate.
Qed.

Lemma load_ktab_nofuel f : file_ok f -> forall o s, load_ktab f o s <> Fuel.
Proof. intros Hf o s. apply parse_ktab_progress, fread_ok, Hf. Qed.

Lemma pow2_fuel n : 0 <= n -> (Z.to_nat n < 2 ^ S (Z.to_nat (Z.log2 (Z.max 1 (n + 1)))))%nat.
Proof.
  intros Hn. assert (Hm : 0 < Z.max 1 (n + 1)) by lia.
  pose proof (Z.log2_spec _ Hm) as [_ Hlt]. pose proof (Z.log2_nonneg (Z.max 1 (n + 1))) as Hl.
  apply Nat2Z.inj_lt. rewrite Nat2Z.inj_pow. change (Z.of_nat 2) with 2.
  rewrite Nat2Z.inj_succ, !Z2Nat.id by lia. apply Z.lt_trans with (m := Z.max 1 (n + 1)); [lia|exact Hlt].
Qed.

(* HyperVFile.__init__ (repaired) terminates on every file, whatever its bytes *)
Theorem open_file_terminates f : file_ok f -> open_file f <> Fuel.
Proof.
  intros Hf. unfold open_file.
  destruct (parse_fhdr (fread f C.hyperv_FIRST_HEADER_OFFSET fhdr_size)); cbn [of_option bind]; [|discriminate].
  destruct (parse_fhdr (fread f C.hyperv_SECOND_HEADER_OFFSET fhdr_size)); cbn [of_option bind]; [|discriminate].
  destruct (negb _); [discriminate|]. destruct (negb _); [discriminate|].
  pose proof (load_rlog_nofuel f (h_rlo (active_header f0 f1))) as Hr.
  destruct (load_rlog f (h_rlo (active_header f0 f1))); cbn [bind]; try congruence.
  destruct (run_worklist_terminates (load_otab f) (load_ktab f) (load_rlog f) (zseq 0 (fl_size f))
              (load_otab_range f) (load_ktab_nofuel f Hf) (load_rlog_nofuel f) (load_otab_nofuel f)
              (file_fuel f) C.hyperv_OBJECT_TABLE_OFFSET) as [Hnf _].
  - unfold file_fuel, zseq. rewrite zseq_nat_length.
    destruct (Z.leb_spec 0 (fl_size f)); [apply pow2_fuel; assumption|].
    replace (Z.to_nat (fl_size f)) with 0%nat by lia. apply Nat.lt_le_trans with (m := 1%nat); [lia|].
    apply Nat.pow_le_mono_r with (a := 2%nat) (b := 0%nat); lia.
  - destruct (run_worklist _ _ _ _ _); cbn [bind]; congruence.
Qed.

(* ====================================================================== from stored entries to the entries linking sees *)
Lemma stored_type f fo r v : stored_as f fo r v -> e_typ r = type_of v.
Proof. destruct 1; cbn [type_of]; assumption. Qed.

Lemma node_value f fo r : e_typ r = 9 -> e_value f fo r = Err.
Proof.
  intros Ht. unfold e_value. destruct (e_data f fo r) as [d| |] eqn:Hd; cbn [bind]; [|reflexivity|].
  - rewrite Ht. reflexivity.
  - exfalso. unfold e_data in Hd. destruct (e_is_fop r); [|discriminate].
    destruct (fop_of _) as [[o s]|]; [|discriminate]. destruct (assoc_z fo o); discriminate.
Qed.

Theorem entry_decodes f fo idx off e p a :
  entry_stores f fo idx off e p a -> lentry_of f fo idx (rentry_of off e) = top p a.
Proof.
  intros (Hid & Hkey & Hutf & Hpar & Hpay).
  destruct (entry_fields off e) as (Hk & _ & Ht & _). cbn zeta in Hk, Ht.
  unfold lentry_of, top. rewrite Hk, Hkey, Hutf, Hid.
  change K.skipped_type with 1. change K.node_type with 9.
  assert (Hp : norm_par (kh_pidx (r_hdr (rentry_of off e)), kh_poff (r_hdr (rentry_of off e))) = p) by exact Hpar.
  rewrite Hp. destruct (at_payload a) as [|v].
  - rewrite Ht, Hpay. rewrite node_value by (rewrite Ht; exact Hpay). reflexivity.
  - rewrite (value_roundtrip _ _ _ _ Hpay), (stored_type _ _ _ _ Hpay).
    destruct v; reflexivity.
Qed.

Theorem table_decodes f fo idx : forall es ss off,
  slots_ok f fo idx off es ss ->
  filter (fun e => negb (l_free e)) (map (lentry_of f fo idx) (place off es)) = live_of ss.
Proof.
  induction es as [|e es IH]; intros [|s ss] off H; cbn [slots_ok] in H; try contradiction; [reflexivity|].
  destruct H as [Hs Hrest]. cbn [place map filter live_of flat_map]. fold (live_of ss).
  rewrite (IH ss _ Hrest). destruct s as [|p a].
  - destruct (entry_fields off e) as (_ & _ & Ht & _). cbn zeta in Ht.
    unfold lentry_of at 1. cbn [l_free]. change K.skipped_type with 1. rewrite Ht, Hs. reflexivity.
  - rewrite (entry_decodes _ _ _ _ _ _ _ Hs). reflexivity.
Qed.

(* ====================================================================== from the bytes of the key tables to the tree *)
Theorem key_tables_roundtrip f fo (Ts : list stable) F :
  Forall (stable_ok f fo) Ts -> NoDup (map st_idx Ts) ->
  Permutation (flat_map (fun T => live_of (st_slots T)) Ts) (flat_forest root_id F) ->
  NoDup (root_id :: flat_map aids F) -> forest_keys_unique F ->
  exists kts,
    Forall2 (fun T kt => parse_ktab (st_bytes T) (st_size T) = Ok kt) Ts kts /\
    exists t, link (tables_of f fo kts) = Ok t /\ tree_equiv t (Node (map erase F)).
Proof.
  intros Hok Hnd Hperm Hids Hkeys.
  set (kt_of := fun T => {| kt_index := st_idx T; kt_seq := st_seq T; kt_entries := place 10 (st_entries T) |}).
  exists (map kt_of Ts). split.
  - clear Hnd Hperm. induction Hok as [|T Ts HT _ IH]; cbn [map]; constructor; [|exact IH].
    destruct HT as (Hi & Hs & Hc & Hes & Hend & _). unfold st_bytes. now apply table_walk_roundtrip.
  - apply link_roundtrip; try assumption.
    + split.
      * unfold tables_of. rewrite !map_map. cbn [fst kt_index kt_of]. exact Hnd.
      * intros idx l e Hin Hel. unfold tables_of in Hin. rewrite map_map in Hin. apply in_map_iff in Hin.
        destruct Hin as (T & [= <- <-] & _). cbn [kt_index kt_entries kt_of] in Hel.
        apply in_map_iff in Hel. destruct Hel as (r & <- & _). reflexivity.
    + replace (live_entries (tables_of f fo (map kt_of Ts))) with (flat_map (fun T => live_of (st_slots T)) Ts);
        [exact Hperm|].
      clear Hnd Hperm. unfold live_entries, tables_of. induction Hok as [|T Ts HT _ IH]; [reflexivity|].
      cbn [map flat_map concat snd]. rewrite filter_app, <- IH. f_equal.
      destruct HT as (_ & _ & _ & _ & _ & Hsl). cbn [kt_of kt_index kt_entries]. symmetry. now apply table_decodes.
Qed.

(* a concrete stored key table meeting every hypothesis of [key_tables_roundtrip]:
   table 4 = [ "c" (node, root) ; "v" = -5 (child of "c") ], table full *)
Definition ex_file : file := {| fl_size := 0; fl_chunks := [] |}.
Definition ex_child : atree := AT (4, 45) [118] (PLeaf (VInt (-5))) [].
Definition ex_root : atree := AT (4, 10) [99] PNode [ex_child].
Definition ex_stable : stable :=
  {| st_idx := 4; st_seq := 7; st_ck := 0;
     st_entries := [ {| se_type := 9; se_pidx := 0; se_poff := 77; se_ck := 0; se_ins := 1; se_key := [99];
                        se_body := repeat 0 12 |};
                     {| se_type := 3 + 256 * 2; se_pidx := 4; se_poff := 10; se_ck := 5; se_ins := 2; se_key := [118];
                        se_body := enc_inline (VInt (-5)) |} ];
     st_tail := []; st_size := 76;
     st_slots := [SlotNode root_id ex_root; SlotNode (4, 10) ex_child] |}.

Lemma ex_key_tables :
  Forall (stable_ok ex_file []) [ex_stable] /\ NoDup (map st_idx [ex_stable]) /\
  Permutation (flat_map (fun T => live_of (st_slots T)) [ex_stable]) (flat_forest root_id [ex_root]) /\
  NoDup (root_id :: flat_map aids [ex_root]) /\ forest_keys_unique [ex_root].
Proof.
  split; [|split; [|split; [|split]]].
  - constructor; [|constructor]. unfold stable_ok. cbn [ex_stable st_idx st_seq st_ck st_entries st_tail st_size st_slots].
    split; [lia|]. split; [lia|]. split; [lia|]. split; [|split].
    + repeat constructor; cbn; lia.
    + left. split; reflexivity.
    + cbn [slots_ok]. split; [|split; [|exact I]].
      * unfold entry_stores. cbn. repeat split; reflexivity.
      * unfold entry_stores. split; [reflexivity|]. split; [reflexivity|]. split; [reflexivity|]. split; [reflexivity|].
        cbn [at_payload ex_child]. apply (st_int _ _ _ (-5) []).
        -- vm_compute. reflexivity.
        -- vm_compute. reflexivity.
        -- cbn. lia.
        -- vm_compute. reflexivity.
  - cbn. repeat constructor. intros [].
  - cbn. apply Permutation_refl.
  - cbn. repeat constructor; cbn; intuition discriminate.
  - cbn. repeat split; repeat constructor; cbn; intuition discriminate.
Qed.

(* ====================================================================== as_dict terminates on arbitrary entries *)
Lemma mapM_nofuel {A B} (g : A -> res B) l : (forall a, In a l -> g a <> Fuel) -> mapM g l <> Fuel.
Proof.
  induction l as [|a l IH]; intros H; cbn [mapM]; [discriminate|].
  pose proof (H a (or_introl eq_refl)) as Ha. destruct (g a); cbn [bind]; try congruence.
  specialize (IH (fun x Hx => H x (or_intror Hx))). destruct (mapM g l); cbn [bind]; congruence.
Qed.

Lemma dict_set_in {A} (d : list (list Z * A)) k v kv : In kv (dict_set d k v) -> snd kv = v \/ In kv d.
Proof.
  induction d as [|[k' v'] d IH]; cbn [dict_set].
  - intros [<-|[]]. now left.
  - destruct (list_eqb k' k); cbn [In].
    + intros [<-|H]; [now left|right; now right].
    + intros [<-|H]; [right; now left|]. destruct (IH H); [now left|right; now right].
Qed.

Lemma dict_of_in es kv : In kv (dict_of es) -> In (snd kv) es.
Proof.
  unfold dict_of. assert (H : forall d, In kv (fold_left (fun d e => dict_set d (l_key e) e) es d) ->
                                        In kv d \/ In (snd kv) es).
  { induction es as [|e es IH]; intros d; cbn [fold_left]; [now left|].
    intros Hin. destruct (IH _ Hin) as [Hd|He]; [|right; now right].
    destruct (dict_set_in _ _ _ _ Hd) as [->|Hd']; [right; now left|now left]. }
  intros Hin. destruct (H [] Hin) as [[]|He]. exact He.
Qed.

Section AsDictTerminates.
  Variable es : list lentry.
  Hypothesis Hids : NoDup (map l_id es).
  Hypothesis Hroot : ~ In root_id (map l_id es).
  Hypothesis Hval : forall e, In e es -> l_val e <> Fuel.

  Lemma id_inj x y : In x es -> In y es -> l_id x = l_id y -> x = y.
  Proof.
    clear Hroot Hval. induction es as [|a l IH]; intros Hx Hy Heq; [contradiction|].
    cbn [map] in Hids. inversion Hids as [|? ? Hn Hd]; subst.
    destruct Hx as [->|Hx], Hy as [->|Hy]; try reflexivity.
    - exfalso. apply Hn. rewrite Heq. now apply in_map.
    - exfalso. apply Hn. rewrite <- Heq. now apply in_map.
    - now apply IH.
  Qed.

  (* the call stack of as_dict: identities from the current node up to the root *)
  Inductive chain : list ident -> ident -> Prop :=
  | ch_root : chain [root_id] root_id
  | ch_step path p e : chain path p -> In e es -> l_par e = p -> ~ In (l_id e) path ->
                       chain (l_id e :: path) (l_id e).

  Lemma chain_shape path p : chain path p ->
    (exists t, path = p :: t) /\ NoDup path /\ incl path (root_id :: map l_id es).
  Proof.
    induction 1 as [|path p e _ (Hs & Hnd & Hinc) He Hp Hn].
    - split; [now exists []|]. split; [repeat constructor; intros []|]. intros x [<-|[]]. now left.
    - split; [now exists path|]. split; [now constructor|].
      intros x [<-|Hx]; [right; now apply in_map|auto].
  Qed.

  Lemma chain_par path p : chain path p -> forall x, In x es -> In (l_id x) path -> In (l_par x) (tl path).
  Proof.
    induction 1 as [|path p e Hc IH He Hp Hn]; intros x Hx Hin.
    - destruct Hin as [Heq|[]]. exfalso. apply Hroot. rewrite Heq. now apply in_map.
    - cbn [tl]. destruct Hin as [Heq|Hin].
      + rewrite <- (id_inj e x He Hx Heq), Hp. destruct (chain_shape _ _ Hc) as ((t & ->) & _). now left.
      + specialize (IH x Hx Hin). destruct path; [contradiction|]. now right.
  Qed.

  Lemma as_dict_nofuel fuel : forall path pid,
    chain path pid -> (length es + 2 <= fuel + length path)%nat -> as_dict fuel es pid <> Fuel.
  Proof.
    induction fuel as [|fuel IH]; intros path pid Hc Hlen.
    - exfalso. destruct (chain_shape _ _ Hc) as (_ & Hnd & Hinc).
      pose proof (NoDup_incl_length Hnd Hinc) as Hle. cbn [length] in Hle. rewrite map_length in Hle. lia.
    - rewrite as_dict_S. apply mapM_nofuel. intros [k e] Hin.
      apply dict_of_in in Hin. cbn [snd] in Hin. unfold kidsf in Hin. apply filter_In in Hin.
      destruct Hin as [He Hp]. apply id_eqb_eq in Hp. cbn [conv].
      destruct (l_isnode e).
      + assert (Hn : ~ In (l_id e) path).
        { intros Hin. pose proof (chain_par _ _ Hc e He Hin) as Ht.
          destruct (chain_shape _ _ Hc) as ((t & Hpath) & Hnd & _). rewrite Hpath in Ht, Hnd. cbn [tl] in Ht.
          rewrite Hp in Ht. inversion Hnd as [|? ? Hnot _]. contradiction. }
        pose proof (IH (l_id e :: path) (l_id e) (ch_step _ _ _ Hc He Hp Hn) ltac:(cbn [length]; lia)) as Hr.
        destruct (as_dict fuel es (l_id e)); cbn [bind]; congruence.
      + pose proof (Hval e He). destruct (l_val e); cbn [bind]; congruence.
  Qed.

  Theorem as_dict_terminates : as_dict (S (length es)) es root_id <> Fuel.
  Proof. apply (as_dict_nofuel _ [root_id] root_id ch_root). cbn [length]. lia. Qed.
End AsDictTerminates.

(* ====================================================================== decoding terminates on every file *)
Definition offsets_ok (kt : ktable) : Prop :=
  NoDup (map r_off (kt_entries kt)) /\ Forall (fun r => 10 <= r_off r) (kt_entries kt).

Lemma walk_offsets fuel : forall raw size eoff rs,
  bytes_ok raw -> 0 <= eoff -> walk fuel raw size eoff = Ok rs ->
  Forall (fun r => eoff <= r_off r) rs /\ NoDup (map r_off rs).
Proof.
  induction fuel as [|fuel IH]; intros raw size eoff rs Hb He; cbn [walk].
  - destruct (eoff <? size); [discriminate|]. intros [= <-]. split; constructor.
  - destruct (eoff <? size); [|intros [= <-]; split; constructor].
    rewrite zskipn_eq. destruct (parse_khdr (skipn (Z.to_nat eoff) raw)) as [h|] eqn:Hp; [|discriminate].
    destruct (parse_khdr_some _ _ Hp) as [_ Hnn]. specialize (Hnn (bytes_ok_skipn _ _ Hb)).
    destruct (Z.eqb_spec (kh_size h) 0); [intros [= <-]; split; constructor|].
    destruct (walk fuel raw size (eoff + kh_size h)) as [rest| |] eqn:Hw; cbn [bind]; try discriminate.
    intros [= <-]. destruct (IH raw size (eoff + kh_size h) rest Hb ltac:(lia) Hw) as [Hge Hnd]. split.
    + constructor; [cbn; lia|]. eapply Forall_impl; [|exact Hge]. cbn. intros; lia.
    + cbn [map r_off]. constructor; [|exact Hnd]. intros Hin. apply in_map_iff in Hin.
      destruct Hin as (r & Hr & Hin). rewrite Forall_forall in Hge. specialize (Hge r Hin). lia.
Qed.

Lemma parse_ktab_offsets raw size kt : bytes_ok raw -> parse_ktab raw size = Ok kt -> offsets_ok kt.
Proof.
  intros Hb. unfold parse_ktab.
  destruct (parse_fields ktab_widths raw) as [[|sig [|idx [|seq [|ck [|]]]]]|]; try discriminate.
  destruct (negb _); [discriminate|].
  destruct (walk (S (length raw)) raw size ktab_hsize) as [es| |] eqn:Hw; cbn [bind]; try discriminate.
  intros [= <-]. destruct (walk_offsets (S (length raw)) raw size ktab_hsize es Hb ltac:(change ktab_hsize with 10; lia) Hw) as [Hge Hnd].
  split; [exact Hnd|]. exact Hge.
Qed.

Lemma register_elems t reg il x :
  In il (register t reg) -> In x (snd il) -> x = t \/ exists il0, In il0 reg /\ In x (snd il0).
Proof.
  induction reg as [|[i l] reg IH]; cbn [register].
  - intros [<-|[]] [<-|[]]. now left.
  - destruct (i =? kt_index t).
    + intros [<-|Hin] Hx.
      * cbn [snd] in Hx. apply insert_seq_in in Hx. destruct Hx as [->|Hx]; [now left|].
        right. exists (i, l). split; [now left|exact Hx].
      * right. exists il. split; [now right|exact Hx].
    + intros [<-|Hin] Hx.
      * right. exists (i, l). split; [now left|exact Hx].
      * destruct (IH Hin Hx) as [->|(il0 & H0 & Hx0)]; [now left|]. right. exists il0. split; [now right|exact Hx0].
Qed.

Section WorklistTables.
  Variable ld_otab : Z -> res (list oentry).
  Variable ld_ktab : Z -> Z -> res ktable.
  Variable ld_rlog : Z -> res unit.
  Variable Q : ktable -> Prop.
  Hypothesis HQ : forall o s kt, ld_ktab o s = Ok kt -> Q kt.

  Definition kts_inv (st : state) : Prop :=
    NoDup (map fst (s_kts st)) /\ forall il x, In il (s_kts st) -> In x (snd il) -> Q x.

  Lemma proc_entry_kinv e st st' :
    kts_inv st -> proc_entry ld_otab ld_ktab ld_rlog e st = Ok st' -> kts_inv st'.
  Proof.
    intros Hinv. unfold proc_entry.
    destruct (o_alloc e =? 0); [intros [= <-]; exact Hinv|].
    destruct (o_type e =? E.hyperv_ObjectEntryType_ObjectTable).
    { destruct (zmem _ _); [intros [= <-]; exact Hinv|].
      destruct (ld_otab (o_off e)); cbn [bind]; try discriminate. intros [= <-]. exact Hinv. }
    destruct (o_type e =? E.hyperv_ObjectEntryType_KeyTable).
    { destruct (ld_ktab (o_off e) (o_size e)) as [kt| |] eqn:Hk; cbn [bind]; try discriminate.
      intros [= <-]. destruct Hinv as [Hnd Hq]. split; cbn [s_kts].
      - destruct (keys_register kt (s_kts st)) as [->|[Hn ->]]; [exact Hnd|].
        apply NoDup_rev in Hnd. rewrite <- (rev_involutive (map fst (s_kts st) ++ [kt_index kt])). apply NoDup_rev.
        rewrite rev_app_distr. cbn [rev app]. constructor; [|exact Hnd]. now rewrite <- in_rev.
      - intros il x Hil Hx. destruct (register_elems _ _ _ _ Hil Hx) as [->|(il0 & H0 & Hx0)]; [eapply HQ; eassumption|eauto]. }
    destruct (o_type e =? E.hyperv_ObjectEntryType_File); [intros [= <-]; exact Hinv|].
    destruct (o_type e =? E.hyperv_ObjectEntryType_ReplayLog); [|intros [= <-]; exact Hinv].
    destruct (ld_rlog (o_off e)); cbn [bind]; try discriminate. intros [= <-]. exact Hinv.
  Qed.

  Lemma proc_entries_kinv es : forall st st',
    kts_inv st -> proc_entries ld_otab ld_ktab ld_rlog es st = Ok st' -> kts_inv st'.
  Proof.
    induction es as [|e es IH]; intros st st' Hinv; cbn [proc_entries]; [intros [= <-]; exact Hinv|].
    destruct (proc_entry ld_otab ld_ktab ld_rlog e st) as [st1| |] eqn:H1; cbn [bind]; try discriminate.
    apply IH. eapply proc_entry_kinv; eassumption.
  Qed.

  Lemma steps_kinv n : forall st st',
    kts_inv st -> wl_steps ld_otab ld_ktab ld_rlog n st = WDone st' -> kts_inv st'.
  Proof.
    induction n as [|n IH]; intros st st' Hinv; cbn [wl_steps]; [discriminate|].
    unfold wl_step. destruct (s_pending st) as [|t rest] eqn:Hp; [intros [= <-]; exact Hinv|].
    destruct (proc_entries ld_otab ld_ktab ld_rlog t _) as [st1| |] eqn:Hpe; try discriminate.
    apply IH. eapply proc_entries_kinv; [|exact Hpe]. exact Hinv.
  Qed.

  Lemma run_worklist_kinv k start st :
    run_worklist ld_otab ld_ktab ld_rlog k start = Ok st -> kts_inv st.
  Proof.
    unfold run_worklist. destruct (ld_otab start) as [t0| |]; cbn [bind]; try discriminate.
    rewrite iter_steps. destruct (wl_steps _ _ _ _ _) as [d| | |] eqn:Hs; try discriminate.
    intros [= <-]. eapply steps_kinv; [|exact Hs]. split; cbn [init_state s_kts]; [constructor|intros il x []].
  Qed.
End WorklistTables.

Lemma e_value_nofuel f fo r : e_value f fo r <> Fuel.
Proof.
  unfold e_value. destruct (e_data f fo r) as [d| |] eqn:Hd; cbn [bind]; [|discriminate|].
  - destruct (assoc_z K.value_formats (e_typ r)) as [[fmt n]|].
    + unfold take_uint. destruct (_ <? _); cbn [bind]; [discriminate|].
      repeat (destruct (_ =? _); [discriminate|]). discriminate.
    + destruct (zmem _ _); [|discriminate].
      destruct (e_is_fop r); cbn [bind].
      * destruct (_ =? _); [|discriminate]. destruct (units_of d); [|discriminate]. destruct (utf16_valid _); discriminate.
      * unfold take_uint. destruct (_ <? _); cbn [bind]; [discriminate|].
        destruct (_ =? _); [|discriminate]. destruct (units_of _); [|discriminate]. destruct (utf16_valid _); discriminate.
  - exfalso. unfold e_data in Hd. destruct (e_is_fop r); [|discriminate].
    destruct (fop_of _) as [[o s]|]; [|discriminate]. destruct (assoc_z fo o); discriminate.
Qed.

Lemma NoDup_map_filter {A B} (g : A -> B) (p : A -> bool) l : NoDup (map g l) -> NoDup (map g (filter p l)).
Proof.
  induction l as [|a l IH]; intros H; [constructor|]. cbn [map] in H. inversion H as [|? ? Hn Hd]; subst.
  cbn [filter]. destruct (p a); [|auto]. cbn [map]. constructor; [|auto].
  intros Hin. apply Hn. apply in_map_iff in Hin. destruct Hin as (x & Hx & Hin). apply filter_In in Hin.
  rewrite <- Hx. apply in_map. tauto.
Qed.

Lemma NoDup_app_intro {A} (l l' : list A) :
  NoDup l -> NoDup l' -> (forall x, In x l -> In x l' -> False) -> NoDup (l ++ l').
Proof.
  induction l as [|a l IH]; intros H1 H2 H3; [exact H2|]. inversion H1 as [|? ? Hn Hd]; subst.
  cbn [app]. constructor.
  - intros Hin. apply in_app_or in Hin. destruct Hin as [Hin|Hin]; [contradiction|]. apply (H3 a); [now left|exact Hin].
  - apply IH; [exact Hd|exact H2|]. intros x Hx. apply H3. now right.
Qed.

(* the identities of the entries of the active tables are pairwise different and none is the root *)
Lemma active_ids f fo (kts : list (Z * list ktable)) :
  NoDup (map fst kts) -> (forall il x, In il kts -> In x (snd il) -> offsets_ok x) ->
  let ts := flat_map (fun il : Z * list ktable =>
                        match snd il with [] => [] | t :: _ => [(fst il, map (lentry_of f fo (fst il)) (kt_entries t))] end) kts in
  NoDup (map l_id (concat (map snd ts))) /\ ~ In root_id (map l_id (concat (map snd ts))).
Proof.
  cbn zeta. induction kts as [|[i l] kts IH]; intros Hnd Hq; [split; [constructor|intros []]|].
  cbn [map fst] in Hnd. inversion Hnd as [|? ? Hni Hnd']; subst.
  destruct (IH Hnd' (fun il x Hil => Hq il x (or_intror Hil))) as [IH1 IH2].
  cbn [flat_map fst snd]. destruct l as [|t l]; [split; assumption|].
  cbn [app map concat snd]. rewrite map_app, map_map. cbn [lentry_of l_id].
  destruct (Hq (i, t :: l) t (or_introl eq_refl) (or_introl eq_refl)) as [Hoff Hge].
  assert (Hfst : forall p, In p (map l_id (concat (map snd (flat_map (fun il : Z * list ktable =>
                        match snd il with [] => [] | t0 :: _ => [(fst il, map (lentry_of f fo (fst il)) (kt_entries t0))] end) kts)))) ->
                    In (fst p) (map fst kts)).
  { clear. induction kts as [|[j m] kts IHk]; cbn [flat_map]; [intros p []|].
    intros p. cbn [fst snd]. destruct m as [|t0 m]; cbn [app map concat snd fst]; [intros H; right; auto|].
    rewrite map_app, map_map. cbn [lentry_of l_id]. intros H. apply in_app_or in H. destruct H as [H|H]; [|right; auto].
    apply in_map_iff in H. destruct H as (r & <- & _). now left. }
  split.
  - apply NoDup_app_intro; [| exact IH1 |].
    + clear - Hoff. induction (kt_entries t) as [|r rs IHr]; [constructor|].
      cbn [map r_off] in *. inversion Hoff as [|? ? Hn Hd]; subst. constructor; [|auto].
      intros Hin. apply Hn. apply in_map_iff in Hin. destruct Hin as (r' & [= Heq] & Hin'). rewrite <- Heq. now apply in_map.
    + intros p Hp1 Hp2. apply in_map_iff in Hp1. destruct Hp1 as (r & <- & _).
      apply Hni. apply (Hfst _ Hp2).
  - intros Hin. apply in_app_or in Hin. destruct Hin as [Hin|Hin]; [|contradiction].
    apply in_map_iff in Hin. destruct Hin as (r & [= _ Hr] & Hin). rewrite Forall_forall in Hge. specialize (Hge r Hin). lia.
Qed.

(* HyperVFile(fh) followed by as_dict() (repaired code) terminates on every file: the model never
   runs out of fuel, whatever the bytes *)
Theorem decoding_terminates f :
  file_ok f -> open_file f <> Fuel /\ forall p, open_file f = Ok p -> link (p_tables p) <> Fuel.
Proof.
  intros Hf. split; [now apply open_file_terminates|].
  intros p. unfold open_file.
  destruct (parse_fhdr (fread f C.hyperv_FIRST_HEADER_OFFSET fhdr_size)); cbn [of_option bind]; [|discriminate].
  destruct (parse_fhdr (fread f C.hyperv_SECOND_HEADER_OFFSET fhdr_size)); cbn [of_option bind]; [|discriminate].
  destruct (negb _); [discriminate|]. destruct (negb _); [discriminate|].
  destruct (load_rlog f _); cbn [bind]; try discriminate.
  destruct (run_worklist (load_otab f) (load_ktab f) (load_rlog f) (file_fuel f) C.hyperv_OBJECT_TABLE_OFFSET)
    as [st| |] eqn:Hrun; cbn [bind]; try discriminate.
  intros [= <-]. cbn [p_tables].
  assert (Hinv : kts_inv offsets_ok st).
  { eapply run_worklist_kinv; [|exact Hrun]. intros o s kt Hk. unfold load_ktab in Hk.
    eapply parse_ktab_offsets; [|exact Hk]. apply fread_ok, Hf. }
  destruct Hinv as [Hnd Hq].
  destruct (active_ids f (s_fobjs st) (s_kts st) Hnd Hq) as [Hids Hroot]. fold (active_tables f st) in Hids, Hroot.
  unfold link. destruct (forallb _ _); [|discriminate].
  set (es := live_entries (active_tables f st)).
  assert (Hterm : as_dict (S (length es)) es root_id <> Fuel).
  { apply as_dict_terminates.
    - apply NoDup_map_filter, Hids.
    - intros Hin. apply Hroot. apply in_map_iff in Hin. destruct Hin as (e & He & Hin).
      apply filter_In in Hin. rewrite <- He. apply in_map. tauto.
    - intros e He. unfold es, live_entries in He. apply filter_In in He. destruct He as [He _].
      apply in_concat in He. destruct He as (l & Hl & Hel). apply in_map_iff in Hl. destruct Hl as ([i l'] & Heq & Hts).
      cbn [snd] in Heq. subst l'. unfold active_tables in Hts. apply in_flat_map in Hts. destruct Hts as ([j m] & _ & Hjm).
      cbn [fst snd] in Hjm. destruct m as [|t m]; [contradiction|]. destruct Hjm as [[= <- <-]|[]].
      apply in_map_iff in Hel. destruct Hel as (r & <- & _). cbn [lentry_of l_val]. apply e_value_nofuel. }
  destruct (as_dict (S (length es)) es root_id); cbn [bind]; congruence.
Qed.

(* ====================================================================== all key tables, competing ones included, to the tree *)
Lemma active_tables_eq f st : active_tables f st = active_of f (s_fobjs st) (s_kts st).
Proof. reflexivity. Qed.

Lemma registry_inv ts : reg_inv (registry ts) ts.
Proof.
  assert (Hgen : forall ts reg seen, reg_inv reg seen ->
            reg_inv (fold_left (fun reg t => register t reg) ts reg) (seen ++ ts)).
  { induction ts0 as [|t ts0 IH]; intros reg seen Hinv; [now rewrite app_nil_r|].
    cbn [fold_left]. replace (seen ++ t :: ts0) with ((seen ++ [t]) ++ ts0) by (rewrite <- app_assoc; reflexivity).
    apply IH, register_inv, Hinv. }
  assert (H0 : reg_inv [] []) by (split; [constructor|intros i x []]).
  exact (Hgen ts [] [] H0).
Qed.

Lemma assoc_z_in {A} (l : list (Z * A)) k v : assoc_z l k = Some v -> In (k, v) l.
Proof.
  induction l as [|[k' v'] l IH]; cbn [assoc_z]; [discriminate|].
  destruct (Z.eqb_spec k' k) as [->|]; [intros [= ->]; now left|intros H; right; auto].
Qed.

Lemma find_idx Ts T : NoDup (map st_idx Ts) -> In T Ts -> find (fun T' => st_idx T' =? st_idx T) Ts = Some T.
Proof.
  induction Ts as [|a Ts IH]; intros Hnd Hin; [contradiction|]. cbn [map] in Hnd. inversion Hnd as [|? ? Hn Hd]; subst.
  cbn [find]. destruct Hin as [->|Hin]; [now rewrite Z.eqb_refl|].
  destruct (Z.eqb_spec (st_idx a) (st_idx T)) as [He|]; [|auto].
  exfalso. apply Hn. rewrite He. now apply in_map.
Qed.

Lemma live_entries_cons il ts :
  live_entries (il :: ts) = filter (fun e => negb (l_free e)) (snd il) ++ live_entries ts.
Proof. unfold live_entries. cbn [map concat]. apply filter_app. Qed.

Lemma live_entries_app a b : live_entries (a ++ b) = live_entries a ++ live_entries b.
Proof. unfold live_entries. now rewrite map_app, concat_app, filter_app. Qed.

Theorem registry_roundtrip f fo (All : list ktable) (Ts : list stable) F :
  Forall (stable_ok f fo) Ts -> NoDup (map st_idx Ts) ->
  (forall T, In T Ts -> In (kt_of T) All) ->
  (forall kt, In kt All -> exists T, In T Ts /\ st_idx T = kt_index kt /\ (kt = kt_of T \/ kt_seq kt < st_seq T)) ->
  Permutation (flat_map (fun T => live_of (st_slots T)) Ts) (flat_forest root_id F) ->
  NoDup (root_id :: flat_map aids F) -> forest_keys_unique F ->
  exists t, link (active_of f fo (registry All)) = Ok t /\ tree_equiv t (Node (map erase F)).
Proof.
  intros Hok Hnd Hact Hall Hperm Hids Hkeys.
  destruct (registry_inv All) as [Hkeysnd Hget].
  (* the head of every registry list is the stored active table of that index *)
  assert (Hhead : forall idx l, In (idx, l) (registry All) ->
            exists T r, In T Ts /\ st_idx T = idx /\ l = kt_of T :: r).
  { intros idx l Hin. destruct (active_key_table All idx l Hin) as (h & r & -> & Hh & Hi & Hmax).
    destruct (Hall h Hh) as (T & HT & HTi & Hcase). exists T, r. split; [exact HT|]. split; [congruence|].
    destruct Hcase as [->|Hlt]; [reflexivity|]. exfalso.
    specialize (Hmax (kt_of T) (Hact T HT) ltac:(cbn [kt_of kt_index]; congruence)). cbn [kt_of kt_seq] in Hmax. lia. }
  set (pick := fun il : Z * list ktable =>
                 match find (fun T => st_idx T =? fst il) Ts with Some T => [T] | None => [] end).
  (* Claim A *)
  assert (HA : forall reg, incl reg (registry All) ->
            live_entries (active_of f fo reg) = flat_map (fun T => live_of (st_slots T)) (flat_map pick reg) /\
            map st_idx (flat_map pick reg) = map fst reg).
  { induction reg as [|[idx l] reg IH]; intros Hinc; [split; reflexivity|].
    destruct (IH (fun x Hx => Hinc x (or_intror Hx))) as [IH1 IH2].
    destruct (Hhead idx l (Hinc _ (or_introl eq_refl))) as (T & r & HT & <- & ->).
    cbn [flat_map active_of]. fold (active_of f fo reg). cbn [snd fst].
    unfold pick at 1. cbn [fst]. unfold pick at 2. cbn [fst]. rewrite (find_idx Ts T Hnd HT). fold pick.
    cbn [app]. rewrite live_entries_cons, IH1. split.
    - cbn [flat_map snd]. f_equal. cbn [kt_of kt_entries].
      rewrite Forall_forall in Hok. destruct (Hok T HT) as (_ & _ & _ & _ & _ & Hsl). now apply table_decodes.
    - cbn [map fst]. now rewrite IH2. }
  destruct (HA (registry All) (incl_refl _)) as [HA1 HA2].
  (* Claim B *)
  assert (HB : Permutation (flat_map pick (registry All)) Ts).
  { apply NoDup_Permutation.
    - apply (NoDup_map_inv st_idx). rewrite HA2. exact Hkeysnd.
    - apply (NoDup_map_inv st_idx). exact Hnd.
    - intros T. split.
      + intros Hin. apply in_flat_map in Hin. destruct Hin as (il & _ & Hp). unfold pick in Hp.
        destruct (find _ Ts) as [T'|] eqn:Hf; [|contradiction]. destruct Hp as [<-|[]]. apply find_some in Hf. tauto.
      + intros HT. specialize (Hget (st_idx T)).
        destruct (assoc_z (registry All) (st_idx T)) as [l|] eqn:Ha.
        * apply in_flat_map. exists (st_idx T, l). split; [now apply assoc_z_in|].
          unfold pick. cbn [fst]. rewrite (find_idx Ts T Hnd HT). now left.
        * exfalso. apply (Hget (kt_of T) (Hact T HT)). reflexivity. }
  apply link_roundtrip; try assumption.
  - split.
    + clear - Hkeysnd. induction (registry All) as [|[i l] reg IH]; [constructor|].
      cbn [map fst] in Hkeysnd. inversion Hkeysnd as [|? ? Hn Hd]; subst.
      cbn [active_of flat_map snd fst]. fold (active_of f fo reg). destruct l as [|t l]; [auto|].
      cbn [app map fst]. constructor; [|auto]. intros Hin. apply Hn.
      clear - Hin. induction reg as [|[j m] reg IHr]; [contradiction|]. cbn [active_of flat_map snd fst] in Hin.
      fold (active_of f fo reg) in Hin. destruct m; cbn [app map fst In] in *; [right; auto|].
      destruct Hin as [<-|Hin]; [now left|right; auto].
    + intros idx l e Hin Hel. unfold active_of in Hin. apply in_flat_map in Hin. destruct Hin as ([j m] & _ & Hjm).
      cbn [snd fst] in Hjm. destruct m as [|t m]; [contradiction|]. destruct Hjm as [[= <- <-]|[]].
      apply in_map_iff in Hel. destruct Hel as (r & <- & _). reflexivity.
  - rewrite HA1. eapply perm_trans; [|exact Hperm]. apply Permutation_flat_map, HB.
Qed.

(* ====================================================================== whole files with one object table *)
Section Simple.
  Variable f : file.
  Let pes := proc_entries (load_otab f) (load_ktab f) (load_rlog f).

  Lemma proc_entries_simple oes : forall st kts,
    (forall e, In e oes -> o_alloc e <> 0 -> o_type e <> 1 /\ (o_type e = 6 -> load_rlog f (o_off e) = Ok tt)) ->
    Forall2 (fun e kt => load_ktab f (o_off e) (o_size e) = Ok kt) (filter is_ktab oes) kts ->
    pes oes st = Ok {| s_kts := fold_left (fun r t => register t r) kts (s_kts st);
                       s_fobjs := rev (map (fun e => (o_off e, o_size e)) (filter is_fobj oes)) ++ s_fobjs st;
                       s_visited := s_visited st; s_pending := s_pending st |}.
  Proof.
    induction oes as [|e oes IH]; intros st kts Hno Hk.
    - cbn [filter] in Hk. inversion Hk; subst. cbn. destruct st; reflexivity.
    - cbn [pes proc_entries]. fold pes.
      assert (Hno' : forall e0, In e0 oes -> o_alloc e0 <> 0 ->
                o_type e0 <> 1 /\ (o_type e0 = 6 -> load_rlog f (o_off e0) = Ok tt)) by (intros; apply Hno; [now right|assumption]).
      unfold proc_entry. cbn [filter] in *.
      assert (Hik : is_ktab e = negb (o_alloc e =? 0) && (o_type e =? 2)) by reflexivity.
      assert (Hif : is_fobj e = negb (o_alloc e =? 0) && (o_type e =? 3)) by reflexivity.
      rewrite Hik in Hk. rewrite Hif. clear Hik Hif.
      change E.hyperv_ObjectEntryType_ObjectTable with 1. change E.hyperv_ObjectEntryType_KeyTable with 2.
      change E.hyperv_ObjectEntryType_File with 3. change E.hyperv_ObjectEntryType_ReplayLog with 6.
      destruct (Z.eqb_spec (o_alloc e) 0) as [Ha|Ha]; cbn [negb andb] in *.
      { cbn [bind]. apply IH; assumption. }
      destruct (Hno e (or_introl eq_refl) Ha) as [Hn1 Hr].
      destruct (Z.eqb_spec (o_type e) 1); [contradiction|].
      destruct (Z.eqb_spec (o_type e) 2) as [H2|H2].
      { inversion Hk as [|? kt ? kts' Hld Hk']; subst. rewrite Hld. cbn [bind].
        destruct (Z.eqb_spec (o_type e) 3); [lia|]. rewrite (IH _ kts' Hno' Hk'). reflexivity. }
      destruct (Z.eqb_spec (o_type e) 3) as [H3|H3].
      { cbn [bind]. rewrite (IH _ kts Hno' Hk). cbn [s_kts s_fobjs s_visited s_pending map rev].
        rewrite <- app_assoc. reflexivity. }
      destruct (Z.eqb_spec (o_type e) 6) as [H6|H6].
      { rewrite (Hr H6). cbn [bind]. apply IH; assumption. }
      cbn [bind]. apply IH; assumption.
  Qed.

  Lemma iter_two k st st1 :
    wl_step (load_otab f) (load_ktab f) (load_rlog f) st = WMore st1 -> s_pending st1 = [] ->
    wl_iter (load_otab f) (load_ktab f) (load_rlog f) (S k) st = WDone st1.
  Proof.
    intros H1 H2. rewrite iter_steps.
    assert (Hp : exists n, (2 ^ S k = S (S n))%nat).
    { exists (2 * 2 ^ k - 2)%nat. rewrite Nat.pow_succ_r'. pose proof (Nat.pow_nonzero 2 k ltac:(lia)). lia. }
    destruct Hp as (n & ->). cbn [wl_steps]. rewrite H1. unfold wl_step at 1. rewrite H2. reflexivity.
  Qed.

  (* a whole file: two headers, a replay log, ONE object table (as in both real samples) listing key
     tables (competing ones included), file objects, replay logs and anything ignored, in any order *)
  Theorem simple_file_roundtrip h1 h2 oes (All : list ktable) (Ts : list stable) F :
    parse_fhdr (fread f 0 46) = Some h1 -> parse_fhdr (fread f 4096 46) = Some h2 ->
    h_sig (active_header h1 h2) = 19406868 -> h_ver (active_header h1 h2) = 1024 ->
    load_rlog f (h_rlo (active_header h1 h2)) = Ok tt ->
    load_otab f 8192 = Ok oes ->
    (forall e, In e oes -> o_alloc e <> 0 -> o_type e <> 1 /\ (o_type e = 6 -> load_rlog f (o_off e) = Ok tt)) ->
    Forall2 (fun e kt => load_ktab f (o_off e) (o_size e) = Ok kt) (filter is_ktab oes) All ->
    Forall (stable_ok f (fobjs_of oes)) Ts -> NoDup (map st_idx Ts) ->
    (forall T, In T Ts -> In (kt_of T) All) ->
    (forall kt, In kt All -> exists T, In T Ts /\ st_idx T = kt_index kt /\ (kt = kt_of T \/ kt_seq kt < st_seq T)) ->
    Permutation (flat_map (fun T => live_of (st_slots T)) Ts) (flat_forest root_id F) ->
    NoDup (root_id :: flat_map aids F) -> forest_keys_unique F ->
    exists p t, open_file f = Ok p /\ p_first p = (h_seq h1 >? h_seq h2) /\ p_ntables p = 1 /\
                link (p_tables p) = Ok t /\ tree_equiv t (Node (map erase F)).
  Proof.
    intros Hh1 Hh2 Hsig Hver Hrl Hot Hno Hk Hok Hnd Hact Hall Hperm Hids Hkeys.
    destruct (registry_roundtrip f (fobjs_of oes) All Ts F Hok Hnd Hact Hall Hperm Hids Hkeys) as (t & Hlink & Heq).
    set (st1 := {| s_kts := registry All; s_fobjs := fobjs_of oes; s_visited := [8192]; s_pending := [] |}).
    assert (Hrun : run_worklist (load_otab f) (load_ktab f) (load_rlog f) (file_fuel f) C.hyperv_OBJECT_TABLE_OFFSET = Ok st1).
    { unfold run_worklist. change C.hyperv_OBJECT_TABLE_OFFSET with 8192. rewrite Hot. cbn [bind].
      unfold file_fuel. rewrite (iter_two _ _ st1); [reflexivity| |reflexivity].
      unfold wl_step, init_state. cbn [s_pending s_kts s_fobjs s_visited].
      pose proof (proc_entries_simple oes {| s_kts := []; s_fobjs := []; s_visited := [8192]; s_pending := [] |} All Hno Hk) as Hp.
      unfold pes in Hp. rewrite Hp. cbn [s_kts s_fobjs s_visited s_pending]. rewrite app_nil_r. reflexivity. }
    eexists. exists t. unfold open_file.
    change C.hyperv_FIRST_HEADER_OFFSET with 0. change C.hyperv_SECOND_HEADER_OFFSET with 4096. change fhdr_size with 46.
    rewrite Hh1, Hh2. cbn [of_option bind]. rewrite Hsig, Hver.
    change (19406868 =? C.hyperv_SIGNATURE_STORAGE_HEADER) with true. change (1024 =? K.supported_version) with true.
    cbn [negb]. rewrite Hrl. cbn [bind]. rewrite Hrun. cbn [bind].
    split; [reflexivity|]. cbn [p_first p_ntables p_tables]. split; [reflexivity|]. split; [reflexivity|].
    split; [|exact Heq]. rewrite active_tables_eq. exact Hlink.
  Qed.
End Simple.

(* a concrete whole file meeting every hypothesis of [simple_file_roundtrip]:
   header 1 (sequence 5) valid, header 2 zeros, replay log at 200, object table at 0x2000 with an
   unallocated entry, an ignored allocated Free entry and the key table [ex_stable] at 8300 *)
Definition ex_whole : file :=
  {| fl_size := 9000;
     fl_chunks :=
       [(0, enc_fields W_fhdr [19406868; 0; 5; 1024; 0; 4096; 200; 4096; 4096]);
        (200, enc_fields W_rlog [17891331; 0; 0; 0; 145; 0; 0; 0; 0; 0]);
        (8192, enc_fields W_otab [17891329; 3]
               ++ enc_fields W_oent [1; 0; 8192; 64; 0]
               ++ enc_fields W_oent [4; 0; 12288; 4096; 1]
               ++ enc_fields W_oent [2; 0; 8300; 76; 1]);
        (8300, st_bytes ex_stable)] |}.

Definition ex_oes : list oentry :=
  [ {| o_type := 1; o_off := 8192; o_size := 64; o_alloc := 0 |};
    {| o_type := 4; o_off := 12288; o_size := 4096; o_alloc := 1 |};
    {| o_type := 2; o_off := 8300; o_size := 76; o_alloc := 1 |} ].

Definition ex_h1 : fhdr :=
  {| h_sig := 19406868; h_seq := 5; h_ver := 1024; h_align := 4096; h_rlo := 200; h_rls := 4096; h_hsize := 4096 |}.
Definition ex_h2 : fhdr :=
  {| h_sig := 0; h_seq := 0; h_ver := 0; h_align := 0; h_rlo := 0; h_rls := 0; h_hsize := 0 |}.

Lemma ex_stable_ok f fo : Forall (stable_ok f fo) [ex_stable].
Proof.
  constructor; [|constructor]. unfold stable_ok. cbn [ex_stable st_idx st_seq st_ck st_entries st_tail st_size st_slots].
  split; [lia|]. split; [lia|]. split; [lia|]. split; [|split].
  - repeat constructor; cbn; lia.
  - left. split; reflexivity.
  - cbn [slots_ok]. split; [|split; [|exact I]].
    + unfold entry_stores. cbn. repeat split; reflexivity.
    + unfold entry_stores. split; [reflexivity|]. split; [reflexivity|]. split; [reflexivity|]. split; [reflexivity|].
      cbn [at_payload ex_child]. apply (st_int _ _ _ (-5) []).
      * vm_compute. reflexivity.
      * vm_compute. reflexivity.
      * cbn. lia.
      * vm_compute. reflexivity.
Qed.

Lemma ex_whole_file :
  parse_fhdr (fread ex_whole 0 46) = Some ex_h1 /\ parse_fhdr (fread ex_whole 4096 46) = Some ex_h2 /\
  h_sig (active_header ex_h1 ex_h2) = 19406868 /\ h_ver (active_header ex_h1 ex_h2) = 1024 /\
  load_rlog ex_whole (h_rlo (active_header ex_h1 ex_h2)) = Ok tt /\
  load_otab ex_whole 8192 = Ok ex_oes /\
  (forall e, In e ex_oes -> o_alloc e <> 0 ->
             o_type e <> 1 /\ (o_type e = 6 -> load_rlog ex_whole (o_off e) = Ok tt)) /\
  Forall2 (fun e kt => load_ktab ex_whole (o_off e) (o_size e) = Ok kt) (filter is_ktab ex_oes) [kt_of ex_stable] /\
  Forall (stable_ok ex_whole (fobjs_of ex_oes)) [ex_stable] /\
  (forall T, In T [ex_stable] -> In (kt_of T) [kt_of ex_stable]) /\
  (forall kt, In kt [kt_of ex_stable] ->
     exists T, In T [ex_stable] /\ st_idx T = kt_index kt /\ (kt = kt_of T \/ kt_seq kt < st_seq T)) /\
  (exists p, open_file ex_whole = Ok p /\
             link (p_tables p) = Ok (Node [([99], Node [([118], Leaf (VInt (-5)))])])).
Proof.
  split; [vm_compute; reflexivity|]. split; [vm_compute; reflexivity|].
  split; [reflexivity|]. split; [reflexivity|]. split; [vm_compute; reflexivity|]. split; [vm_compute; reflexivity|].
  split.
  { intros e [<-|[<-|[<-|[]]]]; cbn; intros Ha; split; try lia; try discriminate. }
  split; [cbn [filter ex_oes is_ktab o_alloc o_type]; cbn; constructor; [vm_compute; reflexivity|constructor]|].
  split; [apply ex_stable_ok|].
  split; [intros T [<-|[]]; now left|].
  split; [intros kt [<-|[]]; exists ex_stable; split; [now left|split; [reflexivity|now left]]|].
  eexists. split; vm_compute; reflexivity.
Qed.
