(* Proofs/VmTar.v — the vmtar reader model inverts the vmtar writer of Spec/VmTar.v,
   terminates on every byte string, and is the standard reader when no visor magic occurs. *)
From Coq Require Import ZArith List Bool Lia.
From DH Require Import Base.Layout Spec.VmTar Model.VmTar.
From DH Require Gen.VmTar.
Import ListNotations.
Open Scope Z_scope.

(* ------------------------------------------------------------------ lists and slices *)
Lemma blen_zlen l : blen l = zlen l.
Proof. reflexivity. Qed.

Lemma zlen_app (a b : list Z) : zlen (a ++ b) = zlen a + zlen b.
Proof. unfold zlen. rewrite app_length. lia. Qed.

Lemma zlen_nonneg (a : list Z) : 0 <= zlen a.
Proof. unfold zlen. lia. Qed.

Lemma zlen_repeat (b : Z) n : zlen (repeat b n) = Z.of_nat n.
Proof. unfold zlen. now rewrite repeat_length. Qed.

Lemma slice_app_exact (pre mid post : list Z) :
  slice (pre ++ mid ++ post) (zlen pre) (zlen mid) = mid.
Proof.
  unfold slice, zlen. rewrite !Nat2Z.id.
  rewrite skipn_app, skipn_all, Nat.sub_diag. cbn [app skipn].
  rewrite firstn_app, firstn_all, Nat.sub_diag. cbn [firstn]. apply app_nil_r.
Qed.

Lemma slice_app_skip (pre l : list Z) off n :
  zlen pre <= off -> slice (pre ++ l) off n = slice l (off - zlen pre) n.
Proof.
  intros H. unfold slice, zlen in *. f_equal.
  rewrite skipn_app.
  rewrite skipn_all2 by lia. cbn [app]. f_equal. lia.
Qed.

Lemma slice_firstn (l : list Z) off n n' :
  0 <= n' <= n -> slice l off n' = firstn (Z.to_nat n') (slice l off n).
Proof.
  intros H. unfold slice. rewrite firstn_firstn, Nat.min_l by lia. reflexivity.
Qed.

Lemma slice_full_length (l : list Z) off n :
  0 < n -> zlen (slice l off n) = n -> off + n <= zlen l.
Proof.
  unfold slice, zlen. rewrite firstn_length, skipn_length. lia.
Qed.

Definition zsumz (l : list Z) : Z := fold_right Z.add 0 l.

Inductive lens_of : list (list Z) -> list Z -> Prop :=
| lens_nil : lens_of [] []
| lens_cons f fs n ns : zlen f = n -> lens_of fs ns -> lens_of (f :: fs) (n :: ns).

Lemma lens_firstn fs ns i : lens_of fs ns -> lens_of (firstn i fs) (firstn i ns).
Proof.
  intros H. revert i. induction H as [|f fs n ns Hf H IH]; intros [|i]; cbn [firstn]; try constructor; auto.
Qed.

Lemma lens_skipn fs ns i : lens_of fs ns -> lens_of (skipn i fs) (skipn i ns).
Proof.
  intros H. revert i. induction H as [|f fs n ns Hf H IH]; intros [|i]; cbn [skipn]; try constructor; auto.
Qed.

Lemma lens_concat fs ns : lens_of fs ns -> zlen (concat fs) = zsumz ns.
Proof.
  induction 1 as [|f fs n ns Hf H IH]; [reflexivity|].
  cbn [concat zsumz fold_right]. rewrite zlen_app. unfold zsumz in IH. lia.
Qed.

(* the bytes of fields i .. i+j-1 of a concatenation of fields of known lengths *)
Lemma slice_fields fs ns i j :
  lens_of fs ns ->
  slice (concat fs) (zsumz (firstn i ns)) (zsumz (firstn j (skipn i ns))) = concat (firstn j (skipn i fs)).
Proof.
  intros H.
  rewrite <- (firstn_skipn i fs) at 1. rewrite concat_app.
  rewrite <- (firstn_skipn j (skipn i fs)) at 1. rewrite concat_app.
  rewrite <- (lens_concat _ _ (lens_firstn _ _ i H)).
  rewrite <- (lens_concat _ _ (lens_firstn _ _ j (lens_skipn _ _ i H))).
  apply slice_app_exact.
Qed.

(* ------------------------------------------------------------------ bytes *)
Definition bytes_in (l : list Z) : Prop := Forall (fun b => 0 <= b < 256) l.

Lemma bytes_okb_in l : bytes_okb l = true -> bytes_in l.
Proof.
  unfold bytes_okb, bytes_in. rewrite forallb_forall, Forall_forall.
  intros H b Hb. specialize (H b Hb). lia.
Qed.

Lemma bytes_in_app a b : bytes_in a -> bytes_in b -> bytes_in (a ++ b).
Proof. unfold bytes_in. intros. apply Forall_app. split; assumption. Qed.

Lemma bytes_in_repeat0 n : bytes_in (repeat 0 n).
Proof. unfold bytes_in. induction n; cbn [repeat]; constructor; [lia|assumption]. Qed.

Lemma bytes_in_sum l : bytes_in l -> 0 <= zsumz l <= 255 * zlen l.
Proof.
  induction 1 as [|b l Hb H IH]; cbn [zsumz fold_right]; unfold zlen in *; cbn [length].
  - lia.
  - unfold zsumz in IH. lia.
Qed.

(* ------------------------------------------------------------------ nts on padded fields *)
Lemma nts_app_nonul s r : no_nul s = true -> nts (s ++ r) = s ++ nts r.
Proof.
  induction s as [|b s IH]; cbn [no_nul forallb app nts]; intros H; [reflexivity|].
  apply andb_true_iff in H as [Hb Hs].
  destruct (Z.eqb_spec b 0) as [->|_]; [discriminate|].
  f_equal. apply IH. exact Hs.
Qed.

Lemma nts_repeat0 n r : (0 < n)%nat -> nts (repeat 0 n ++ r) = [].
Proof. destruct n; [lia|]. reflexivity. Qed.

Lemma zlen_padz n s : zlen s <= Z.of_nat n -> zlen (padz n s) = Z.of_nat n.
Proof. unfold padz, zlen. rewrite app_length, repeat_length. lia. Qed.

Lemma nts_padz n s : no_nul s = true -> nts (padz n s) = s.
Proof.
  intros H. unfold padz. rewrite nts_app_nonul by exact H.
  destruct (n - length s)%nat; cbn [repeat nts]; [apply app_nil_r|].
  cbn. apply app_nil_r.
Qed.

Lemma nts_padz_more n s r : no_nul s = true -> (length s < n)%nat -> nts (padz n s ++ r) = s.
Proof.
  intros H Hl. unfold padz. rewrite <- app_assoc, nts_app_nonul by exact H.
  rewrite nts_repeat0 by lia. apply app_nil_r.
Qed.

Lemma bytes_in_padz n s : bytes_in s -> bytes_in (padz n s).
Proof. intros. apply bytes_in_app; [assumption|apply bytes_in_repeat0]. Qed.

(* ------------------------------------------------------------------ octal fields *)
Definition all_oct (s : list Z) : Prop := Forall (fun b => 48 <= b <= 55) s.

Lemma odig_oct k v : all_oct (odig k v).
Proof.
  revert v. induction k as [|k IH]; intros v; cbn [odig]; [constructor|].
  apply Forall_app. split; [apply IH|].
  constructor; [|constructor]. pose proof (Z.mod_pos_bound v 8 ltac:(lia)). lia.
Qed.

Lemma odig_length k v : length (odig k v) = k.
Proof.
  revert v. induction k as [|k IH]; intros v; cbn [odig]; [reflexivity|].
  rewrite app_length, IH. cbn. lia.
Qed.

Lemma oct_val_app acc a d : oct_val acc (a ++ [d]) = oct_val acc a * 8 + (d - 48).
Proof. revert acc. induction a as [|b a IH]; intros acc; cbn [app oct_val]; [reflexivity|apply IH]. Qed.

Lemma oct_val_odig k v : 0 <= v < 8 ^ Z.of_nat k -> oct_val 0 (odig k v) = v.
Proof.
  revert v. induction k as [|k IH]; intros v Hv.
  - cbn in *. lia.
  - cbn [odig]. rewrite oct_val_app, IH.
    + pose proof (Z.div_mod v 8 ltac:(lia)). lia.
    + rewrite Nat2Z.inj_succ, Z.pow_succ_r in Hv by lia.
      split; [apply Z.div_pos; lia|apply Z.div_lt_upper_bound; lia].
Qed.

Lemma all_oct_forallb s : all_oct s -> forallb is_oct s = true.
Proof.
  induction 1 as [|b s Hb H IH]; [reflexivity|].
  cbn [forallb]. rewrite IH. unfold is_oct.
  destruct (Z.leb_spec 48 b), (Z.leb_spec b 55); first [reflexivity | lia].
Qed.

Lemma all_oct_lstrip s : all_oct s -> lstrip s = s.
Proof.
  destruct 1 as [|b s Hb H]; [reflexivity|].
  cbn [lstrip]. unfold is_space.
  destruct (Z.leb_spec 9 b), (Z.leb_spec b 13), (Z.leb_spec 28 b), (Z.leb_spec b 32); first [reflexivity | lia].
Qed.

Lemma all_oct_rev s : all_oct s -> all_oct (rev s).
Proof. unfold all_oct. intros. now apply Forall_rev. Qed.

Lemma all_oct_strip s : all_oct s -> strip s = s.
Proof.
  intros H. unfold strip. rewrite (all_oct_lstrip s H), (all_oct_lstrip _ (all_oct_rev s H)).
  apply rev_involutive.
Qed.

Lemma all_oct_nts s r : all_oct s -> nts (s ++ 0 :: r) = s.
Proof.
  induction 1 as [|b s Hb H IH]; [reflexivity|].
  cbn [app nts]. destruct (Z.eqb_spec b 0); [lia|]. now rewrite IH.
Qed.

Lemma all_oct_no_high s : all_oct s -> existsb (fun b => 128 <=? b) s = false.
Proof.
  induction 1 as [|b s Hb H IH]; [reflexivity|].
  cbn [existsb]. rewrite IH. destruct (Z.leb_spec 128 b); [lia|reflexivity].
Qed.

(* a non-empty run of octal digits followed by a NUL decodes to its value *)
Lemma nti_octal ds r : all_oct ds -> ds <> [] -> nti (ds ++ 0 :: r) = NOk (oct_val 0 ds).
Proof.
  intros H Hne. destruct ds as [|b ds]; [congruence|].
  pose proof H as H'. inversion H as [|? ? Hb Hds]; subst.
  cbn [app]. unfold nti.
  destruct (Z.eqb_spec b 128); [lia|]. destruct (Z.eqb_spec b 255); [lia|]. cbn [orb].
  change (b :: ds ++ 0 :: r) with ((b :: ds) ++ 0 :: r).
  rewrite (all_oct_nts (b :: ds) r H').
  rewrite (all_oct_no_high _ H'), (all_oct_strip _ H'), (all_oct_forallb _ H').
  reflexivity.
Qed.

Lemma odig_nonnil k v : (0 < k)%nat -> odig k v <> [].
Proof.
  intros Hk E. apply (f_equal (@length Z)) in E. rewrite odig_length in E. cbn in E. lia.
Qed.

Lemma nti_octf w v : (1 < w)%nat -> 0 <= v < 8 ^ (Z.of_nat w - 1) -> nti (octf w v) = NOk v.
Proof.
  intros Hw Hv. unfold octf.
  rewrite (nti_octal _ [] (odig_oct _ _)) by (apply odig_nonnil; lia).
  f_equal. apply oct_val_odig. replace (Z.of_nat (w - 1)) with (Z.of_nat w - 1) by lia. exact Hv.
Qed.

Lemma nti_chkf c : 0 <= c < 8 ^ 6 -> nti (chkf c) = NOk c.
Proof.
  intros Hc. unfold chkf.
  rewrite (nti_octal _ [32] (odig_oct _ _)) by (apply odig_nonnil; lia).
  f_equal. apply oct_val_odig. exact Hc.
Qed.

Lemma zlen_octf w v : (0 < w)%nat -> zlen (octf w v) = Z.of_nat w.
Proof. intros. unfold octf, zlen. rewrite app_length, odig_length. cbn. lia. Qed.

Lemma zlen_chkf c : zlen (chkf c) = 8.
Proof. unfold chkf, zlen. rewrite app_length, odig_length. reflexivity. Qed.

Lemma bytes_in_oct s : all_oct s -> bytes_in s.
Proof. unfold all_oct, bytes_in. intros H. eapply Forall_impl; [|exact H]. cbn. lia. Qed.

Lemma bytes_in_octf w v : bytes_in (octf w v).
Proof.
  unfold octf. apply bytes_in_app; [apply bytes_in_oct, odig_oct|]. constructor; [lia|constructor].
Qed.

Lemma bytes_in_le4 v : bytes_in (le4 v).
Proof. exact (le_bytes_ok 4 v). Qed.

Lemma zlen_le4 v : zlen (le4 v) = 4.
Proof. reflexivity. Qed.

(* ------------------------------------------------------------------ trailing slashes *)
Lemma ends_slash_false_rstrip s : ends_slash s = false -> rstrip_slash s = s.
Proof.
  unfold ends_slash, rstrip_slash. destruct (rev s) as [|b r] eqn:E.
  - intros _. cbn. apply (f_equal (@rev Z)) in E. rewrite rev_involutive in E. now subst.
  - intros Hb. cbn [lstrip_slash]. rewrite Hb. rewrite <- E. apply rev_involutive.
Qed.

Lemma lstrip_slash_head l : match lstrip_slash l with b :: _ => (b =? SLASH) = false | [] => True end.
Proof.
  induction l as [|b l IH]; cbn [lstrip_slash]; [exact I|].
  destruct (b =? SLASH) eqn:E; [exact IH|exact E].
Qed.

Lemma ends_slash_rstrip s : ends_slash (rstrip_slash s) = false.
Proof.
  unfold ends_slash, rstrip_slash. rewrite rev_involutive.
  pose proof (lstrip_slash_head (rev s)) as H.
  destruct (lstrip_slash (rev s)); [reflexivity|exact H].
Qed.

Lemma ends_slash_app p n : n <> [] -> ends_slash (p ++ n) = ends_slash n.
Proof.
  intros Hn. unfold ends_slash. rewrite rev_app_distr.
  destruct (rev n) as [|b r] eqn:E.
  - apply (f_equal (@rev Z)) in E. rewrite rev_involutive in E. cbn in E. congruence.
  - reflexivity.
Qed.

(* ------------------------------------------------------------------ counting NULs *)
Lemma count0_le l : count0 l <= zlen l.
Proof.
  unfold count0, blen, zlen. induction l as [|b l IH]; cbn [filter length]; [lia|].
  destruct (b =? 0); cbn [length]; lia.
Qed.

Lemma count0_app a b : count0 (a ++ b) = count0 a + count0 b.
Proof. unfold count0, blen. rewrite filter_app, app_length. lia. Qed.

Lemma count0_lt_of_nonzero a b c : b <> 0 -> count0 (a ++ b :: c) < zlen (a ++ b :: c).
Proof.
  intros Hb. rewrite count0_app, zlen_app.
  pose proof (count0_le a). pose proof (count0_le c).
  unfold count0 at 2. cbn [filter]. destruct (Z.eqb_spec b 0); [congruence|].
  fold (count0 c). unfold zlen at 2. cbn [length]. unfold zlen in *. lia.
Qed.

(* ------------------------------------------------------------------ well-formed members *)
Definition fld (n : Z) (s : list Z) : Prop := zlen s <= n /\ no_nul s = true /\ bytes_in s.

Record WFh (m : amember) : Prop := mkWFh {
  wf_name : fld 100 (a_name m);
  wf_link : fld 100 (a_link m);
  wf_uname : fld 32 (a_uname m);
  wf_gname : fld 32 (a_gname m);
  wf_prefix : fld (if a_visor m then 150 else 155) (a_prefix m);
  wf_mode : 0 <= a_mode m < 8 ^ 7;
  wf_uid : 0 <= a_uid m < 8 ^ 7;
  wf_gid : 0 <= a_gid m < 8 ^ 7;
  wf_size : 0 <= a_size m < 8 ^ 11;
  wf_mtime : 0 <= a_mtime m < 8 ^ 11;
  wf_devmajor : 0 <= a_devmajor m < 8 ^ 7;
  wf_devminor : 0 <= a_devminor m < 8 ^ 7;
  wf_type : 0 <= a_type m < 256;
  wf_type_nospecial : s_mem (a_type m) [83; 120; 103; 88] = false;
  wf_magic_len : zlen (a_magic m) = 8;
  wf_magic_bytes : bytes_in (a_magic m);
  wf_magic_visor : s_list_eqb (firstn 7 (a_magic m)) visor7 = a_visor m;
  wf_voff : 0 <= a_voff m < 4294967296;
  wf_vres : 0 <= a_vres m < 4294967296;
  wf_text : 0 <= a_text m < 4294967296;
  wf_fix : 0 <= a_fix m < 4294967296;
  wf_data_bytes : bytes_in (a_data m);
}.

(* a member proper *)
Record WF (m : amember) : Prop := mkWF {
  wf_h : WFh m;
  wf_plain : s_mem (a_type m) [76; 75] = false;
  wf_content : a_visor m = true -> s_has_data (spec_type m) = true -> 0 < a_size m -> a_voff m <> 0;
  wf_data_len : zlen (a_data m) =
                if a_visor m then 0 else if s_has_data (spec_type m) then s_block (a_size m) else 0;
  wf_dirname : spec_type m = 53 -> s_rstrip_slash (a_name m) <> [];
}.

(* a long name / long link record *)
Record WFR (r : amember) : Prop := mkWFR {
  wfr_h : WFh r;
  wfr_type : a_type r = 76 \/ a_type r = 75;
  wfr_inline : stored_away r = false;
  wfr_data_len : zlen (a_data r) = s_block (a_size r);
}.

Lemma field_ok_fld n s : field_ok n s = true -> fld n s.
Proof.
  unfold field_ok, fld. intros H.
  apply andb_true_iff in H as [H Hb]. apply andb_true_iff in H as [Hl Hn].
  repeat split; [lia|exact Hn|now apply bytes_okb_in].
Qed.

Lemma oct_ok_range w v : oct_ok w v = true -> 0 <= v < 8 ^ (w - 1).
Proof. unfold oct_ok. lia. Qed.

Lemma u32_ok_range v : u32_ok v = true -> 0 <= v < 4294967296.
Proof. unfold u32_ok. lia. Qed.

Lemma wf_hdrb_WFh m : wf_hdrb m = true -> WFh m.
Proof.
  unfold wf_hdrb. intros H.
  apply andb_true_iff in H as [H Hdb].
  apply andb_true_iff in H as [H Hfix].
  apply andb_true_iff in H as [H Htext].
  apply andb_true_iff in H as [H Hvres].
  apply andb_true_iff in H as [H Hvoff].
  apply andb_true_iff in H as [H Hmv].
  apply andb_true_iff in H as [H Hmb].
  apply andb_true_iff in H as [H Hml].
  apply andb_true_iff in H as [H Htp].
  apply andb_true_iff in H as [H Hty2].
  apply andb_true_iff in H as [H Hty1].
  apply andb_true_iff in H as [H Hdmin].
  apply andb_true_iff in H as [H Hdmaj].
  apply andb_true_iff in H as [H Hmt].
  apply andb_true_iff in H as [H Hsz].
  apply andb_true_iff in H as [H Hgid].
  apply andb_true_iff in H as [H Huid].
  apply andb_true_iff in H as [H Hmode].
  apply andb_true_iff in H as [H Hpre].
  apply andb_true_iff in H as [H Hgn].
  apply andb_true_iff in H as [H Hun].
  apply andb_true_iff in H as [Hname Hlink].
  constructor.
  - now apply field_ok_fld.
  - now apply field_ok_fld.
  - now apply field_ok_fld.
  - now apply field_ok_fld.
  - apply field_ok_fld. destruct (a_visor m); exact Hpre.
  - exact (oct_ok_range 8 _ Hmode).
  - exact (oct_ok_range 8 _ Huid).
  - exact (oct_ok_range 8 _ Hgid).
  - exact (oct_ok_range 12 _ Hsz).
  - exact (oct_ok_range 12 _ Hmt).
  - exact (oct_ok_range 8 _ Hdmaj).
  - exact (oct_ok_range 8 _ Hdmin).
  - lia.
  - now apply negb_true_iff in Htp.
  - lia.
  - now apply bytes_okb_in.
  - now apply eqb_prop in Hmv.
  - now apply u32_ok_range.
  - now apply u32_ok_range.
  - now apply u32_ok_range.
  - now apply u32_ok_range.
  - now apply bytes_okb_in.
Qed.

Lemma wf_memberb_WF m : wf_memberb m = true -> WF m.
Proof.
  unfold wf_memberb. intros H.
  apply andb_true_iff in H as [H Hdir].
  apply andb_true_iff in H as [H Hdl].
  apply andb_true_iff in H as [H Hcont].
  apply andb_true_iff in H as [Hh Hplain].
  constructor.
  - now apply wf_hdrb_WFh.
  - now apply negb_true_iff in Hplain.
  - intros Hv Hd Hs. apply orb_true_iff in Hcont as [Hc|Hc].
    + rewrite Hv, Hd in Hc. cbn in Hc. destruct (Z.ltb_spec 0 (a_size m)); [discriminate|lia].
    + apply negb_true_iff in Hc. lia.
  - destruct (a_visor m); [lia|]. destruct (s_has_data (spec_type m)); lia.
  - intros Hd. apply orb_true_iff in Hdir as [Hc|Hc].
    + apply negb_true_iff in Hc. lia.
    + destruct (s_rstrip_slash (a_name m)); [discriminate|congruence].
Qed.

Lemma wf_recordb_WFR r : wf_recordb r = true -> WFR r.
Proof.
  unfold wf_recordb. intros H.
  apply andb_true_iff in H as [H Hlen].
  apply andb_true_iff in H as [H Hin].
  apply andb_true_iff in H as [Hh Hty].
  constructor.
  - now apply wf_hdrb_WFh.
  - unfold s_mem in Hty. cbn [existsb] in Hty. rewrite orb_false_r in Hty.
    apply orb_true_iff in Hty as [E|E]; [left|right]; lia.
  - now apply negb_true_iff in Hin.
  - lia.
Qed.

(* ------------------------------------------------------------------ the rendered header, field by field *)
Definition lens_pre : list Z := [100; 8; 8; 8; 12; 12].
Definition lens_v : list Z := lens_pre ++ [8] ++ [1; 100; 8; 32; 32; 8; 8; 151; 4; 4; 4; 4].
Definition lens_s : list Z := lens_pre ++ [8] ++ [1; 100; 8; 32; 32; 8; 8; 155; 4; 4; 4].
Definition lens_for (m : amember) : list Z := if a_visor m then lens_v else lens_s.

Lemma zlen_padz_fld n k s : fld k s -> k <= Z.of_nat n -> zlen (padz n s) = Z.of_nat n.
Proof. intros (Hl & _ & _) Hk. apply zlen_padz. lia. Qed.

Lemma hfields_lens m : WFh m -> lens_of (hfields m) (lens_for m).
Proof.
  intros H. destruct H.
  unfold hfields, pre_fields, post_fields, lens_for, lens_v, lens_s, lens_pre.
  destruct (a_visor m); cbn [app];
    repeat (constructor; try solve
      [ reflexivity
      | apply zlen_chkf
      | assumption
      | eapply (zlen_padz_fld 100); [eassumption|lia]
      | eapply (zlen_padz_fld 32); [eassumption|lia]
      | eapply (zlen_padz_fld 151); [eassumption|lia]
      | eapply (zlen_padz_fld 155); [eassumption|lia] ]).
Qed.

Lemma header_len m : WFh m -> zlen (header m) = 512.
Proof.
  intros H. unfold header. rewrite (lens_concat _ _ (hfields_lens m H)).
  unfold lens_for. destruct (a_visor m); reflexivity.
Qed.

Lemma hdr_slice m i j : WFh m ->
  slice (header m) (zsumz (firstn i (lens_for m))) (zsumz (firstn j (skipn i (lens_for m))))
  = concat (firstn j (skipn i (hfields m))).
Proof. intros H. apply slice_fields. now apply hfields_lens. Qed.

Lemma hdr_slice' m i j off n fs : WFh m ->
  zsumz (firstn i (lens_for m)) = off ->
  zsumz (firstn j (skipn i (lens_for m))) = n ->
  concat (firstn j (skipn i (hfields m))) = fs ->
  slice (header m) off n = fs.
Proof. intros H <- <- <-. now apply hdr_slice. Qed.

(* one field among the first 14 (same position in both variants) *)
Ltac hdr_field m H i :=
  apply (hdr_slice' m i 1%nat _ _ _ H);
  [ unfold lens_for; destruct (a_visor m); reflexivity
  | unfold lens_for; destruct (a_visor m); reflexivity
  | exact (app_nil_r _) ].

Lemma hdr_name m : WFh m -> slice (header m) 0 100 = padz 100 (a_name m).
Proof. intros H. hdr_field m H 0%nat. Qed.
Lemma hdr_mode m : WFh m -> slice (header m) 100 8 = octf 8 (a_mode m).
Proof. intros H. hdr_field m H 1%nat. Qed.
Lemma hdr_uid m : WFh m -> slice (header m) 108 8 = octf 8 (a_uid m).
Proof. intros H. hdr_field m H 2%nat. Qed.
Lemma hdr_gid m : WFh m -> slice (header m) 116 8 = octf 8 (a_gid m).
Proof. intros H. hdr_field m H 3%nat. Qed.
Lemma hdr_size m : WFh m -> slice (header m) 124 12 = octf 12 (a_size m).
Proof. intros H. hdr_field m H 4%nat. Qed.
Lemma hdr_mtime m : WFh m -> slice (header m) 136 12 = octf 12 (a_mtime m).
Proof. intros H. hdr_field m H 5%nat. Qed.
Lemma hdr_chk m : WFh m -> slice (header m) 148 8 = chkf (hdr_chksum m).
Proof. intros H. hdr_field m H 6%nat. Qed.
Lemma hdr_type m : WFh m -> slice (header m) 156 1 = [a_type m].
Proof. intros H. hdr_field m H 7%nat. Qed.
Lemma hdr_link m : WFh m -> slice (header m) 157 100 = padz 100 (a_link m).
Proof. intros H. hdr_field m H 8%nat. Qed.
Lemma hdr_magic m : WFh m -> slice (header m) 257 8 = a_magic m.
Proof. intros H. hdr_field m H 9%nat. Qed.
Lemma hdr_devmajor m : WFh m -> slice (header m) 329 8 = octf 8 (a_devmajor m).
Proof. intros H. hdr_field m H 12%nat. Qed.
Lemma hdr_devminor m : WFh m -> slice (header m) 337 8 = octf 8 (a_devminor m).
Proof. intros H. hdr_field m H 13%nat. Qed.

Lemma hdr_pre m : WFh m -> slice (header m) 0 148 = concat (pre_fields m).
Proof.
  intros H. apply (hdr_slice' m 0%nat 6%nat _ _ _ H).
  - unfold lens_for; destruct (a_visor m); reflexivity.
  - unfold lens_for; destruct (a_visor m); reflexivity.
  - reflexivity.
Qed.

Lemma hdr_post m : WFh m -> slice (header m) 156 356 = concat (post_fields m).
Proof.
  intros H. destruct (a_visor m) eqn:Ev.
  - apply (hdr_slice' m 7%nat 12%nat _ _ _ H).
    + unfold lens_for; rewrite Ev; reflexivity.
    + unfold lens_for; rewrite Ev; reflexivity.
    + unfold hfields, post_fields. rewrite Ev. reflexivity.
  - apply (hdr_slice' m 7%nat 11%nat _ _ _ H).
    + unfold lens_for; rewrite Ev; reflexivity.
    + unfold lens_for; rewrite Ev; reflexivity.
    + unfold hfields, post_fields. rewrite Ev. reflexivity.
Qed.

Lemma hdr_prefix_v m : WFh m -> a_visor m = true ->
  slice (header m) 345 155 = padz 151 (a_prefix m) ++ le4 (a_voff m).
Proof.
  intros H Ev. apply (hdr_slice' m 14%nat 2%nat _ _ _ H).
  - unfold lens_for; rewrite Ev; reflexivity.
  - unfold lens_for; rewrite Ev; reflexivity.
  - unfold hfields, post_fields. rewrite Ev.
    exact (f_equal (fun x => padz 151 (a_prefix m) ++ x) (app_nil_r _)).
Qed.

Lemma hdr_prefix_s m : WFh m -> a_visor m = false ->
  slice (header m) 345 155 = padz 155 (a_prefix m).
Proof.
  intros H Ev. apply (hdr_slice' m 14%nat 1%nat _ _ _ H).
  - unfold lens_for; rewrite Ev; reflexivity.
  - unfold lens_for; rewrite Ev; reflexivity.
  - unfold hfields, post_fields. rewrite Ev. exact (app_nil_r _).
Qed.

Lemma hdr_prefix m : WFh m -> nts (slice (header m) 345 155) = a_prefix m.
Proof.
  intros H. destruct (wf_prefix m H) as (Hl & Hn & _).
  destruct (a_visor m) eqn:Ev.
  - rewrite (hdr_prefix_v m H Ev).
    apply nts_padz_more; [exact Hn|]. unfold zlen in Hl. lia.
  - rewrite (hdr_prefix_s m H Ev). apply nts_padz. exact Hn.
Qed.

Ltac hdr_vfield m H Ev i :=
  apply (hdr_slice' m i 1%nat _ _ _ H);
  [ unfold lens_for; rewrite Ev; reflexivity
  | unfold lens_for; rewrite Ev; reflexivity
  | unfold hfields, post_fields; rewrite Ev; exact (app_nil_r _) ].

Lemma hdr_voff m : WFh m -> a_visor m = true -> slice (header m) 496 4 = le4 (a_voff m).
Proof. intros H Ev. hdr_vfield m H Ev 15%nat. Qed.
Lemma hdr_text m : WFh m -> a_visor m = true -> slice (header m) 504 4 = le4 (a_text m).
Proof. intros H Ev. hdr_vfield m H Ev 17%nat. Qed.
Lemma hdr_fix m : WFh m -> a_visor m = true -> slice (header m) 508 4 = le4 (a_fix m).
Proof. intros H Ev. hdr_vfield m H Ev 18%nat. Qed.

(* ------------------------------------------------------------------ checksum, NUL count *)
Lemma bytes_in_concat fs : Forall bytes_in fs -> bytes_in (concat fs).
Proof. induction 1; cbn [concat]; [constructor|now apply bytes_in_app]. Qed.

Lemma fld_bytes n s : fld n s -> bytes_in s.
Proof. now intros (_ & _ & H). Qed.

Lemma bytes_in_single b : 0 <= b < 256 -> bytes_in [b].
Proof. intros. constructor; [assumption|constructor]. Qed.

Ltac fields_bytes :=
  repeat (apply Forall_cons;
          [ first [ apply bytes_in_octf | apply bytes_in_le4 | apply bytes_in_padz; assumption
                  | apply (bytes_in_repeat0 4) | apply bytes_in_single; assumption | assumption ] | ]);
  apply Forall_nil.

Lemma pre_fields_bytes m : WFh m -> bytes_in (concat (pre_fields m)).
Proof.
  intros H. apply bytes_in_concat. unfold pre_fields.
  pose proof (fld_bytes _ _ (wf_name m H)). fields_bytes.
Qed.

Lemma post_fields_bytes m : WFh m -> bytes_in (concat (post_fields m)).
Proof.
  intros H. apply bytes_in_concat. unfold post_fields.
  pose proof (fld_bytes _ _ (wf_link m H)). pose proof (fld_bytes _ _ (wf_uname m H)).
  pose proof (fld_bytes _ _ (wf_gname m H)). pose proof (fld_bytes _ _ (wf_prefix m H)).
  pose proof (wf_type m H). pose proof (wf_magic_bytes m H).
  destruct (a_visor m); cbn [app]; fields_bytes.
Qed.

Lemma pre_fields_len m : WFh m -> zlen (concat (pre_fields m)) = 148.
Proof.
  intros H. pose proof (lens_firstn _ _ 6%nat (hfields_lens m H)) as L.
  change (firstn 6 (hfields m)) with (pre_fields m) in L.
  rewrite (lens_concat _ _ L). unfold lens_for. destruct (a_visor m); reflexivity.
Qed.

Lemma post_fields_len m : WFh m -> zlen (concat (post_fields m)) = 356.
Proof.
  intros H. pose proof (lens_skipn _ _ 7%nat (hfields_lens m H)) as L.
  change (skipn 7 (hfields m)) with (post_fields m) in L.
  rewrite (lens_concat _ _ L). unfold lens_for. destruct (a_visor m); reflexivity.
Qed.

Lemma hdr_chksum_range m : WFh m -> 0 <= hdr_chksum m < 8 ^ 6.
Proof.
  intros H. unfold hdr_chksum.
  pose proof (bytes_in_sum _ (pre_fields_bytes m H)) as H1.
  pose proof (bytes_in_sum _ (post_fields_bytes m H)) as H2.
  rewrite (pre_fields_len m H) in H1. rewrite (post_fields_len m H) in H2.
  change zsum' with zsumz. change (8 ^ 6) with 262144. lia.
Qed.

Lemma chksum_unsigned_header m : WFh m -> chksum_unsigned (header m) = hdr_chksum m.
Proof. intros H. unfold chksum_unsigned. rewrite (hdr_pre m H), (hdr_post m H). reflexivity. Qed.

Lemma header_split m :
  header m = (concat (pre_fields m) ++ odig 6 (hdr_chksum m) ++ [0]) ++ 32 :: concat (post_fields m).
Proof.
  unfold header, hfields, chkf. rewrite concat_app. cbn [app concat].
  rewrite <- !app_assoc. reflexivity.
Qed.

Lemma count0_header m : WFh m -> (count0 (header m) =? BLOCK) = false.
Proof.
  intros H. pose proof (header_len m H) as Hl.
  rewrite header_split in Hl |- *.
  pose proof (count0_lt_of_nonzero (concat (pre_fields m) ++ odig 6 (hdr_chksum m) ++ [0]) 32
                (concat (post_fields m)) ltac:(lia)) as Hc.
  unfold BLOCK. lia.
Qed.

(* ------------------------------------------------------------------ frombuf on a rendered header *)
Lemma spec_type_cases m : spec_type m = a_type m \/ spec_type m = 53.
Proof. unfold spec_type. destruct (_ && _); auto. Qed.

Lemma spec_type_not_special m t : WFh m -> In t [83; 120; 103; 88] -> (spec_type m =? t) = false.
Proof.
  intros H Ht. pose proof (wf_type_nospecial m H) as Hp.
  unfold s_mem in Hp. cbn [existsb] in Hp.
  repeat (apply orb_false_iff in Hp as [? Hp]).
  cbn in Ht.
  destruct (spec_type_cases m) as [->| ->];
    destruct Ht as [<-|[<-|[<-|[<-|[]]]]]; assumption || reflexivity.
Qed.

Lemma spec_type_not_longrec m t : WF m -> In t [76; 75] -> (spec_type m =? t) = false.
Proof.
  intros H Ht. pose proof (wf_plain m H) as Hp.
  unfold s_mem in Hp. cbn [existsb] in Hp.
  repeat (apply orb_false_iff in Hp as [? Hp]).
  cbn in Ht.
  destruct (spec_type_cases m) as [->| ->];
    destruct Ht as [<-|[<-|[]]]; assumption || reflexivity.
Qed.

Definition hdr_of (m : amember) : hdr :=
  mkhdr (spec_name m) (a_link m) (a_size m) (spec_type m) false 0 0 0.

Lemma frombuf_std_header m : WFh m -> frombuf_std (header m) = HOk (hdr_of m).
Proof.
  intros H. unfold frombuf_std.
  change blen with zlen. rewrite (header_len m H).
  change (512 =? 0) with false. change (512 =? BLOCK) with true. cbn [negb].
  rewrite (count0_header m H).
  rewrite (hdr_chk m H), (nti_chkf _ (hdr_chksum_range m H)).
  rewrite (chksum_unsigned_header m H), Z.eqb_refl. cbn [orb negb].
  rewrite (hdr_mode m H), (hdr_uid m H), (hdr_gid m H). cbn [nti_all].
  rewrite (nti_octf 8 _ ltac:(lia) (wf_mode m H)), (nti_octf 8 _ ltac:(lia) (wf_uid m H)),
          (nti_octf 8 _ ltac:(lia) (wf_gid m H)).
  rewrite (hdr_size m H), (nti_octf 12 _ ltac:(lia) (wf_size m H)).
  rewrite (hdr_mtime m H), (hdr_devmajor m H), (hdr_devminor m H). cbn [nti_all].
  rewrite (nti_octf 12 _ ltac:(lia) (wf_mtime m H)), (nti_octf 8 _ ltac:(lia) (wf_devmajor m H)),
          (nti_octf 8 _ ltac:(lia) (wf_devminor m H)).
  rewrite (hdr_name m H), (hdr_type m H), (hdr_link m H), (hdr_prefix m H).
  destruct (wf_name m H) as (_ & Hnn & _). destruct (wf_link m H) as (_ & Hnl & _).
  rewrite (nts_padz 100 _ Hnn), (nts_padz 100 _ Hnl).
  change ((a_type m =? AREGTYPE) && ends_slash (a_name m)) with ((a_type m =? 0) && s_ends_slash (a_name m)).
  change (if (a_type m =? 0) && s_ends_slash (a_name m) then DIRTYPE else a_type m) with (spec_type m).
  change GNUTYPE_SPARSE with 83. change DIRTYPE with 53.
  rewrite (spec_type_not_special m 83 H ltac:(cbn; auto 10)).
  unfold hdr_of, spec_name. f_equal.
  destruct (a_prefix m); reflexivity.
Qed.

Definition vhdr_of (m : amember) : hdr :=
  if a_visor m
  then mkhdr (spec_name m) (a_link m) (a_size m) (spec_type m) true (a_voff m) (a_text m) (a_fix m)
  else hdr_of m.

Lemma unpack_le4 buf lo v :
  0 <= v < 4294967296 -> slice buf lo 4 = le4 v ->
  unpack_field buf lo (lo + 4) 4 false false = Some v.
Proof.
  intros Hv Hs. unfold unpack_field. replace (lo + 4 - lo) with 4 by lia.
  rewrite Hs. change (blen (le4 v) =? 4) with true. cbn [uint_of].
  unfold le4. f_equal. apply (le_uint_le_bytes 4 v). exact Hv.
Qed.

(* VisorTarInfo.frombuf reads back every field the writer stored.  The magic, the slice bounds
   and the struct formats are the generated ones: a change in vmtar.py breaks this proof. *)
Lemma frombuf_header m : WFh m -> frombuf true (header m) = HOk (vhdr_of m).
Proof.
  intros H. unfold frombuf, frombuf_visor. rewrite (frombuf_std_header m H).
  change Gen.VmTar.vmtar_magic_lo with 257.
  change (Gen.VmTar.vmtar_magic_hi - 257) with 7.
  rewrite (slice_firstn (header m) 257 8 7 ltac:(lia)), (hdr_magic m H).
  change (list_eqb (firstn (Z.to_nat 7) (a_magic m)) Gen.VmTar.vmtar_magic)
    with (s_list_eqb (firstn 7 (a_magic m)) visor7).
  rewrite (wf_magic_visor m H). unfold vhdr_of.
  destruct (a_visor m) eqn:Ev; [|reflexivity].
  change Gen.VmTar.vmtar_offset_data_lo with 496. change Gen.VmTar.vmtar_offset_data_hi with (496 + 4).
  change Gen.VmTar.vmtar_textPgs_lo with 504. change Gen.VmTar.vmtar_textPgs_hi with (504 + 4).
  change Gen.VmTar.vmtar_fixUpPgs_lo with 508. change Gen.VmTar.vmtar_fixUpPgs_hi with (508 + 4).
  change Gen.VmTar.vmtar_offset_data_width with 4. change Gen.VmTar.vmtar_textPgs_width with 4.
  change Gen.VmTar.vmtar_fixUpPgs_width with 4.
  change Gen.VmTar.vmtar_offset_data_signed with false. change Gen.VmTar.vmtar_offset_data_big with false.
  change Gen.VmTar.vmtar_textPgs_signed with false. change Gen.VmTar.vmtar_textPgs_big with false.
  change Gen.VmTar.vmtar_fixUpPgs_signed with false. change Gen.VmTar.vmtar_fixUpPgs_big with false.
  rewrite (unpack_le4 _ 496 _ (wf_voff m H) (hdr_voff m H Ev)).
  rewrite (unpack_le4 _ 504 _ (wf_text m H) (hdr_text m H Ev)).
  rewrite (unpack_le4 _ 508 _ (wf_fix m H) (hdr_fix m H Ev)).
  reflexivity.
Qed.

(* ------------------------------------------------------------------ one member *)
From DH Require Import Base.Arith.

Lemma block_eq n : 0 <= n -> block n = s_block n.
Proof.
  intros Hn. unfold block, s_block, BLOCK.
  pose proof (Z.div_mod n 512 ltac:(lia)) as Hd.
  pose proof (Z.mod_pos_bound n 512 ltac:(lia)) as Hm.
  destruct (Z.eqb_spec (n mod 512) 0) as [E|E].
  - replace (n + 511) with (n / 512 * 512 + 511) by lia.
    rewrite div_mul_add by lia. reflexivity.
  - replace (n + 511) with ((n / 512 + 1) * 512 + (n mod 512 - 1)) by lia.
    rewrite div_mul_add by lia. reflexivity.
Qed.

Lemma block_nonneg n : 0 <= n -> 0 <= block n.
Proof.
  intros Hn. rewrite block_eq by exact Hn. unfold s_block.
  assert (0 <= (n + 511) / 512) by (apply Z.div_pos; lia). lia.
Qed.

Definition tinfo_of (pos : Z) (m : amember) : tinfo :=
  mkt (spec_name m) (a_link m) (a_size m) (spec_type m) pos
      (if stored_away m then a_voff m else pos + 512)
      (a_visor m) (if a_visor m then a_text m else 0) (if a_visor m then a_fix m else 0).

Lemma rstrip_spec_name m : WF m -> spec_type m = 53 -> rstrip_slash (spec_name m) = spec_name m.
Proof.
  intros H Hd. apply ends_slash_false_rstrip.
  unfold spec_name. rewrite Hd. change (53 =? 53) with true.
  change (s_mem 53 [76; 75; 83]) with false. cbn iota.
  pose proof (wf_dirname m H Hd) as Hne.
  change s_rstrip_slash with rstrip_slash in *.
  destruct (a_prefix m) as [|p ps].
  - apply ends_slash_rstrip.
  - rewrite app_assoc, ends_slash_app by exact Hne. apply ends_slash_rstrip.
Qed.

Lemma skip_cond_vhdr m : skip_cond true (vhdr_of m) = stored_away m.
Proof.
  unfold skip_cond, Gen.VmTar.vmtar_skip_cond, vhdr_of, stored_away.
  destruct (a_visor m); reflexivity.
Qed.

Lemma rd_header pre m post : WFh m -> rd (pre ++ member_bytes m ++ post) (zlen pre) BLOCK = header m.
Proof.
  intros H. unfold rd, member_bytes, BLOCK. rewrite <- (header_len m H), <- app_assoc.
  apply slice_app_exact.
Qed.

Lemma inline_len m : WF m -> stored_away m = false ->
  (if has_data (spec_type m) then block (a_size m) else 0) = zlen (a_data m).
Proof.
  intros H Hs. rewrite (wf_data_len m H).
  change (has_data (spec_type m)) with (s_has_data (spec_type m)).
  pose proof (wf_size m (wf_h m H)) as Hsz.
  destruct (s_has_data (spec_type m)) eqn:Hd.
  - destruct (a_visor m) eqn:Ev.
    + (* a visor member without a recorded offset has no content *)
      unfold stored_away in Hs. rewrite Ev in Hs. cbn [andb] in Hs. apply negb_false_iff in Hs.
      assert (a_size m = 0) as ->.
      { destruct (Z.eq_dec (a_size m) 0) as [|Hn]; [assumption|].
        exfalso. apply (wf_content m H Ev Hd ltac:(lia)). lia. }
      reflexivity.
    + apply block_eq. lia.
  - destruct (a_visor m); reflexivity.
Qed.

Lemma fromtarfile_member pre m post fuel : WF m ->
  fromtarfile true (pre ++ member_bytes m ++ post) (S fuel) (zlen pre)
  = POk (tinfo_of (zlen pre) m) (zlen pre + 512) (zlen pre + 512 + zlen (a_data m)).
Proof.
  intros H. cbn [fromtarfile].
  rewrite (rd_header pre m post (wf_h m H)). change (blen (header m)) with (zlen (header m)).
  rewrite (header_len m (wf_h m H)), (frombuf_header m (wf_h m H)).
  rewrite skip_cond_vhdr.
  replace (zlen pre + 512 - BLOCK) with (zlen pre) by (unfold BLOCK; lia).
  assert (Hty : h_type (vhdr_of m) = spec_type m) by (unfold vhdr_of; destruct (a_visor m); reflexivity).
  assert (Hnm : h_name (vhdr_of m) = spec_name m) by (unfold vhdr_of; destruct (a_visor m); reflexivity).
  assert (Hlk : h_link (vhdr_of m) = a_link m) by (unfold vhdr_of; destruct (a_visor m); reflexivity).
  assert (Hsz : h_size (vhdr_of m) = a_size m) by (unfold vhdr_of; destruct (a_visor m); reflexivity).
  assert (Hvi : h_visor (vhdr_of m) = a_visor m) by (unfold vhdr_of; destruct (a_visor m); reflexivity).
  assert (Htx : h_text (vhdr_of m) = if a_visor m then a_text m else 0)
    by (unfold vhdr_of; destruct (a_visor m); reflexivity).
  assert (Hfx : h_fix (vhdr_of m) = if a_visor m then a_fix m else 0)
    by (unfold vhdr_of; destruct (a_visor m); reflexivity).
  rewrite Hty, Hnm, Hlk, Hsz, Hvi, Htx, Hfx.
  destruct (stored_away m) eqn:Hs.
  - (* stored away: the next header follows immediately *)
    assert (Hvo : h_voff (vhdr_of m) = a_voff m).
    { unfold vhdr_of. unfold stored_away in Hs. destruct (a_visor m); [reflexivity|discriminate]. }
    rewrite Hvo. unfold tinfo_of. rewrite Hs.
    assert (zlen (a_data m) = 0) as ->.
    { rewrite (wf_data_len m H). unfold stored_away in Hs. destruct (a_visor m); [reflexivity|discriminate]. }
    f_equal. lia.
  - change GNUTYPE_LONGNAME with 76. change GNUTYPE_LONGLINK with 75.
    rewrite (spec_type_not_longrec m 76 H ltac:(cbn; auto 10)), (spec_type_not_longrec m 75 H ltac:(cbn; auto 10)).
    cbn [orb].
    assert (Hpax : mem (spec_type m) [XHDTYPE; XGLTYPE; SOLARIS_XHDTYPE] = false).
    { unfold mem, XHDTYPE, XGLTYPE, SOLARIS_XHDTYPE. cbn [existsb].
      rewrite (spec_type_not_special m 120 (wf_h m H) ltac:(cbn; auto 10)), (spec_type_not_special m 103 (wf_h m H) ltac:(cbn; auto 10)),
              (spec_type_not_special m 88 (wf_h m H) ltac:(cbn; auto 10)). reflexivity. }
    rewrite Hpax.
    pose proof (wf_size m (wf_h m H)) as Hsize.
    destruct (Z.ltb_spec (a_size m) 0) as [Hneg|_]; [lia|]. cbn [andb].
    rewrite (inline_len m H Hs).
    unfold tinfo_of. rewrite Hs. f_equal. f_equal.
    change DIRTYPE with 53.
    destruct (Z.eqb_spec (spec_type m) 53) as [Hd|_]; [|reflexivity].
    apply (rstrip_spec_name m H Hd).
Qed.

(* ------------------------------------------------------------------ the whole archive *)
Definition next_result (offset : Z) (r : pres) : nxt :=
  match r with
  | POk t tl' o' => NMember t o' tl'
  | PHdr EEof => NEnd
  | PHdr _ => if offset =? 0 then NReadError else NEnd
  | PSubseq => NReadError
  | PRaise => NRaise
  | PUnmod => NUnmodelled
  | PFuel => NFuel
  end.

Lemma next_at va f fuel offset tell :
  tell = offset \/ (offset <> 0 /\ offset <= blen f) ->
  next va f fuel offset tell = next_result offset (fromtarfile va f fuel offset).
Proof.
  intros Hc. unfold next, next_result.
  destruct (Z.eqb_spec offset tell) as [->|Hne]; [reflexivity|].
  destruct Hc as [->|[H0 Hle]]; [congruence|].
  destruct (Z.eqb_spec offset 0); [congruence|].
  destruct (Z.leb_spec (blen f) (offset - 1)); [lia|reflexivity].
Qed.

Fixpoint tinfos (pos : Z) (a : list amember) : list tinfo :=
  match a with
  | [] => []
  | m :: r => tinfo_of pos m :: tinfos (pos + 512 + zlen (a_data m)) r
  end.

Lemma zlen_member_bytes_h m : WFh m -> zlen (member_bytes m) = 512 + zlen (a_data m).
Proof. intros H. unfold member_bytes. rewrite zlen_app, (header_len m H). reflexivity. Qed.

Lemma zlen_member_bytes m : WF m -> zlen (member_bytes m) = 512 + zlen (a_data m).
Proof. intros H. apply zlen_member_bytes_h, wf_h, H. Qed.

Lemma load_render a : forall pre rest fuel tell e,
  Forall WF a ->
  frombuf true (rd rest 0 BLOCK) = HErr e ->
  (zlen pre = 0 -> a = [] -> e = EEof) ->
  (length a < fuel)%nat ->
  tell = zlen pre \/ zlen pre <> 0 ->
  load true (pre ++ render a ++ rest) fuel (zlen pre) tell = Done (tinfos (zlen pre) a).
Proof.
  induction a as [|m r IH]; intros pre rest fuel tell e Hwf Hstop He Hfuel Htell.
  - destruct fuel as [|fuel]; [cbn in Hfuel; lia|].
    cbn [render flat_map app load].
    rewrite next_at.
    2:{ destruct Htell as [->|Hne]; [left; reflexivity|right]. split; [exact Hne|].
        change blen with zlen. rewrite zlen_app. pose proof (zlen_nonneg rest). lia. }
    cbn [fromtarfile].
    assert (Hrd : rd (pre ++ rest) (zlen pre) BLOCK = rd rest 0 BLOCK).
    { unfold rd. rewrite slice_app_skip by lia. f_equal. lia. }
    rewrite Hrd, Hstop. cbn [next_result].
    destruct e; try reflexivity;
      (destruct (Z.eqb_spec (zlen pre) 0) as [Hz|_]; [specialize (He Hz eq_refl); discriminate|reflexivity]).
  - destruct fuel as [|fuel]; [cbn in Hfuel; lia|].
    inversion Hwf as [|? ? Hm Hr]; subst.
    cbn [render flat_map]. fold (render r).
    rewrite <- (app_assoc (member_bytes m) (render r) rest).
    cbn [load].
    rewrite next_at.
    2:{ destruct Htell as [->|Hne]; [left; reflexivity|right]. split; [exact Hne|].
        change blen with zlen. rewrite zlen_app. pose proof (zlen_nonneg (member_bytes m ++ render r ++ rest)). lia. }
    rewrite (fromtarfile_member pre m (render r ++ rest) fuel Hm). cbn [next_result].
    pose proof (zlen_member_bytes m Hm) as Hlen.
    pose proof (zlen_nonneg pre) as Hp. pose proof (zlen_nonneg (a_data m)) as Hd.
    rewrite (app_assoc pre (member_bytes m) (render r ++ rest)).
    replace (zlen pre + 512 + zlen (a_data m)) with (zlen (pre ++ member_bytes m))
      by (rewrite zlen_app; lia).
    rewrite (IH (pre ++ member_bytes m) rest fuel (zlen pre + 512) e Hr Hstop).
    + cbn [tinfos]. rewrite zlen_app, Hlen, Z.add_assoc. reflexivity.
    + intros Hz. rewrite zlen_app in Hz. lia.
    + cbn [length] in Hfuel. lia.
    + right. rewrite zlen_app. lia.
Qed.

Lemma zlen_render_ge a : Forall WF a -> 512 * Z.of_nat (length a) <= zlen (render a).
Proof.
  induction 1 as [|m r Hm Hr IH]; [cbn; lia|].
  cbn [render flat_map length]. fold (render r). rewrite zlen_app, (zlen_member_bytes m Hm).
  pose proof (zlen_nonneg (a_data m)). lia.
Qed.

Lemma wf_archiveb_Forall a : wf_archiveb a = true -> Forall WF a.
Proof.
  unfold wf_archiveb. rewrite forallb_forall, Forall_forall.
  intros H m Hm. apply wf_memberb_WF. now apply H.
Qed.

Lemma entries_of_tinfos a : forall pos, map entry_of_t (tinfos pos a) = listing pos a.
Proof. induction a as [|m r IH]; intros pos; cbn [tinfos listing map]; [reflexivity|]. now rewrite IH. Qed.

Theorem members_render a rest :
  wf_archiveb a = true -> stops a rest ->
  members true (render a ++ rest) = Done (tinfos 0 a).
Proof.
  intros Hwf (e & He & Hnil). apply wf_archiveb_Forall in Hwf.
  unfold members.
  apply (load_render a [] rest _ 0 e Hwf He).
  - intros _. exact Hnil.
  - unfold fuel_for. change blen with zlen. rewrite zlen_app.
    pose proof (zlen_render_ge a Hwf) as Hge. pose proof (zlen_nonneg rest) as Hr.
    assert (Z.of_nat (length a) <= (zlen (render a) + zlen rest) / BLOCK).
    { unfold BLOCK. apply Z.div_le_lower_bound; lia. }
    lia.
  - left. reflexivity.
Qed.

Theorem members_in_step a rest :
  wf_archiveb a = true -> stops a rest ->
  exists ms, members true (render a ++ rest) = Done ms /\ map entry_of_t ms = listing 0 a.
Proof.
  intros Hwf Hs. exists (tinfos 0 a). split; [now apply members_render|apply entries_of_tinfos].
Qed.

(* ------------------------------------------------------------------ extraction *)
Lemma extract_ok f t :
  has_data (t_type t) = true -> 0 <= t_size t -> t_data t + t_size t <= blen f ->
  extract f t = Done (Some (t_data t, t_size t)).
Proof.
  intros Hd Hs Hin. unfold extract. rewrite Hd.
  destruct (Z.ltb_spec (t_size t) 0); [lia|].
  destruct (Z.eqb_spec (t_size t) 0) as [->|_]; [reflexivity|].
  destruct (Z.leb_spec (t_data t + t_size t) (blen f)); [reflexivity|lia].
Qed.

Lemma tinfos_app a1 : forall a2 pos, Forall WF a1 ->
  tinfos pos (a1 ++ a2) = tinfos pos a1 ++ tinfos (pos + zlen (render a1)) a2.
Proof.
  induction a1 as [|m r IH]; intros a2 pos Hwf.
  - cbn. f_equal. lia.
  - inversion Hwf as [|? ? Hm Hr]; subst.
    cbn [app tinfos render flat_map]. fold (render r). rewrite (IH a2 _ Hr).
    rewrite zlen_app, (zlen_member_bytes m Hm). do 3 f_equal. lia.
Qed.

Lemma tinfos_length a : forall pos, length (tinfos pos a) = length a.
Proof. induction a as [|m r IH]; intros pos; cbn [tinfos length]; [reflexivity|now rewrite IH]. Qed.

Lemma tinfos_nth a1 m a2 : Forall WF a1 ->
  nth_error (tinfos 0 (a1 ++ m :: a2)) (length a1) = Some (tinfo_of (zlen (render a1)) m).
Proof.
  intros H. rewrite (tinfos_app a1 (m :: a2) 0 H).
  rewrite nth_error_app2 by (rewrite tinfos_length; lia).
  rewrite tinfos_length, Nat.sub_diag. reflexivity.
Qed.

Lemma render_app a1 a2 : render (a1 ++ a2) = render a1 ++ render a2.
Proof. unfold render. apply flat_map_app. Qed.

Lemma s_block_ge n : n <= s_block n.
Proof.
  unfold s_block. pose proof (Z.div_mod (n + 511) 512 ltac:(lia)).
  pose proof (Z.mod_pos_bound (n + 511) 512 ltac:(lia)). lia.
Qed.

Lemma Forall_app_inv {A} (P : A -> Prop) l1 l2 : Forall P (l1 ++ l2) -> Forall P l1 /\ Forall P l2.
Proof. apply Forall_app. Qed.

(* a member whose data is stored away extracts to the bytes at its recorded offset *)
Theorem extract_stored_away a1 m a2 rest :
  let a := a1 ++ m :: a2 in
  let f := render a ++ rest in
  wf_archiveb a = true -> stops a rest ->
  stored_away m = true -> s_has_data (spec_type m) = true ->
  a_voff m + a_size m <= zlen f ->
  exists ms t,
    members true f = Done ms /\ nth_error ms (length a1) = Some t /\
    entry_of_t t = entry_of (zlen (render a1)) m /\
    extract f t = Done (Some (a_voff m, a_size m)) /\
    plan_bytes f (a_voff m, a_size m) = slice f (a_voff m) (a_size m).
Proof.
  intros a f Hwf Hs Haway Hd Hin.
  pose proof (wf_archiveb_Forall _ Hwf) as HF.
  destruct (Forall_app_inv _ _ _ HF) as [HF1 HF2]. inversion HF2 as [|? ? Hm _]; subst.
  exists (tinfos 0 a), (tinfo_of (zlen (render a1)) m).
  split; [now apply members_render|]. split; [now apply tinfos_nth|].
  split; [reflexivity|]. split; [|reflexivity].
  pose proof (wf_size m (wf_h m Hm)).
  assert (E : tinfo_of (zlen (render a1)) m =
              mkt (spec_name m) (a_link m) (a_size m) (spec_type m) (zlen (render a1)) (a_voff m)
                  (a_visor m) (if a_visor m then a_text m else 0) (if a_visor m then a_fix m else 0)).
  { unfold tinfo_of. now rewrite Haway. }
  rewrite E. apply (extract_ok f); cbn [t_type t_size t_data]; [exact Hd|lia|exact Hin].
Qed.

(* a member whose data follows its header extracts to the content the writer put there *)
Theorem extract_inline a1 m a2 rest :
  let a := a1 ++ m :: a2 in
  let f := render a ++ rest in
  wf_archiveb a = true -> stops a rest ->
  stored_away m = false -> s_has_data (spec_type m) = true ->
  exists ms t,
    members true f = Done ms /\ nth_error ms (length a1) = Some t /\
    entry_of_t t = entry_of (zlen (render a1)) m /\
    extract f t = Done (Some (zlen (render a1) + 512, a_size m)) /\
    plan_bytes f (zlen (render a1) + 512, a_size m) = firstn (Z.to_nat (a_size m)) (a_data m).
Proof.
  intros a f Hwf Hs Haway Hd.
  pose proof (wf_archiveb_Forall _ Hwf) as HF.
  destruct (Forall_app_inv _ _ _ HF) as [HF1 HF2]. inversion HF2 as [|? ? Hm _]; subst.
  exists (tinfos 0 a), (tinfo_of (zlen (render a1)) m).
  split; [now apply members_render|]. split; [now apply tinfos_nth|].
  split; [reflexivity|].
  pose proof (wf_size m (wf_h m Hm)) as Hsz.
  (* the content lies inside the blocks that follow the header *)
  assert (Hfit : a_size m <= zlen (a_data m)).
  { rewrite (wf_data_len m Hm). unfold stored_away in Haway.
    destruct (a_visor m) eqn:Ev.
    - cbn [andb] in Haway. apply negb_false_iff in Haway.
      destruct (Z.eq_dec (a_size m) 0) as [->|Hn]; [lia|].
      exfalso. apply (wf_content m Hm Ev Hd ltac:(lia)). lia.
    - rewrite Hd. apply s_block_ge. }
  assert (Hf : f = (render a1 ++ header m) ++ a_data m ++ (render a2 ++ rest)).
  { unfold f, a. rewrite render_app. cbn [render flat_map]. fold (render a2). unfold member_bytes.
    rewrite <- !app_assoc. reflexivity. }
  assert (Hpos : zlen (render a1 ++ header m) = zlen (render a1) + 512).
  { rewrite zlen_app, (header_len m (wf_h m Hm)). reflexivity. }
  split.
  - assert (E : tinfo_of (zlen (render a1)) m =
              mkt (spec_name m) (a_link m) (a_size m) (spec_type m) (zlen (render a1)) (zlen (render a1) + 512)
                  (a_visor m) (if a_visor m then a_text m else 0) (if a_visor m then a_fix m else 0)).
    { unfold tinfo_of. now rewrite Haway. }
    rewrite E. apply (extract_ok f); cbn [t_type t_size t_data]; [exact Hd|lia|].
    change blen with zlen. rewrite Hf, zlen_app, Hpos, zlen_app.
    pose proof (zlen_nonneg (render a2 ++ rest)). lia.
  - unfold plan_bytes. cbn [fst snd]. rewrite Hf, <- Hpos.
    rewrite slice_app_skip by lia. rewrite Z.sub_diag.
    unfold slice. cbn [Z.to_nat skipn]. rewrite firstn_app.
    replace (Z.to_nat (a_size m) - length (a_data m))%nat with 0%nat by (unfold zlen in Hfit; lia).
    cbn [firstn]. apply app_nil_r.
Qed.

(* ------------------------------------------------------------------ without visor magic: the standard reader *)
Lemma frombuf_std_not_visor buf h : frombuf_std buf = HOk h -> h_visor h = false /\ h_voff h = 0.
Proof.
  unfold frombuf_std.
  repeat match goal with
         | |- context [if ?c then _ else _] => destruct c
         | |- context [match ?x with _ => _ end] => destruct x
         end; try discriminate; intros [= <-]; split; reflexivity.
Qed.

Lemma skip_cond_not_visor va h : h_visor h = false -> skip_cond va h = false.
Proof.
  intros Hv. unfold skip_cond, Gen.VmTar.vmtar_skip_cond. rewrite Hv. cbn [andb]. apply andb_false_r.
Qed.

Lemma fromtarfile_plain f : no_visor_magic f ->
  forall fuel tell, fromtarfile true f fuel tell = fromtarfile false f fuel tell.
Proof.
  intros Hno. induction fuel as [|fuel IH]; intros tell; [reflexivity|].
  cbn [fromtarfile].
  assert (E : frombuf true (rd f tell BLOCK) = frombuf false (rd f tell BLOCK)).
  { unfold frombuf, frombuf_visor. destruct (frombuf_std (rd f tell BLOCK)); try reflexivity.
    now rewrite (Hno tell). }
  rewrite E. destruct (frombuf false (rd f tell BLOCK)) as [h| | |] eqn:Eh; try reflexivity.
  cbn [frombuf] in Eh. destruct (frombuf_std_not_visor _ _ Eh) as [Hv _].
  rewrite !(skip_cond_not_visor _ h Hv). rewrite IH. reflexivity.
Qed.

Lemma load_plain f : no_visor_magic f ->
  forall fuel offset tell, load true f fuel offset tell = load false f fuel offset tell.
Proof.
  intros Hno. induction fuel as [|fuel IH]; intros offset tell; [reflexivity|].
  cbn [load]. unfold next. rewrite !(fromtarfile_plain f Hno).
  destruct (if offset =? tell then _ else _); try reflexivity. now rewrite IH.
Qed.

Theorem plain_tar_unchanged f : no_visor_magic f -> members true f = members false f.
Proof. intros H. unfold members. apply load_plain. exact H. Qed.

(* ------------------------------------------------------------------ progress on arbitrary bytes *)
Lemma frombuf_std_len buf h : frombuf_std buf = HOk h -> blen buf = BLOCK.
Proof.
  unfold frombuf_std. destruct (blen buf =? 0); [discriminate|].
  destruct (Z.eqb_spec (blen buf) BLOCK) as [E|E]; cbn [negb]; [intros _; exact E|discriminate].
Qed.

Lemma frombuf_len va buf h : frombuf va buf = HOk h -> blen buf = BLOCK.
Proof.
  unfold frombuf, frombuf_visor. destruct va; [|apply frombuf_std_len].
  destruct (frombuf_std buf) as [h0| | |] eqn:E; try discriminate.
  intros _. exact (frombuf_std_len _ _ E).
Qed.

Lemma rd_full f tell : blen (rd f tell BLOCK) = BLOCK -> tell + BLOCK <= blen f.
Proof. intros H. apply (slice_full_length f tell BLOCK); [unfold BLOCK; lia|exact H]. Qed.

Lemma blen_nonneg l : 0 <= blen l.
Proof. unfold blen. lia. Qed.

Lemma fromtarfile_bounds va f : forall fuel tell t tl o,
  fromtarfile va f fuel tell = POk t tl o -> tell + BLOCK <= blen f /\ tell + BLOCK <= o.
Proof.
  induction fuel as [|fuel IH]; intros tell t tl o; [discriminate|].
  cbn [fromtarfile].
  destruct (frombuf va (rd f tell BLOCK)) as [h| | |] eqn:Eh; try discriminate.
  pose proof (frombuf_len _ _ _ Eh) as Hl. pose proof (rd_full f tell Hl) as Hfull. rewrite Hl.
  destruct (skip_cond va h).
  { intros [= _ _ <-]. unfold BLOCK in *. lia. }
  destruct ((h_type h =? GNUTYPE_LONGNAME) || (h_type h =? GNUTYPE_LONGLINK)).
  { destruct (h_size h <? 0); [discriminate|].
    destruct (fromtarfile va f fuel _) as [t' tl' o'| | | | |] eqn:Er; try discriminate.
    intros [= _ _ <-]. destruct (IH _ _ _ _ Er) as [_ Ho].
    pose proof (blen_nonneg (rd f (tell + BLOCK) (Z.min (block (h_size h)) (blen f)))). split; [exact Hfull|unfold BLOCK in *; lia]. }
  destruct (mem (h_type h) _); [discriminate|].
  destruct ((h_size h <? 0) && has_data (h_type h)) eqn:Eneg; [discriminate|].
  intros [= _ _ <-]. split; [exact Hfull|].
  destruct (has_data (h_type h)); [|unfold BLOCK in *; lia].
  rewrite andb_true_r in Eneg. apply Z.ltb_ge in Eneg.
  pose proof (block_nonneg _ Eneg). unfold BLOCK in *. lia.
Qed.

Lemma fromtarfile_fuel va f : forall fuel tell,
  Z.max 0 (blen f - tell) < BLOCK * Z.of_nat fuel -> fromtarfile va f fuel tell <> PFuel.
Proof.
  induction fuel as [|fuel IH]; intros tell Hf; [unfold BLOCK in Hf; lia|].
  cbn [fromtarfile].
  destruct (frombuf va (rd f tell BLOCK)) as [h| | |] eqn:Eh; try discriminate.
  pose proof (frombuf_len _ _ _ Eh) as Hl. pose proof (rd_full f tell Hl) as Hfull. rewrite Hl.
  destruct (skip_cond va h); [discriminate|].
  destruct ((h_type h =? GNUTYPE_LONGNAME) || (h_type h =? GNUTYPE_LONGLINK)).
  { destruct (h_size h <? 0); [discriminate|].
    pose proof (blen_nonneg (rd f (tell + BLOCK) (Z.min (block (h_size h)) (blen f)))) as Hb.
    specialize (IH (tell + BLOCK + blen (rd f (tell + BLOCK) (Z.min (block (h_size h)) (blen f))))).
    destruct (fromtarfile va f fuel _) eqn:Er; try discriminate.
    exfalso. apply IH; [|reflexivity]. unfold BLOCK in *. lia. }
  destruct (mem (h_type h) _); [discriminate|].
  destruct ((h_size h <? 0) && has_data (h_type h)); discriminate.
Qed.

Lemma load_fuel va f : forall fuel offset tell,
  Z.max 0 (blen f - offset) < BLOCK * Z.of_nat fuel -> load va f fuel offset tell <> NoFuel.
Proof.
  induction fuel as [|fuel IH]; intros offset tell Hf; [unfold BLOCK in Hf; lia|].
  cbn [load].
  assert (Hn : next va f (S fuel) offset tell = NEnd \/ next va f (S fuel) offset tell = NReadError \/
               next va f (S fuel) offset tell = next_result offset (fromtarfile va f (S fuel) offset)).
  { unfold next. destruct (Z.eqb_spec offset tell) as [->|_]; [right; right; reflexivity|].
    destruct (offset =? 0) eqn:E0; [left; reflexivity|].
    destruct (blen f <=? offset - 1); [right; left; reflexivity|].
    right; right. unfold next_result. rewrite E0. reflexivity. }
  destruct Hn as [-> | [-> | ->]]; try discriminate.
  pose proof (fromtarfile_fuel va f (S fuel) offset Hf) as Hnf.
  destruct (fromtarfile va f (S fuel) offset) as [t tl o|e| | | |] eqn:Er; cbn [next_result]; try discriminate.
  - destruct (fromtarfile_bounds va f _ _ _ _ _ Er) as [H1 H2].
    specialize (IH o tl). destruct (load va f fuel o tl); try discriminate.
    apply IH. unfold BLOCK in *. lia.
  - destruct e; try discriminate; destruct (offset =? 0); discriminate.
  - congruence.
Qed.

Theorem members_terminate va f : members va f <> NoFuel.
Proof.
  unfold members. apply load_fuel. unfold fuel_for, BLOCK.
  pose proof (blen_nonneg f) as Hb.
  pose proof (Z.div_mod (blen f) 512 ltac:(lia)). pose proof (Z.mod_pos_bound (blen f) 512 ltac:(lia)).
  assert (0 <= blen f / 512) by (apply Z.div_pos; lia). lia.
Qed.

(* ------------------------------------------------------------------ non-vacuity *)
Definition ex_dir : amember :=
  mkam true [116; 47] [] 53 0 [] 509 0 0 0 0 0 (visor7 ++ [0]) [] [] 0 0 0 0 [].
Definition ex_file2 : amember :=      (* visor, 5 bytes stored at 2055 (unaligned, after ex_file1's area) *)
  mkam true [116; 47; 98] [112] 48 5 [] 420 0 0 0 0 0 (visor7 ++ [0]) [] [] 2055 0 1 2 [].
Definition ex_std : amember :=        (* standard member with 3 bytes inline *)
  mkam false [115] [] 48 3 [] 420 0 0 0 0 0 [117; 115; 116; 97; 114; 0; 48; 48] [] [] 0 0 0 0
       ([1; 2; 3] ++ repeat 0 509).
Definition ex_file1 : amember :=      (* visor, 7 bytes stored at 2048: listed after file2, stored before it *)
  mkam true [116; 47; 97] [] 48 7 [] 420 0 0 0 0 0 (visor7 ++ [0]) [] [] 2048 0 0 0 [].
Definition ex_archive : list amember := [ex_dir; ex_file2; ex_std; ex_file1].
Definition ex_rest : list Z := repeat 0 512 ++ [10; 11; 12; 13; 14; 15; 16; 20; 21; 22; 23; 24].

Lemma ex_wf : wf_archiveb ex_archive = true.
Proof. vm_compute. reflexivity. Qed.

Lemma ex_stops : stops ex_archive ex_rest.
Proof. exists EEof. split; [vm_compute; reflexivity|discriminate]. Qed.

Lemma ex_run :
  run true (render ex_archive ++ ex_rest) =
  Done [ (([116], [], (53, 0, 0, 512), (true, 0, 0)), Done None);
         (([112; 47; 116; 47; 98], [], (48, 5, 512, 2055), (true, 1, 2)), Done (Some (2055, 5)));
         (([115], [], (48, 3, 1024, 1536), (false, 0, 0)), Done (Some (1536, 3)));
         (([116; 47; 97], [], (48, 7, 2048, 2048), (true, 0, 0)), Done (Some (2048, 7))) ].
Proof. vm_compute. reflexivity. Qed.

(* ------------------------------------------------------------------ long name / long link records *)
Fixpoint tinfo_item (pos : Z) (it : item) : tinfo :=
  match it with
  | IMember m => tinfo_of pos m
  | ILong r next =>
    let t := tinfo_item (pos + 512 + zlen (a_data r)) next in
    let str := nts (a_data r) in
    let name := if a_type r =? GNUTYPE_LONGNAME then str else t_name t in
    let link := if a_type r =? GNUTYPE_LONGLINK then str else t_link t in
    let name' := if t_type t =? DIRTYPE then removesuffix_slash name else name in
    mkt name' link (t_size t) (t_type t) pos (t_data t) (t_visor t) (t_text t) (t_fix t)
  end.

Fixpoint item_tell (pos : Z) (it : item) : Z :=
  match it with
  | IMember _ => pos + 512
  | ILong r next => item_tell (pos + 512 + zlen (a_data r)) next
  end.

Fixpoint hdr_count (it : item) : nat :=
  match it with IMember _ => 1%nat | ILong _ next => S (hdr_count next) end.

Inductive WFI : item -> Prop :=
| WFI_member m : WF m -> WFI (IMember m)
| WFI_long r next : WFR r -> WFI next -> WFI (ILong r next).

Lemma wf_itemb_WFI it : wf_itemb it = true -> WFI it.
Proof.
  induction it as [m|r next IH]; cbn [wf_itemb]; intros H.
  - constructor. now apply wf_memberb_WF.
  - apply andb_true_iff in H as [Hr Hn]. constructor; [now apply wf_recordb_WFR|now apply IH].
Qed.

Lemma item_len_render it : WFI it -> zlen (render_item it) = item_len it.
Proof.
  induction 1 as [m Hm|r next Hr Hn IH]; cbn [render_item item_len].
  - apply zlen_member_bytes. exact Hm.
  - rewrite zlen_app, (zlen_member_bytes_h r (wfr_h r Hr)), IH. lia.
Qed.

Lemma record_spec_type r : WFR r -> spec_type r = a_type r.
Proof.
  intros H. unfold spec_type. destruct (wfr_type r H) as [-> | ->]; reflexivity.
Qed.

Lemma fromtarfile_item it : forall pre post fuel, WFI it -> (hdr_count it <= fuel)%nat ->
  fromtarfile true (pre ++ render_item it ++ post) fuel (zlen pre)
  = POk (tinfo_item (zlen pre) it) (item_tell (zlen pre) it) (zlen pre + item_len it).
Proof.
  induction it as [m|r next IH]; intros pre post fuel Hwf Hfuel.
  - inversion Hwf as [? Hm|]; subst. cbn [hdr_count] in Hfuel.
    destruct fuel as [|fuel]; [lia|].
    cbn [render_item tinfo_item item_tell item_len].
    rewrite (fromtarfile_member pre m post fuel Hm). now rewrite Z.add_assoc.
  - inversion Hwf as [|? ? Hr Hn]; subst. cbn [hdr_count] in Hfuel.
    destruct fuel as [|fuel]; [lia|].
    pose proof (wfr_h r Hr) as Hh.
    cbn [render_item]. rewrite <- (app_assoc (member_bytes r) (render_item next) post).
    cbn [fromtarfile].
    rewrite (rd_header pre r (render_item next ++ post) Hh). change (blen (header r)) with (zlen (header r)).
    rewrite (header_len r Hh), (frombuf_header r Hh), skip_cond_vhdr, (wfr_inline r Hr).
    replace (zlen pre + 512 - BLOCK) with (zlen pre) by (unfold BLOCK; lia).
    assert (Hty : h_type (vhdr_of r) = a_type r).
    { rewrite <- (record_spec_type r Hr). unfold vhdr_of; destruct (a_visor r); reflexivity. }
    assert (Hsz : h_size (vhdr_of r) = a_size r) by (unfold vhdr_of; destruct (a_visor r); reflexivity).
    rewrite Hty, Hsz.
    assert (Hlk : (a_type r =? GNUTYPE_LONGNAME) || (a_type r =? GNUTYPE_LONGLINK) = true).
    { destruct (wfr_type r Hr) as [-> | ->]; reflexivity. }
    rewrite Hlk.
    pose proof (wf_size r Hh) as Hsize.
    destruct (Z.ltb_spec (a_size r) 0) as [Hneg|_]; [lia|].
    (* the record's blocks *)
    assert (Hblk : block (a_size r) = zlen (a_data r)).
    { rewrite block_eq by lia. symmetry. apply (wfr_data_len r Hr). }
    assert (Hbuf : rd (pre ++ member_bytes r ++ render_item next ++ post) (zlen pre + 512)
                      (Z.min (block (a_size r)) (blen (pre ++ member_bytes r ++ render_item next ++ post))) = a_data r).
    { rewrite Z.min_l.
      2:{ change blen with zlen. rewrite Hblk, !zlen_app. unfold member_bytes. rewrite zlen_app.
          pose proof (zlen_nonneg pre). pose proof (zlen_nonneg (header r)).
          pose proof (zlen_nonneg (render_item next)). pose proof (zlen_nonneg post). lia. }
      unfold rd, member_bytes. rewrite Hblk, <- (app_assoc (header r)), (app_assoc pre (header r)).
      replace (zlen pre + 512) with (zlen (pre ++ header r)) by (rewrite zlen_app, (header_len r Hh); reflexivity).
      apply slice_app_exact. }
    rewrite Hbuf. change (blen (a_data r)) with (zlen (a_data r)).
    (* the header that follows the record *)
    pose proof (zlen_member_bytes_h r Hh) as Hmb.
    rewrite (app_assoc pre (member_bytes r) (render_item next ++ post)).
    replace (zlen pre + 512 + zlen (a_data r)) with (zlen (pre ++ member_bytes r)) by (rewrite zlen_app; lia).
    rewrite (IH (pre ++ member_bytes r) post fuel Hn ltac:(lia)).
    cbn [tinfo_item item_tell item_len].
    rewrite zlen_app, Hmb.
    replace (zlen pre + (512 + zlen (a_data r))) with (zlen pre + 512 + zlen (a_data r)) by lia.
    f_equal. lia.
Qed.

Fixpoint tinfos_items (pos : Z) (l : list item) : list tinfo :=
  match l with
  | [] => []
  | it :: r => tinfo_item pos it :: tinfos_items (pos + item_len it) r
  end.

Fixpoint hdr_total (l : list item) : nat :=
  match l with [] => 0%nat | it :: r => (hdr_count it + hdr_total r)%nat end.

Lemma hdr_count_pos it : (1 <= hdr_count it)%nat.
Proof. destruct it; cbn; lia. Qed.

Lemma item_len_ge it : WFI it -> 512 * Z.of_nat (hdr_count it) <= item_len it.
Proof.
  induction 1 as [m Hm|r next Hr Hn IH]; cbn [item_len hdr_count].
  - pose proof (zlen_nonneg (a_data m)). lia.
  - pose proof (zlen_nonneg (a_data r)). lia.
Qed.

Lemma load_render_items l : forall pre rest fuel tell e,
  Forall WFI l ->
  frombuf true (rd rest 0 BLOCK) = HErr e ->
  (zlen pre = 0 -> l = [] -> e = EEof) ->
  (hdr_total l < fuel)%nat ->
  tell = zlen pre \/ zlen pre <> 0 ->
  load true (pre ++ render_items l ++ rest) fuel (zlen pre) tell = Done (tinfos_items (zlen pre) l).
Proof.
  induction l as [|it r IH]; intros pre rest fuel tell e Hwf Hstop He Hfuel Htell.
  - destruct fuel as [|fuel]; [cbn in Hfuel; lia|].
    cbn [render_items flat_map app load].
    rewrite next_at.
    2:{ destruct Htell as [->|Hne]; [left; reflexivity|right]. split; [exact Hne|].
        change blen with zlen. rewrite zlen_app. pose proof (zlen_nonneg rest). lia. }
    cbn [fromtarfile].
    assert (Hrd : rd (pre ++ rest) (zlen pre) BLOCK = rd rest 0 BLOCK).
    { unfold rd. rewrite slice_app_skip by lia. f_equal. lia. }
    rewrite Hrd, Hstop. cbn [next_result].
    destruct e; try reflexivity;
      (destruct (Z.eqb_spec (zlen pre) 0) as [Hz|_]; [specialize (He Hz eq_refl); discriminate|reflexivity]).
  - destruct fuel as [|fuel]; [cbn in Hfuel; lia|].
    inversion Hwf as [|? ? Hit Hr]; subst.
    cbn [render_items flat_map]. fold (render_items r).
    rewrite <- (app_assoc (render_item it) (render_items r) rest).
    cbn [load].
    pose proof (item_len_render it Hit) as Hlen.
    pose proof (item_len_ge it Hit) as Hge. pose proof (hdr_count_pos it) as Hc.
    cbn [hdr_total] in Hfuel.
    rewrite next_at.
    2:{ destruct Htell as [->|Hne]; [left; reflexivity|right]. split; [exact Hne|].
        change blen with zlen. rewrite zlen_app.
        pose proof (zlen_nonneg (render_item it ++ render_items r ++ rest)). lia. }
    rewrite (fromtarfile_item it pre (render_items r ++ rest) (S fuel) Hit ltac:(lia)). cbn [next_result].
    pose proof (zlen_nonneg pre) as Hp.
    rewrite (app_assoc pre (render_item it) (render_items r ++ rest)).
    replace (zlen pre + item_len it) with (zlen (pre ++ render_item it)) by (rewrite zlen_app; lia).
    rewrite (IH (pre ++ render_item it) rest fuel (item_tell (zlen pre) it) e Hr Hstop).
    + cbn [tinfos_items]. rewrite zlen_app, Hlen. reflexivity.
    + intros Hz. rewrite zlen_app in Hz. lia.
    + lia.
    + right. rewrite zlen_app. lia.
Qed.

Lemma zlen_render_items_ge l : Forall WFI l -> 512 * Z.of_nat (hdr_total l) <= zlen (render_items l).
Proof.
  induction 1 as [|it r Hit Hr IH]; [cbn; lia|].
  cbn [render_items flat_map hdr_total]. fold (render_items r).
  rewrite zlen_app, (item_len_render it Hit). pose proof (item_len_ge it Hit). lia.
Qed.

Lemma wf_itemsb_Forall l : wf_itemsb l = true -> Forall WFI l.
Proof.
  unfold wf_itemsb. rewrite forallb_forall, Forall_forall.
  intros H it Hit. apply wf_itemb_WFI. now apply H.
Qed.

Lemma entry_of_tinfo_item it : forall pos, entry_of_t (tinfo_item pos it) = entry_item pos it.
Proof.
  induction it as [m|r next IH]; intros pos; [reflexivity|].
  cbn [tinfo_item entry_item]. rewrite <- IH. reflexivity.
Qed.

Lemma entries_of_tinfos_items l : forall pos, map entry_of_t (tinfos_items pos l) = listing_items pos l.
Proof.
  induction l as [|it r IH]; intros pos; cbn [tinfos_items listing_items map]; [reflexivity|].
  now rewrite entry_of_tinfo_item, IH.
Qed.

Theorem members_in_step_items l rest :
  wf_itemsb l = true -> stops l rest ->
  exists ms, members true (render_items l ++ rest) = Done ms /\ map entry_of_t ms = listing_items 0 l.
Proof.
  intros Hwf (e & He & Hnil). apply wf_itemsb_Forall in Hwf.
  exists (tinfos_items 0 l). split; [|apply entries_of_tinfos_items].
  unfold members.
  apply (load_render_items l [] rest _ 0 e Hwf He).
  - intros _. exact Hnil.
  - unfold fuel_for. change blen with zlen. rewrite zlen_app.
    pose proof (zlen_render_items_ge l Hwf) as Hge. pose proof (zlen_nonneg rest) as Hr.
    assert (Z.of_nat (hdr_total l) <= (zlen (render_items l) + zlen rest) / BLOCK).
    { unfold BLOCK. apply Z.div_le_lower_bound; lia. }
    lia.
  - left. reflexivity.
Qed.

(* extraction of any listed member, in terms of what was listed *)
Theorem extract_listed f t :
  has_data (t_type t) = true -> 0 <= t_size t -> t_data t + t_size t <= blen f ->
  extract f t = Done (Some (t_data t, t_size t)) /\
  plan_bytes f (t_data t, t_size t) = slice f (t_data t) (t_size t).
Proof. intros H1 H2 H3. split; [now apply extract_ok|reflexivity]. Qed.

(* non-vacuity for records: a long name on a visor file whose data is stored away, and a long link *)
Definition ex_longname : list Z := repeat 110 120 ++ [47; 120].
Definition ex_record : amember :=
  mkam true [46; 47; 46; 47; 64; 76; 111; 110; 103; 76; 105; 110; 107] [] 76 123 [] 420 0 0 0 0 0 (visor7 ++ [0]) [] [] 0 0 0 0
       (ex_longname ++ repeat 0 (512 - 122)).
Definition ex_items : list item := [IMember ex_dir; ILong ex_record (IMember ex_file2); IMember ex_std; IMember ex_file1].
Definition ex_items_rest : list Z := repeat 0 512 ++ repeat 7 2000.

Lemma ex_items_wf : wf_itemsb ex_items = true.
Proof. vm_compute. reflexivity. Qed.
Lemma ex_items_stops : stops ex_items ex_items_rest.
Proof. exists EEof. split; [vm_compute; reflexivity|discriminate]. Qed.
Lemma ex_items_names :
  match members true (render_items ex_items ++ ex_items_rest) with
  | Done ms => map (fun t => (length (t_name t), t_off t, t_data t)) ms
  | _ => []
  end = [(1%nat, 0, 512); (122%nat, 512, 2055); (1%nat, 2048, 2560); (3%nat, 3072, 2048)].
Proof. vm_compute. reflexivity. Qed.

Lemma header_roundtrip m : wf_hdrb m = true ->
  frombuf true (header m) =
  HOk (mkhdr (spec_name m) (a_link m) (a_size m) (spec_type m) (a_visor m)
             (if a_visor m then a_voff m else 0) (if a_visor m then a_text m else 0)
             (if a_visor m then a_fix m else 0)).
Proof.
  intros H. rewrite (frombuf_header m (wf_hdrb_WFh m H)).
  unfold vhdr_of, hdr_of. destruct (a_visor m); reflexivity.
Qed.

(* a member whose data range is cut off by the end of the file is refused, never returned short *)
Lemma extract_short f t :
  has_data (t_type t) = true -> 0 < t_size t -> blen f < t_data t + t_size t -> extract f t = Raises.
Proof.
  intros Hd Hs Hcut. unfold extract. rewrite Hd.
  destruct (Z.ltb_spec (t_size t) 0); [lia|].
  destruct (Z.eqb_spec (t_size t) 0); [lia|].
  destruct (Z.leb_spec (t_data t + t_size t) (blen f)); [lia|reflexivity].
Qed.

(* the hand-written tables of the tarfile model are those of the tarfile module in use *)
Lemma tarfile_tables :
  SUPPORTED_TYPES = Gen.VmTar.tarfile_SUPPORTED_TYPES /\ REGULAR_TYPES = Gen.VmTar.tarfile_REGULAR_TYPES /\
  GNU_TYPES = Gen.VmTar.tarfile_GNU_TYPES /\ [XHDTYPE; XGLTYPE; SOLARIS_XHDTYPE] = Gen.VmTar.tarfile_PAX_TYPES /\
  BLOCK = Gen.VmTar.tarfile_BLOCKSIZE /\ DIRTYPE = Gen.VmTar.tarfile_DIRTYPE /\ AREGTYPE = Gen.VmTar.tarfile_AREGTYPE /\
  GNUTYPE_LONGNAME = Gen.VmTar.tarfile_GNUTYPE_LONGNAME /\ GNUTYPE_LONGLINK = Gen.VmTar.tarfile_GNUTYPE_LONGLINK /\
  GNUTYPE_SPARSE = Gen.VmTar.tarfile_GNUTYPE_SPARSE /\ LNKTYPE = Gen.VmTar.tarfile_LNKTYPE /\ SYMTYPE = Gen.VmTar.tarfile_SYMTYPE.
Proof. repeat split; reflexivity. Qed.
