(* Proofs/Io.v — I/O is proportional to the request: bytes fetched <= bytes returned <= request
   (+ one sector of rounding), table look-ups <= len/unit + 2; neither bound mentions the table
   contents, the file length or the amount of allocated data. *)
From Coq Require Import ZArith List Bool Lia.
From DH Require Import Base.Arith Base.Plan Base.Table Model.Walk Model.Io Proofs.BlockMapped
  Model.Vhd Proofs.Vhd Model.Vdi Proofs.Vdi Model.Vhdx Proofs.Vhdx Model.Hds Proofs.Hds Proofs.StreamReaders.
Import ListNotations.
Open Scope Z_scope.

Lemma filter_length_le {A} (f : A -> bool) l : (length (filter f l) <= length l)%nat.
Proof. induction l as [|a l IH]; cbn; [lia|]. destruct (f a); cbn; lia. Qed.

Lemma io_bytes_le_len p (g : Z -> src) off T :
  0 <= T -> srcs_of p = map g (zseq off T) -> 0 <= io_bytes p <= T.
Proof.
  intros HT Hs. unfold io_bytes. pose proof (filter_length_le is_file_src (srcs_of p)) as Hle.
  rewrite Hs, map_length in Hle. pose proof (zseq_length off T HT). rewrite Hs. lia.
Qed.

(* any reader meeting the stream contract fetches at most what it returns, and returns at most
   the request rounded up to the alignment it was asked with *)
Theorem contract_io_bound size align bread gsrc :
  reader_contract size align bread gsrc ->
  forall off len, 0 <= off < size -> off mod align = 0 -> 0 < len -> len mod align = 0 -> off + len <= size ->
  exists p, bread off len = Ok p /\ 0 <= io_bytes p <= len.
Proof.
  intros Hc off len H1 H2 H3 H4 Hin.
  destruct (Hc off len H1 H2 H3 H4) as (p & T & Hp & Hs & HT & Hex).
  exists p. split; [exact Hp|]. rewrite (Hex Hin) in *. apply (io_bytes_le_len p gsrc off len); [lia|exact Hs].
Qed.

(* table look-ups: at most len/U + 2 iterations, whatever the table holds *)
Lemma walk_steps_aligned U : 0 < U -> forall fuel off len,
  off mod U = 0 -> 0 <= len -> walk_steps U fuel off len <= (len + U - 1) / U.
Proof.
  intros HU. induction fuel as [|fuel IH]; intros off len Hal Hlen; cbn [walk_steps].
  - destruct (len <=? 0); apply Z.div_pos; lia.
  - destruct (Z.leb_spec len 0) as [Hl|Hl]; [apply Z.div_pos; lia|].
    rewrite Hal, Z.sub_0_r.
    destruct (Z.min_spec len U) as [[Hlt ->]|[Hge ->]].
    + replace (len - len) with 0 by lia.
      assert (walk_steps U fuel (off + len) 0 = 0) by (destruct fuel; reflexivity).
      assert (1 <= (len + U - 1) / U) by (apply Z.div_le_lower_bound; lia). lia.
    + assert (Hal' : (off + U) mod U = 0).
      { rewrite Z.add_mod, Hal, Z.mod_same, Z.add_0_l by lia. apply Z.mod_0_l. lia. }
      specialize (IH (off + U) (len - U) Hal' ltac:(lia)).
      replace (len + U - 1) with ((len - U + U - 1) + 1 * U) by lia.
      rewrite Z.div_add by lia. lia.
Qed.

Theorem walk_steps_bound U : 0 < U -> forall fuel off len,
  0 <= off -> 0 <= len -> walk_steps U fuel off len <= len / U + 2.
Proof.
  intros HU fuel off len Hoff Hlen. destruct fuel as [|fuel]; cbn [walk_steps].
  - destruct (len <=? 0); assert (0 <= len / U) by (apply Z.div_pos; lia); lia.
  - destruct (Z.leb_spec len 0) as [Hl|Hl]; [assert (0 <= len / U) by (apply Z.div_pos; lia); lia|].
    pose proof (Z.mod_pos_bound off U HU) as Hm.
    set (n := Z.min len (U - off mod U)).
    assert (Hn : 0 < n <= len) by (subst n; lia).
    destruct (Z.eq_dec n len) as [E|E].
    + rewrite E. replace (len - len) with 0 by lia.
      assert (walk_steps U fuel (off + len) 0 = 0) by (destruct fuel; reflexivity).
      assert (0 <= len / U) by (apply Z.div_pos; lia). lia.
    + assert (Hn' : n = U - off mod U) by (subst n; lia).
      assert (Hal : (off + n) mod U = 0).
      { rewrite Hn'. replace (off + (U - off mod U)) with ((off - off mod U) + U) by lia.
        pose proof (Z.div_mod off U ltac:(lia)).
        replace (off - off mod U) with (off / U * U) by lia.
        rewrite Z.add_mod, Z.mod_mul, Z.mod_same, Z.add_0_l by lia. apply Z.mod_0_l. lia. }
      pose proof (walk_steps_aligned U HU fuel (off + n) (len - n) Hal ltac:(lia)) as Hs.
      assert ((len - n + U - 1) / U <= len / U + 1).
      { replace (len / U + 1) with ((len + 1 * U) / U) by (rewrite Z.div_add; lia).
        apply Z.div_le_mono; lia. }
      lia.
Qed.

(* per reader, as corollaries *)
Theorem vhd_io_bound d off len :
  wf_dyn d -> 0 <= off < d_size d -> off mod 512 = 0 -> 0 < len -> len mod 512 = 0 -> off + len <= d_size d ->
  exists p, dyn_read d (fuel_for (cdiv (Z.min len (d_size d - off)) SECTOR)) off len = Ok p /\ 0 <= io_bytes p <= len.
Proof.
  intros Hwf H1 H2 H3 H4 H5.
  exact (contract_io_bound _ 512 _ _ (vhd_dyn_contract d 512 Hwf ltac:(lia) eq_refl) off len H1 H2 H3 H4 H5).
Qed.

Theorem vdi_io_bound v off len :
  0 < v_bs v -> vdi_wf v -> 0 <= off < v_size v -> 0 < len -> off + len <= v_size v ->
  exists p, vdi_read v (vdi_fuel len) off len = Ok p /\ 0 <= io_bytes p <= len.
Proof.
  intros Hbs Hwf H1 H3 H5.
  exact (contract_io_bound _ 1 _ _ (vdi_contract v 1 Hbs Hwf Z.lt_0_1) off len H1 (Z.mod_1_r _) H3 (Z.mod_1_r _) H5).
Qed.

Theorem hds_io_bound h off len :
  0 < h_cs h -> hds_wf h -> 0 <= off < h_size h -> 0 < len -> off + len <= h_size h ->
  exists p, hds_read h (hds_fuel len) off len = Ok p /\ 0 <= io_bytes p <= len.
Proof.
  intros Hcs Hwf H1 H3 H5.
  exact (contract_io_bound _ 1 _ _ (hds_contract h 1 Hcs Hwf Z.lt_0_1) off len H1 (Z.mod_1_r _) H3 (Z.mod_1_r _) H5).
Qed.

Theorem vhdx_io_bound x off len :
  geom_ok x -> states_ok x -> vhdx_wf_nodiff x ->
  0 <= off < x_size x -> off mod x_ss x = 0 -> 0 < len -> len mod x_ss x = 0 -> off + len <= x_size x ->
  exists p, vhdx_read x (vhdx_fuel (cdiv (Z.min len (x_size x - off)) (x_ss x))) off len = Ok p /\
            0 <= io_bytes p <= len.
Proof.
  intros Hg Hst Hwf H1 H2 H3 H4 H5. pose proof Hg as (Hss & _).
  assert (Hms : x_ss x mod x_ss x = 0) by (apply Z.mod_same; lia).
  exact (contract_io_bound _ (x_ss x) _ _ (vhdx_contract x (x_ss x) Hg Hst Hwf Hss Hms) off len H1 H2 H3 H4 H5).
Qed.
