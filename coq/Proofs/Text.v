(* Proofs/Text.v — facts about the string functions of Model/Text.v. *)
From Coq Require Import ZArith List Bool Lia Permutation Sorted.
Import ListNotations.
Open Scope Z_scope.
From DH Require Import Model.Text.

(* ---------- equality ---------- *)
Lemma str_eqb_eq a b : str_eqb a b = true <-> a = b.
Proof.
  revert b; induction a as [|x a IH]; intros [|y b]; simpl; split; intros H; try reflexivity; try discriminate.
  - apply andb_true_iff in H as [H1 H2]. apply Z.eqb_eq in H1. apply IH in H2. now subst.
  - injection H as -> ->. rewrite Z.eqb_refl. now apply IH.
Qed.

Lemma str_eqb_refl a : str_eqb a a = true.
Proof. now apply str_eqb_eq. Qed.

Lemma str_eqb_neq a b : str_eqb a b = false <-> a <> b.
Proof.
  split.
  - intros H E. apply str_eqb_eq in E. congruence.
  - intros H. destruct (str_eqb a b) eqn:E; [|reflexivity]. apply str_eqb_eq in E. contradiction.
Qed.

Lemma str_eqb_sym a b : str_eqb a b = str_eqb b a.
Proof.
  destruct (str_eqb a b) eqn:E.
  - apply str_eqb_eq in E. subst. symmetry. apply str_eqb_refl.
  - symmetry. apply str_eqb_neq. apply str_eqb_neq in E. congruence.
Qed.

Lemma str_eq_dec (a b : str) : {a = b} + {a <> b}.
Proof. apply (list_eq_dec Z.eq_dec). Qed.

(* ---------- membership in a character set ---------- *)
Lemma memz_In cs c : memz cs c = true <-> In c cs.
Proof.
  unfold memz. rewrite existsb_exists. split.
  - intros (x & Hx & E). apply Z.eqb_eq in E. now subst.
  - intros H. exists c. split; [assumption|apply Z.eqb_refl].
Qed.

Lemma memz_self cs : forallb (memz cs) cs = true.
Proof. apply forallb_forall. intros x Hx. now apply memz_In. Qed.

(* ---------- startswith ---------- *)
Lemma startswith_app p s : startswith p (p ++ s) = true.
Proof. induction p as [|a p IH]; simpl; [reflexivity|]. now rewrite Z.eqb_refl. Qed.

Lemma startswith_inv p s : startswith p s = true -> s = p ++ skipn (length p) s.
Proof.
  revert s; induction p as [|a p IH]; intros s H; simpl in *; [reflexivity|].
  destruct s as [|b s]; [discriminate|].
  apply andb_true_iff in H as [H1 H2]. apply Z.eqb_eq in H1. subst b.
  simpl. f_equal. now apply IH.
Qed.

Lemma startswith_iff p s : startswith p s = true <-> exists r, s = p ++ r.
Proof.
  split.
  - intros H. eexists. now apply startswith_inv.
  - intros [r ->]. apply startswith_app.
Qed.

Lemma skipn_app_exact {A} (p r : list A) : skipn (length p) (p ++ r) = r.
Proof. induction p; simpl; auto. Qed.

(* two prefixes of the same string: one is a prefix of the other *)
Lemma startswith_both p q s :
  startswith p s = true -> startswith q s = true -> (length p <= length q)%nat -> startswith p q = true.
Proof.
  revert q s; induction p as [|a p IH]; intros q s Hp Hq Hl; simpl; [reflexivity|].
  destruct s as [|c s]; [discriminate|].
  destruct q as [|b q]; [simpl in Hl; lia|].
  simpl in Hp, Hq. apply andb_true_iff in Hp as [Hp1 Hp2]. apply andb_true_iff in Hq as [Hq1 Hq2].
  apply Z.eqb_eq in Hp1, Hq1. subst. rewrite Z.eqb_refl. simpl.
  apply (IH q s); [assumption|assumption|simpl in Hl; lia].
Qed.

(* ---------- partition ---------- *)
Lemma partition_spec sep s a f b :
  partition sep s = (a, f, b) ->
  ~ In sep a /\ (f = true -> s = a ++ sep :: b) /\ (f = false -> s = a /\ b = []).
Proof.
  revert a f b; induction s as [|c s IH]; intros a f b H; simpl in H.
  - injection H as <- <- <-. repeat split; auto; discriminate.
  - destruct (Z.eqb_spec c sep) as [->|Hne].
    + injection H as <- <- <-. repeat split; auto; discriminate.
    + destruct (partition sep s) as [[a' f'] b'] eqn:E. injection H as <- <- <-.
      destruct (IH _ _ _ eq_refl) as (H1 & H2 & H3).
      split; [|split].
      * intros [Hc|Hin]; [congruence|contradiction].
      * intros Hf. simpl. f_equal. now apply H2.
      * intros Hf. destruct (H3 Hf) as [-> ->]. now split.
Qed.

Lemma partition_app sep a b : ~ In sep a -> partition sep (a ++ sep :: b) = (a, true, b).
Proof.
  induction a as [|c a IH]; intros H; simpl.
  - now rewrite Z.eqb_refl.
  - destruct (Z.eqb_spec c sep) as [->|Hne]; [exfalso; apply H; now left|].
    rewrite IH; [reflexivity|]. intros Hin. apply H. now right.
Qed.

Lemma partition_none sep a : ~ In sep a -> partition sep a = (a, false, []).
Proof.
  induction a as [|c a IH]; intros H; simpl; [reflexivity|].
  destruct (Z.eqb_spec c sep) as [->|Hne]; [exfalso; apply H; now left|].
  rewrite IH; [reflexivity|]. intros Hin. apply H. now right.
Qed.

(* ---------- dropwhile / strip ---------- *)
Lemma dropwhile_all p s : forallb p s = true -> dropwhile p s = [].
Proof.
  induction s as [|c s IH]; simpl; [reflexivity|].
  intros H. apply andb_true_iff in H as [H1 H2]. rewrite H1. now apply IH.
Qed.

Lemma dropwhile_app_all p a s : forallb p a = true -> dropwhile p (a ++ s) = dropwhile p s.
Proof.
  induction a as [|c a IH]; simpl; [reflexivity|].
  intros H. apply andb_true_iff in H as [H1 H2]. rewrite H1. now apply IH.
Qed.

Definition head_not (p : Z -> bool) (s : str) : bool :=
  match s with [] => true | c :: _ => negb (p c) end.

Lemma dropwhile_stop p s : head_not p s = true -> dropwhile p s = s.
Proof.
  destruct s as [|c s]; simpl; [reflexivity|]. intros H. apply negb_true_iff in H. now rewrite H.
Qed.

(* lstrip(chars) removes exactly a prefix made of those characters when what
   follows does not begin with one of them *)
Lemma lstrip_chars_prefix cs pre rest :
  forallb (memz cs) pre = true -> head_not (memz cs) rest = true ->
  lstrip_chars cs (pre ++ rest) = rest.
Proof.
  intros H1 H2. unfold lstrip_chars, lstrip_p. rewrite dropwhile_app_all by assumption.
  now apply dropwhile_stop.
Qed.

(* the case VMX.disks relies on: device.lstrip(dev_class) for device = dev_class ++ id *)
Lemma lstrip_class_is_prefix_removal c id :
  head_not (memz c) id = true -> lstrip_chars c (c ++ id) = id.
Proof. intros H. apply lstrip_chars_prefix; [apply memz_self|assumption]. Qed.

Definition last_not (p : Z -> bool) (s : str) : bool := head_not p (rev s).

Lemma rstrip_p_app_all p s a : forallb p a = true -> rstrip_p p (s ++ a) = rstrip_p p s.
Proof.
  intros H. unfold rstrip_p. rewrite rev_app_distr. rewrite dropwhile_app_all; [reflexivity|].
  rewrite forallb_forall in *. intros x Hx. apply H. now apply in_rev.
Qed.

Lemma rstrip_p_stop p s : last_not p s = true -> rstrip_p p s = s.
Proof. intros H. unfold rstrip_p. rewrite dropwhile_stop by assumption. apply rev_involutive. Qed.

Lemma last_not_app p a b : b <> [] -> last_not p (a ++ b) = last_not p b.
Proof.
  intros Hb. unfold last_not. rewrite rev_app_distr.
  destruct (rev b) as [|c r] eqn:E.
  - exfalso. apply Hb. apply (f_equal (@rev Z)) in E. now rewrite rev_involutive in E.
  - reflexivity.
Qed.

(* strip of  pad ++ core ++ pad'  is core when core is empty or begins and ends outside the set *)
Lemma strip_p_core p a m b :
  forallb p a = true -> forallb p b = true -> head_not p m = true -> last_not p m = true ->
  strip_p p (a ++ m ++ b) = m.
Proof.
  intros Ha Hb Hh Hl. unfold strip_p, lstrip_p.
  rewrite dropwhile_app_all by assumption.
  destruct m as [|c m].
  - simpl. rewrite dropwhile_all by assumption. reflexivity.
  - rewrite dropwhile_stop by (simpl in *; assumption).
    rewrite rstrip_p_app_all by assumption. now apply rstrip_p_stop.
Qed.

(* ---------- split / join ---------- *)
Fixpoint join_on (sep : Z) (ls : list str) : str :=
  match ls with
  | [] => []
  | [l] => l
  | l :: r => l ++ sep :: join_on sep r
  end.

Lemma split_on_nosep sep l : ~ In sep l -> split_on sep l = [l].
Proof.
  induction l as [|c l IH]; intros H; simpl; [reflexivity|].
  destruct (Z.eqb_spec c sep) as [->|Hne]; [exfalso; apply H; now left|].
  rewrite IH; [reflexivity|]. intros Hin. apply H. now right.
Qed.

Lemma split_on_app sep l rest :
  ~ In sep l -> split_on sep (l ++ sep :: rest) = l :: split_on sep rest.
Proof.
  induction l as [|c l IH]; intros H; simpl.
  - now rewrite Z.eqb_refl.
  - destruct (Z.eqb_spec c sep) as [->|Hne]; [exfalso; apply H; now left|].
    rewrite IH; [reflexivity|]. intros Hin. apply H. now right.
Qed.

(* text.split(sep) recovers the lines that were joined with sep *)
Lemma split_join sep ls :
  ls <> [] -> Forall (fun l => ~ In sep l) ls -> split_on sep (join_on sep ls) = ls.
Proof.
  induction ls as [|l r IH]; intros Hne Hall; [contradiction|].
  inversion Hall as [|? ? Hl Hr]; subst.
  destruct r as [|l2 r].
  - simpl. now apply split_on_nosep.
  - change (join_on sep (l :: l2 :: r)) with (l ++ sep :: join_on sep (l2 :: r)).
    rewrite split_on_app by assumption. f_equal. apply IH; [discriminate|assumption].
Qed.

Lemma NoDup_snoc {A} (l : list A) x : NoDup l -> ~ In x l -> NoDup (l ++ [x]).
Proof.
  induction l as [|a l IH]; simpl; intros Hnd Hx.
  - constructor; [tauto|constructor].
  - inversion Hnd as [|? ? Ha Hl]; subst. constructor.
    + rewrite in_app_iff. simpl. intros [H|[H|[]]]; [contradiction|]. subst. apply Hx. now left.
    + apply IH; [assumption|]. intros H. apply Hx. now right.
Qed.

(* ---------- dictionaries ---------- *)
Section Dict.
  Context {V : Type}.

  Lemma dget_dset_same k (v : V) d : dget k (dset k v d) = Some v.
  Proof.
    induction d as [|[k' v'] d IH]; simpl.
    - now rewrite str_eqb_refl.
    - destruct (str_eqb k k') eqn:E; simpl; rewrite E; [reflexivity|assumption].
  Qed.

  Lemma dget_dset_other k k' (v : V) d : k <> k' -> dget k' (dset k v d) = dget k' d.
  Proof.
    intros Hne. induction d as [|[k2 v2] d IH]; simpl.
    - assert (str_eqb k' k = false) as -> by (apply str_eqb_neq; congruence). reflexivity.
    - destruct (str_eqb k k2) eqn:E; simpl.
      + apply str_eqb_eq in E. subst k2.
        assert (str_eqb k' k = false) as -> by (apply str_eqb_neq; congruence). reflexivity.
      + destruct (str_eqb k' k2); [reflexivity|assumption].
  Qed.

  Lemma dget_In k (v : V) d : dget k d = Some v -> In (k, v) d.
  Proof.
    induction d as [|[k' v'] d IH]; simpl; [discriminate|].
    destruct (str_eqb k k') eqn:E.
    - apply str_eqb_eq in E. subst. intros [= ->]. now left.
    - intros H. right. now apply IH.
  Qed.

  Lemma In_dget k (v : V) d : NoDup (map fst d) -> In (k, v) d -> dget k d = Some v.
  Proof.
    induction d as [|[k' v'] d IH]; simpl; intros Hnd Hin; [contradiction|].
    inversion Hnd as [|? ? Hnotin Hnd']; subst.
    destruct Hin as [[= -> ->]|Hin].
    - now rewrite str_eqb_refl.
    - destruct (str_eqb k k') eqn:E.
      + apply str_eqb_eq in E. subst. exfalso. apply Hnotin. change k' with (fst (k', v)). now apply in_map.
      + now apply IH.
  Qed.

  Lemma dget_None_notin k (d : dict V) : dget k d = None -> ~ In k (map fst d).
  Proof.
    induction d as [|[k' v'] d IH]; simpl; intros H; [tauto|].
    destruct (str_eqb k k') eqn:E; [discriminate|].
    apply str_eqb_neq in E. intros [->|Hin]; [congruence|]. now apply IH.
  Qed.

  Lemma dset_keys k (v : V) d :
    map fst (dset k v d) = if existsb (str_eqb k) (map fst d) then map fst d else map fst d ++ [k].
  Proof.
    induction d as [|[k' v'] d IH]; simpl; [reflexivity|].
    destruct (str_eqb k k') eqn:E; simpl; [reflexivity|].
    rewrite IH. destruct (existsb (str_eqb k) (map fst d)); reflexivity.
  Qed.

  Lemma dset_nodup k (v : V) d : NoDup (map fst d) -> NoDup (map fst (dset k v d)).
  Proof.
    intros H. rewrite dset_keys. destruct (existsb (str_eqb k) (map fst d)) eqn:E; [assumption|].
    apply NoDup_snoc; [assumption|].
    intros Hin. assert (existsb (str_eqb k) (map fst d) = true); [|congruence].
    apply existsb_exists. exists k. split; [assumption|apply str_eqb_refl].
  Qed.
End Dict.

(* ---------- sorted() ---------- *)
Lemma str_leb_total a b : str_leb a b = true \/ str_leb b a = true.
Proof.
  revert b; induction a as [|x a IH]; intros [|y b]; simpl; auto.
  destruct (Z.ltb_spec x y); [now left|].
  destruct (Z.ltb_spec y x); [now right|].
  assert (x = y) as -> by lia. rewrite Z.eqb_refl. apply IH.
Qed.

Lemma str_leb_antisym a b : str_leb a b = true -> str_leb b a = true -> a = b.
Proof.
  revert b; induction a as [|x a IH]; intros [|y b]; simpl; try discriminate; auto.
  destruct (Z.ltb_spec x y); destruct (Z.ltb_spec y x); try lia.
  - destruct (Z.eqb_spec y x); [lia|discriminate].
  - destruct (Z.eqb_spec x y); [lia|discriminate].
  - assert (x = y) as -> by lia. rewrite Z.eqb_refl. intros H1 H2. f_equal. now apply IH.
Qed.

Lemma str_leb_trans a b c : str_leb a b = true -> str_leb b c = true -> str_leb a c = true.
Proof.
  revert b c; induction a as [|x a IH]; intros [|y b] [|z c]; simpl; try discriminate; auto.
  destruct (Z.ltb_spec x y) as [Hxy|Hxy].
  - intros _. destruct (Z.ltb_spec y z) as [Hyz|Hyz].
    + intros _. destruct (Z.ltb_spec x z); [reflexivity|lia].
    + destruct (Z.eqb_spec y z) as [->|]; [|discriminate]. intros _.
      destruct (Z.ltb_spec x z); [reflexivity|lia].
  - destruct (Z.eqb_spec x y) as [->|]; [|discriminate]. intros Hab.
    destruct (Z.ltb_spec y z) as [Hyz|Hyz]; [reflexivity|].
    destruct (Z.eqb_spec y z) as [->|]; [|discriminate]. intros Hbc. now apply (IH b c).
Qed.

Definition sle (a b : str) : Prop := str_leb a b = true.

Lemma insert_perm x l : Permutation (x :: l) (insert_sorted x l).
Proof.
  induction l as [|y l IH]; simpl; [apply Permutation_refl|].
  destruct (str_leb x y); [apply Permutation_refl|].
  eapply perm_trans; [apply perm_swap|]. now apply perm_skip.
Qed.

Lemma sort_perm l : Permutation l (sort_strs l).
Proof.
  induction l as [|x l IH]; simpl; [constructor|].
  eapply perm_trans; [apply perm_skip, IH|apply insert_perm].
Qed.

Lemma In_sort x l : In x (sort_strs l) <-> In x l.
Proof.
  split; intros H.
  - eapply Permutation_in; [apply Permutation_sym, sort_perm|exact H].
  - eapply Permutation_in; [apply sort_perm|exact H].
Qed.

Lemma insert_sorted_ss x l : StronglySorted sle l -> StronglySorted sle (insert_sorted x l).
Proof.
  induction l as [|y l IH]; simpl; intros Hs.
  - constructor; [constructor|constructor].
  - inversion Hs as [|? ? Hl Hy]; subst.
    destruct (str_leb x y) eqn:E.
    + constructor; [assumption|]. constructor; [exact E|].
      eapply Forall_impl; [|exact Hy]. intros z Hz. unfold sle in *. now apply (str_leb_trans x y z).
    + constructor; [now apply IH|].
      assert (Hyx : sle y x) by (destruct (str_leb_total x y) as [H|H]; [congruence|exact H]).
      rewrite Forall_forall. intros z Hz.
      apply (Permutation_in _ (Permutation_sym (insert_perm x l))) in Hz.
      destruct Hz as [<-|Hz]; [exact Hyx|]. rewrite Forall_forall in Hy. now apply Hy.
Qed.

Lemma sort_sorted l : StronglySorted sle (sort_strs l).
Proof. induction l as [|x l IH]; simpl; [constructor|now apply insert_sorted_ss]. Qed.

Lemma ss_perm_eq l1 l2 :
  StronglySorted sle l1 -> StronglySorted sle l2 -> Permutation l1 l2 -> l1 = l2.
Proof.
  revert l2; induction l1 as [|x l1 IH]; intros l2 H1 H2 Hp.
  - apply Permutation_nil in Hp. now subst.
  - destruct l2 as [|y l2]; [apply Permutation_sym, Permutation_nil in Hp; discriminate|].
    inversion H1 as [|? ? Hs1 Hx]; subst. inversion H2 as [|? ? Hs2 Hy]; subst.
    assert (x = y) as ->.
    { rewrite Forall_forall in Hx, Hy.
      assert (Hyin : In y (x :: l1)) by (eapply Permutation_in; [apply Permutation_sym, Hp|now left]).
      assert (Hxin : In x (y :: l2)) by (eapply Permutation_in; [apply Hp|now left]).
      destruct Hyin as [->|Hyin]; [reflexivity|].
      destruct Hxin as [->|Hxin]; [reflexivity|].
      apply str_leb_antisym; [now apply Hx|now apply Hy]. }
    f_equal. apply IH; [assumption|assumption|]. now apply Permutation_cons_inv in Hp.
Qed.

Theorem sort_perm_eq l1 l2 : Permutation l1 l2 -> sort_strs l1 = sort_strs l2.
Proof.
  intros Hp. apply ss_perm_eq; [apply sort_sorted|apply sort_sorted|].
  eapply perm_trans; [apply Permutation_sym, sort_perm|].
  eapply perm_trans; [exact Hp|apply sort_perm].
Qed.

(* ---------- stripping in the middle of a line ---------- *)
Lemma dropwhile_app_stop p x c y :
  p c = false -> dropwhile p (x ++ c :: y) = dropwhile p x ++ c :: y.
Proof.
  intros Hc. induction x as [|h t IH]; simpl.
  - now rewrite Hc.
  - destruct (p h); [exact IH|reflexivity].
Qed.

(* rstrip never passes a character outside the set *)
Lemma rstrip_p_keep p a c b : p c = false -> rstrip_p p (a ++ c :: b) = a ++ c :: rstrip_p p b.
Proof.
  intros Hc. unfold rstrip_p. rewrite rev_app_distr. simpl. rewrite <- app_assoc. simpl.
  rewrite dropwhile_app_stop by assumption. rewrite rev_app_distr. simpl.
  rewrite rev_involutive. rewrite <- app_assoc. reflexivity.
Qed.

Lemma forallb_dropwhile q p l : forallb q l = true -> forallb q (dropwhile p l) = true.
Proof.
  induction l as [|c l IH]; simpl; [reflexivity|]. intros H. apply andb_true_iff in H as [H1 H2].
  destruct (p c); [now apply IH|]. simpl. now rewrite H1, H2.
Qed.

Lemma forallb_rev q (l : str) : forallb q l = true -> forallb q (rev l) = true.
Proof. rewrite !forallb_forall. intros H x Hx. apply H. now apply in_rev. Qed.

Lemma forallb_rstrip q p l : forallb q l = true -> forallb q (rstrip_p p l) = true.
Proof. intros H. unfold rstrip_p. now apply forallb_rev, forallb_dropwhile, forallb_rev. Qed.

Lemma last_not_split p v :
  v <> [] -> last_not p v = true -> exists v' c, v = v' ++ [c] /\ p c = false.
Proof.
  intros Hne H. destruct (exists_last Hne) as (v' & c & ->). exists v', c. split; [reflexivity|].
  unfold last_not in H. rewrite rev_app_distr in H. simpl in H. now apply negb_true_iff.
Qed.
