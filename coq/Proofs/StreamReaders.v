(* Proofs/StreamReaders.v — each reader's _read honours the stream back-end contract,
   for every alignment that is a positive multiple of its sector size. *)
From Coq Require Import ZArith List Bool Lia.
From DH Require Import Base.Arith Base.Plan Base.Table Model.AlignedStream Proofs.AlignedStream
  Model.Walk Proofs.BlockMapped Model.Vhd Proofs.Vhd Model.Vdi Proofs.Vdi Model.Vhdx Proofs.Vhdx Model.Hds Proofs.Hds.
Import ListNotations.
Open Scope Z_scope.

Definition blen_of (bread : Z -> Z -> res (list seg)) (off len : Z) : res Z :=
  do p <- bread off len; Ok (Z.of_nat (length (srcs_of p))).

(* a reader's _read, for aligned requests starting inside the disk, returns the guest
   bytes of [off, off+T) where T covers the in-range part and is exact for in-range requests *)
Definition reader_contract (size align : Z) (bread : Z -> Z -> res (list seg)) (gsrc : Z -> src) : Prop :=
  forall off len, 0 <= off < size -> off mod align = 0 -> 0 < len -> len mod align = 0 ->
    exists p T, bread off len = Ok p /\ srcs_of p = map gsrc (zseq off T) /\
      Z.min len (size - off) <= T /\ (off + len <= size -> T = len).

Lemma contract_backend_ok size align bread gsrc :
  reader_contract size align bread gsrc -> backend_ok size align (blen_of bread).
Proof.
  intros Hc off len H1 H2 H3 H4. destruct (Hc off len H1 H2 H3 H4) as (p & T & Hp & Hs & HT & Hex).
  exists T. unfold blen_of. rewrite Hp. cbn [bind]. rewrite Hs, map_length.
  assert (0 <= T) by lia. rewrite zseq_length by lia. repeat split; [exact HT|exact Hex].
Qed.

Lemma mod_of_mod a n m : 0 < m -> n mod m = 0 -> a mod n = 0 -> a mod m = 0.
Proof.
  intros Hm Hn Ha. destruct (Z.eq_dec n 0) as [->|Hn0].
  - rewrite Zmod_0_r in Ha. subst. apply Z.mod_0_l. lia.
  - apply Z.mod_divide in Hn; [|lia]. apply Z.mod_divide in Ha; [|lia].
    apply Z.mod_divide; [lia|]. eapply Z.divide_trans; eauto.
Qed.

(* sector-granular readers: T = ceil(n / ss) * ss *)
Lemma sector_cover ss size off len :
  0 < ss -> 0 <= off < size -> off mod ss = 0 -> 0 < len -> len mod ss = 0 ->
  let n := Z.min len (size - off) in
  let count := (n + ss - 1) / ss in
  n <= count * ss /\ 0 < count /\ off / ss * ss = off /\ (off + len <= size -> count * ss = len) /\
  off / ss + count <= (size + ss - 1) / ss.
Proof.
  intros Hss Hoff Hal Hlen Hlm n count.
  pose proof (Z.div_mod off ss ltac:(lia)) as Hd.
  pose proof (Z.div_mod (n + ss - 1) ss ltac:(lia)) as Hdc.
  pose proof (Z.mod_pos_bound (n + ss - 1) ss Hss) as Hmc. fold count in Hdc.
  pose proof (Z.div_mod len ss ltac:(lia)) as Hdl.
  assert (Hn : 0 < n) by (subst n; lia).
  assert (H1 : n <= count * ss /\ 0 < count) by nia.
  assert (H2 : off / ss * ss = off) by lia.
  repeat split; try lia.
  - intros Hin. assert (n = len) by (subst n; lia).
    assert (count = len / ss); [|nia].
    subst count. rewrite H. symmetry. apply Z.div_unique with (r := ss - 1); [left; lia|]. nia.
  - apply Z.div_le_lower_bound; [lia|].
    assert ((off / ss + count) * ss <= off + n + ss - 1) by nia. subst n. lia.
Qed.

(* ---- VHD (dynamic) ---- *)
Theorem vhd_dyn_contract d align :
  wf_dyn d -> 0 < align -> align mod 512 = 0 ->
  reader_contract (d_size d) align
    (fun off len => dyn_read d (fuel_for (cdiv (Z.min len (d_size d - off)) SECTOR)) off len)
    (guest_src d).
Proof.
  intros (Hspb & Hsz & Hcov) Hal Ham off len Hoff Hoa Hlen Hla. rewrite SECTOR_eq in *.
  assert (Ho5 : off mod 512 = 0) by (apply (mod_of_mod off align 512); lia).
  assert (Hl5 : len mod 512 = 0) by (apply (mod_of_mod len align 512); lia).
  destruct (sector_cover 512 (d_size d) off len ltac:(lia) Hoff Ho5 Hlen Hl5) as (Hc1 & Hc2 & Hc3 & Hc4 & Hc5).
  unfold dyn_read, cdiv in *. rewrite SECTOR_eq in *.
  set (n := Z.min len (d_size d - off)) in *. set (count := (n + 512 - 1) / 512) in *.
  assert (Hs : 0 <= off / 512) by (apply Z.div_pos; lia).
  destruct (dyn_read_sectors_ok d Hspb (fuel_for count) (off / 512) count _ Hcov Hs Hc5
              ltac:(unfold fuel_for; lia)) as [p Hp].
  exists p, (count * 512). split; [exact Hp|]. split.
  - rewrite (dyn_read_sectors_correct d Hspb _ _ _ _ Hs Hp). rewrite SECTOR_eq, Hc3. reflexivity.
  - split; [lia|exact Hc4].
Qed.

(* ---- VHD (fixed) ---- *)
Theorem vhd_fixed_contract size align :
  0 < align -> align mod 512 = 0 ->
  reader_contract size align (fun off len => Ok (fixed_read size off len)) fixed_src.
Proof.
  intros Hal Ham off len Hoff Hoa Hlen Hla.
  assert (Ho5 : off mod 512 = 0) by (apply (mod_of_mod off align 512); lia).
  assert (Hl5 : len mod 512 = 0) by (apply (mod_of_mod len align 512); lia).
  destruct (sector_cover 512 size off len ltac:(lia) Hoff Ho5 Hlen Hl5) as (Hc1 & Hc2 & Hc3 & Hc4 & Hc5).
  eexists _, _. split; [reflexivity|]. unfold fixed_read. rewrite fixed_read_sectors_correct.
  rewrite SECTOR_eq, Hc3. split; [reflexivity|]. split; [lia|exact Hc4].
Qed.

(* ---- VDI ---- *)
Theorem vdi_contract v align :
  0 < v_bs v -> vdi_wf v -> 0 < align ->
  reader_contract (v_size v) align (fun off len => vdi_read v (vdi_fuel len) off len) (vdi_src v).
Proof.
  intros Hbs Hwf Hal off len Hoff Hoa Hlen Hla.
  destruct (vdi_read_correct v Hbs off len Hwf Hoff Hlen) as (p & Hp & Hs).
  exists p, (Z.min len (v_size v - off)). repeat split; try assumption; lia.
Qed.

(* ---- VHDX (non-differencing) ---- *)
Theorem vhdx_contract x align :
  geom_ok x -> states_ok x -> vhdx_wf_nodiff x -> 0 < align -> align mod x_ss x = 0 ->
  reader_contract (x_size x) align
    (fun off len => vhdx_read x (vhdx_fuel (cdiv (Z.min len (x_size x - off)) (x_ss x))) off len)
    (vhdx_src x).
Proof.
  intros Hg Hst Hwf Hal Ham off len Hoff Hoa Hlen Hla.
  pose proof (covers_nodiff x Hg Hwf) as Hc.
  destruct Hwf as (Hnp & Hsz & Hcov & Hn7). pose proof Hg as (Hss & Hspb & Hbs & Hcr).
  assert (Ho5 : off mod x_ss x = 0) by (apply (mod_of_mod off align); lia).
  assert (Hl5 : len mod x_ss x = 0) by (apply (mod_of_mod len align); lia).
  destruct (sector_cover (x_ss x) (x_size x) off len Hss Hoff Ho5 Hlen Hl5) as (Hc1 & Hc2 & Hc3 & Hc4 & Hc5).
  unfold vhdx_read, cdiv in *.
  set (n := Z.min len (x_size x - off)) in *. set (count := (n + x_ss x - 1) / x_ss x) in *.
  assert (Hs : 0 <= off / x_ss x) by (apply Z.div_pos; lia).
  destruct (walk_ok (spb x) (vhdx_lookup x) (vhdx_emit x) Hspb (vhdx_fuel count) (off / x_ss x) count _
              Hc Hs Hc5 ltac:(unfold vhdx_fuel; lia)) as [p Hp].
  exists p, (count * x_ss x). split; [exact Hp|]. split.
  - rewrite (vhdx_read_sectors_sound x Hg Hst _ _ _ _ Hnp Hs Hp). rewrite Hc3. reflexivity.
  - split; [lia|exact Hc4].
Qed.

(* ---- Parallels HDS ---- *)
Theorem hds_contract h align :
  0 < h_cs h -> hds_wf h -> 0 < align ->
  reader_contract (h_size h) align (fun off len => hds_read h (hds_fuel len) off len) (hds_src h).
Proof.
  intros Hcs Hwf Hal off len Hoff Hoa Hlen Hla.
  destruct (hds_read_correct h Hcs off len Hwf Hoff Hlen) as (p & T & Hp & HT & Hs).
  exists p, T. repeat split; try assumption; lia.
Qed.

(* ---- QCOW2 ---- *)
From DH Require Model.Qcow2 Proofs.Qcow2 Proofs.Qcow2Total Spec.Qcow2.

Theorem qcow2_contract (im : Model.Qcow2.image) align :
  Proofs.Qcow2.wf_image im -> Spec.Qcow2.conformant (Model.Qcow2.spec_of im) (Model.Qcow2.size_of im) -> 0 < align ->
  reader_contract (Model.Qcow2.size_of im) align
    (fun off len => Model.Qcow2.qcow2_read im (S (Z.to_nat (Z.min len (Model.Qcow2.size_of im - off)))) off len)
    (Model.Qcow2.guest_src im).
Proof.
  intros Hwf Hc Hal off len Hoff Hoa Hlen Hla.
  destruct (Proofs.Qcow2Total.qcow2_read_total im off len Hwf Hc Hoff Hlen) as (p & Hp & Hs).
  exists p, (Z.min len (Model.Qcow2.size_of im - off)). repeat split; try assumption; lia.
Qed.

(* ---- VMDK sparse extent (hosted / COWD / SE-sparse), single-extent disk ---- *)
From DH Require Model.Vmdk Proofs.Vmdk.

Theorem vmdk_sparse_contract (f : Model.Vmdk.vfile) (sp : Model.Vmdk.sparse) hp align :
  Proofs.Vmdk.wf_sparse f sp -> 0 < align -> align mod 512 = 0 ->
  reader_contract (Model.Vmdk.sp_capacity sp * 512) align
    (fun off len => match Model.Vmdk.vmdk_read (Model.Vmdk.mk_vmdk [Model.Vmdk.XSparse f sp hp]) off len with
                    | Ok p => Ok (Model.Vmdk.plan_of_x p) | Err => Err | Fuel => Fuel end)
    (Model.Vmdk.guest_src f sp 0 hp).
Proof.
  intros Hwf Hal Ham off len Hoff Hoa Hlen Hla.
  assert (Ho5 : off mod 512 = 0) by (apply (mod_of_mod off align 512); lia).
  assert (Hl5 : len mod 512 = 0) by (apply (mod_of_mod len align 512); lia).
  destruct (sector_cover 512 (Model.Vmdk.sp_capacity sp * 512) off len ltac:(lia) Hoff Ho5 Hlen Hl5)
    as (Hc1 & Hc2 & Hc3 & Hc4 & Hc5).
  pose proof Hwf as (Hw & Hg & Hcap & Hcov).
  unfold Model.Vmdk.vmdk_read. rewrite Proofs.Vmdk.mk_vmdk_single.
  cbn [Model.Vmdk.v_size Model.Vmdk.v_offsets Model.Vmdk.v_disks Model.Vmdk.x_size].
  rewrite Proofs.Vmdk.SECTOR_eq. replace (0 + Model.Vmdk.sp_capacity sp * 512) with (Model.Vmdk.sp_capacity sp * 512) by lia.
  destruct (Proofs.Vmdk.read_arith off len (Model.Vmdk.sp_capacity sp) Hoff Ho5 Hlen) as (Hc & Hend & Hn & Hoffeq & Hs).
  set (n := Z.min len (Model.Vmdk.sp_capacity sp * 512 - off)) in *.
  set (count := (n + 512 - 1) / 512) in *.
  unfold Model.Vmdk.vmdk_read_sectors.
  cbn [Model.Vmdk.v_offsets Model.Vmdk.v_disks Model.Vmdk.bisect_right skipn Z.of_nat].
  destruct (Proofs.Vmdk.sparse_read_sectors_ok f sp hp (off / 512) count Hwf Hs ltac:(lia) Hend) as [p0 Hp0].
  rewrite (Proofs.Vmdk.walk_single (Model.Vmdk.XSparse f sp hp) (off / 512) count p0 Hc
             ltac:(cbn [Model.Vmdk.x_sectors]; lia) Hp0).
  eexists _, (count * 512). split; [reflexivity|]. rewrite Proofs.Vmdk.plan_of_x_single.
  rewrite (Proofs.Vmdk.sparse_read_sectors_correct f sp 0 hp Hw Hg (Model.Vmdk.fuel_for count) (off / 512) count p0 Hs Hp0).
  replace ((off / 512 - 0) * 512) with off by lia.
  split; [reflexivity|]. split; [lia|exact Hc4].
Qed.
