(* Proofs/VhdxPartial.v — _iter_partial_runs expands to exactly the bitmap bits
   [start, start+len), for every bitmap, start bit and length. *)
From Coq Require Import ZArith List Bool Lia.
From DH Require Import Base.Arith Base.Plan Base.Table Model.Vhdx.
Import ListNotations.
Open Scope Z_scope.

Definition zrepeat {A} (a : A) (n : Z) : list A := repeat a (Z.to_nat n).

Lemma zrepeat_app {A} (a : A) n m : 0 <= n -> 0 <= m -> zrepeat a (n + m) = zrepeat a n ++ zrepeat a m.
Proof. intros. unfold zrepeat. rewrite Z2Nat.inj_add by lia. apply repeat_app. Qed.

Lemma zrepeat_map_zseq {A} (a : A) o n : map (fun _ => a) (zseq o n) = zrepeat a n.
Proof.
  unfold zrepeat, zseq. generalize (Z.to_nat n) as k. intros k. revert o.
  induction k as [|k IH]; intros o; cbn; [reflexivity|]. f_equal. apply IH.
Qed.

Definition expand (l : list (Z * Z)) : list Z := flat_map (fun r => zrepeat (fst r) (snd r)) l.

Lemma expand_app a b : expand (a ++ b) = expand a ++ expand b.
Proof. unfold expand. apply flat_map_app. Qed.

(* the bits a state has accounted for so far *)
Definition sem (st : ipr_state) : list Z :=
  expand (rev (ip_out st)) ++ zrepeat (ip_type st) (ip_count st).

Lemma ipr_bit_sem byte st i : 0 <= ip_count st ->
  sem (ipr_bit byte st i) = sem st ++ [bit_of byte i] /\
  ip_len (ipr_bit byte st i) = ip_len st - 1 /\ 0 <= ip_count (ipr_bit byte st i).
Proof.
  intros Hc. unfold ipr_bit, sem.
  destruct (Z.eqb_spec (bit_of byte i) (ip_type st)) as [E|E]; cbn [ip_type ip_count ip_len ip_out].
  - rewrite zrepeat_app by lia. rewrite app_assoc, E. split; [reflexivity|split; lia].
  - cbn [rev]. rewrite expand_app. unfold expand at 2. cbn [flat_map fst snd]. rewrite app_nil_r.
    split; [reflexivity|split; lia].
Qed.

Lemma ipr_bits_sem byte : forall k s st, 0 <= ip_count st ->
  sem (fold_left (ipr_bit byte) (zseq_nat s k) st) = sem st ++ map (bit_of byte) (zseq_nat s k) /\
  ip_len (fold_left (ipr_bit byte) (zseq_nat s k) st) = ip_len st - Z.of_nat k /\
  0 <= ip_count (fold_left (ipr_bit byte) (zseq_nat s k) st).
Proof.
  induction k as [|k IH]; intros s st Hc.
  - cbn. rewrite app_nil_r. split; [reflexivity|split; lia].
  - cbn [zseq_nat fold_left map].
    destruct (ipr_bit_sem byte st s Hc) as (H1 & H2 & H3).
    destruct (IH (s + 1) (ipr_bit byte st s) H3) as (K1 & K2 & K3).
    rewrite K1, H1, <- app_assoc. cbn [app]. split; [reflexivity|]. rewrite K2, H2. split; [lia|exact K3].
Qed.

Definition byte_ok (b : Z) : Prop := 0 <= b < 256.

Lemma bit_of_0 i : bit_of 0 i = 0.
Proof. unfold bit_of. rewrite Zdiv_0_l. reflexivity. Qed.

Lemma bit_of_255 i : 0 <= i < 8 -> bit_of 255 i = 1.
Proof.
  intros Hi. assert (H : i = 0 \/ i = 1 \/ i = 2 \/ i = 3 \/ i = 4 \/ i = 5 \/ i = 6 \/ i = 7) by lia.
  destruct H as [->|[->|[->|[->|[->|[->|[->| ->]]]]]]]; reflexivity.
Qed.

Lemma bit_of_range b i : 0 <= bit_of b i < 2.
Proof. unfold bit_of. apply Z.mod_pos_bound. lia. Qed.

(* one byte: consumes k = min(len, 8 - start) bits *)
Lemma ipr_byte_sem start st byte :
  0 <= start < 8 -> 0 <= ip_count st -> 0 <= ip_len st ->
  let k := Z.min (ip_len st) (8 - start) in
  sem (ipr_byte start st byte) = sem st ++ map (bit_of byte) (zseq start k) /\
  ip_len (ipr_byte start st byte) = ip_len st - k /\ 0 <= ip_count (ipr_byte start st byte).
Proof.
  intros Hs Hc Hl k. unfold ipr_byte.
  destruct (((ip_type st =? 0) && (byte =? 0)) || ((ip_type st =? 1) && (byte =? 255))) eqn:Hu.
  - (* uniform byte of the current type *)
    fold k. unfold sem. cbn [ip_type ip_count ip_len ip_out].
    assert (Hbits : map (bit_of byte) (zseq start k) = zrepeat (ip_type st) k).
    { rewrite <- (zrepeat_map_zseq (ip_type st) start k). apply map_ext_zseq. intros i Hi.
      apply orb_true_iff in Hu. destruct Hu as [Hu|Hu]; apply andb_true_iff in Hu; destruct Hu as [Ht Hb];
        apply Z.eqb_eq in Ht; apply Z.eqb_eq in Hb; subst byte; rewrite Ht.
      - apply bit_of_0.
      - apply bit_of_255. lia. }
    rewrite Hbits. rewrite zrepeat_app by lia. rewrite app_assoc. split; [reflexivity|split; lia].
  - replace (Z.min (start + ip_len st) 8 - start) with k by lia.
    unfold zseq. destruct (ipr_bits_sem byte (Z.to_nat k) start st Hc) as (H1 & H2 & H3).
    split; [exact H1|]. split; [rewrite H2; lia|exact H3].
Qed.

(* the bits of a bitmap from bit [start] of its first byte on *)
Fixpoint bits_from (bm : list Z) (start len : Z) : list Z :=
  match bm with
  | [] => []
  | b :: r => let k := Z.min len (8 - start) in
              map (bit_of b) (zseq start k) ++ bits_from r 0 (len - k)
  end.

Lemma ipr_bytes_sem : forall bm start st,
  0 <= start < 8 -> 0 <= ip_count st -> 0 <= ip_len st ->
  sem (ipr_bytes start st bm) = sem st ++ bits_from bm start (ip_len st) /\
  0 <= ip_count (ipr_bytes start st bm).
Proof.
  induction bm as [|b r IH]; intros start st Hs Hc Hl; cbn [ipr_bytes bits_from].
  - rewrite app_nil_r. split; [reflexivity|exact Hc].
  - destruct (ipr_byte_sem start st b Hs Hc Hl) as (H1 & H2 & H3). cbv zeta in *.
    assert (Hs0 : 0 <= 0 < 8) by lia.
    assert (Hl' : 0 <= ip_len (ipr_byte start st b)) by (rewrite H2; lia).
    destruct (IH 0 (ipr_byte start st b) Hs0 H3 Hl') as (K1 & K2).
    rewrite K1, H1, H2, <- app_assoc. split; [reflexivity|exact K2].
Qed.

Theorem iter_partial_runs_bits bm start len runs :
  0 <= start < 8 -> 0 <= len ->
  iter_partial_runs bm start len = Ok runs -> expand runs = bits_from bm start len.
Proof.
  intros Hs Hl. unfold iter_partial_runs. destruct bm as [|b0 r]; [discriminate|].
  set (st0 := {| ip_type := bit_of b0 start; ip_count := 0; ip_len := len; ip_out := [] |}).
  intros [= <-].
  change (ipr_bytes 0 (ipr_byte start st0 b0) r) with (ipr_bytes start st0 (b0 :: r)).
  destruct (ipr_bytes_sem (b0 :: r) start st0 Hs ltac:(cbn; lia) ltac:(cbn; lia)) as (H1 & H2).
  set (st := ipr_bytes start st0 (b0 :: r)) in *.
  assert (Hsem0 : sem st0 = []) by reflexivity. rewrite Hsem0 in H1. cbn [app ip_len st0] in H1.
  rewrite <- H1. unfold sem.
  destruct (Z.eqb_spec (ip_count st) 0) as [E|E].
  - assert (Hz : zrepeat (ip_type st) (ip_count st) = []) by (rewrite E; reflexivity).
    rewrite Hz, app_nil_r. reflexivity.
  - cbn [rev]. rewrite expand_app. unfold expand at 2. cbn [flat_map fst snd]. now rewrite app_nil_r.
Qed.


(* ---------- run counts are never negative ---------- *)
Definition nn (r : Z * Z) : Prop := 0 <= snd r.

Lemma ipr_bit_nn byte st i : 0 <= ip_count st -> Forall nn (ip_out st) -> Forall nn (ip_out (ipr_bit byte st i)).
Proof.
  intros Hc Ho. unfold ipr_bit. destruct (bit_of byte i =? ip_type st); cbn [ip_out]; [exact Ho|].
  constructor; [exact Hc|exact Ho].
Qed.

Lemma ipr_bits_nn byte : forall k s st, 0 <= ip_count st -> Forall nn (ip_out st) ->
  Forall nn (ip_out (fold_left (ipr_bit byte) (zseq_nat s k) st)).
Proof.
  induction k as [|k IH]; intros s st Hc Ho; [exact Ho|]. cbn [zseq_nat fold_left].
  destruct (ipr_bit_sem byte st s Hc) as (_ & _ & H3). apply IH; [exact H3|]. now apply ipr_bit_nn.
Qed.

Lemma ipr_byte_nn start st byte : 0 <= ip_count st -> Forall nn (ip_out st) ->
  Forall nn (ip_out (ipr_byte start st byte)).
Proof.
  intros Hc Ho. unfold ipr_byte. destruct (_ || _); cbn [ip_out]; [exact Ho|].
  unfold zseq. now apply ipr_bits_nn.
Qed.

Lemma ipr_bytes_nn : forall bm start st,
  0 <= start < 8 -> 0 <= ip_count st -> 0 <= ip_len st -> Forall nn (ip_out st) ->
  Forall nn (ip_out (ipr_bytes start st bm)) /\ 0 <= ip_count (ipr_bytes start st bm).
Proof.
  induction bm as [|b r IH]; intros start st Hs Hc Hl Ho; cbn [ipr_bytes]; [split; assumption|].
  destruct (ipr_byte_sem start st b Hs Hc Hl) as (_ & H2 & H3). cbv zeta in H2.
  apply IH; [lia|exact H3|rewrite H2; lia|now apply ipr_byte_nn].
Qed.

Theorem iter_partial_runs_nonneg bm start len runs :
  0 <= start < 8 -> 0 <= len -> iter_partial_runs bm start len = Ok runs -> Forall nn runs.
Proof.
  intros Hs Hl. unfold iter_partial_runs. destruct bm as [|b0 r]; [discriminate|].
  set (st0 := {| ip_type := bit_of b0 start; ip_count := 0; ip_len := len; ip_out := [] |}).
  intros [= <-].
  change (ipr_bytes 0 (ipr_byte start st0 b0) r) with (ipr_bytes start st0 (b0 :: r)).
  destruct (ipr_bytes_nn (b0 :: r) start st0 Hs ltac:(cbn; lia) ltac:(cbn; lia) ltac:(constructor)) as [Ho Hc].
  apply Forall_rev. destruct (ip_count (ipr_bytes start st0 (b0 :: r)) =? 0); [exact Ho|].
  constructor; [exact Hc|exact Ho].
Qed.
(* bits_from agrees with indexing the bitmap *)
Definition bm_bit (bm : list Z) (i : Z) : Z := bit_of (nth (Z.to_nat (i / 8)) bm 0) (i mod 8).

Lemma bits_from_zero : forall bm s, 0 <= s < 8 -> bits_from bm s 0 = [].
Proof.
  induction bm as [|b r IH]; intros s Hs; cbn [bits_from]; [reflexivity|].
  replace (Z.min 0 (8 - s)) with 0 by lia. rewrite Z.sub_0_r, (IH 0) by lia. reflexivity.
Qed.

Lemma bits_from_index : forall bm start len,
  0 <= start < 8 -> 0 <= len -> start + len <= 8 * Z.of_nat (length bm) ->
  bits_from bm start len = map (bm_bit bm) (zseq start len).
Proof.
  induction bm as [|b r IH]; intros start len Hs Hl Hfit; cbn [bits_from].
  - cbn [length] in Hfit. assert (len = 0) by lia. subst. reflexivity.
  - set (k := Z.min len (8 - start)).
    replace len with (k + (len - k)) at 2 by lia.
    rewrite zseq_app by (subst k; lia). rewrite map_app. f_equal.
    + apply map_ext_zseq. intros i Hi. unfold bm_bit.
      assert (Hi8 : 0 <= i < 8) by (subst k; lia).
      rewrite Z.div_small, Z.mod_small by lia. reflexivity.
    + destruct (Z.eq_dec (len - k) 0) as [E|E].
      { rewrite E, bits_from_zero by lia. reflexivity. }
      assert (Hk : k = 8 - start) by (subst k; lia).
      cbn [length] in Hfit. rewrite IH by (try lia; rewrite Nat2Z.inj_succ in Hfit; lia).
      rewrite (zseq_rel (bm_bit (b :: r)) (start + k)).
      apply map_ext_zseq. intros i Hi. unfold bm_bit.
      replace (start + k + i) with (1 * 8 + i) by lia.
      rewrite Z.div_add_l by lia.
      replace ((1 * 8 + i) mod 8) with (i mod 8) by (rewrite Z.add_comm, Z.mod_add; lia).
      assert (0 <= i / 8) by (apply Z.div_pos; lia).
      replace (Z.to_nat (1 + i / 8)) with (S (Z.to_nat (i / 8))) by lia. reflexivity.
Qed.

(* C07, theorem 3: for every bitmap long enough, every start bit 0..7 and every length *)
Theorem iter_partial_runs_correct bm start len runs :
  0 <= start < 8 -> 0 <= len -> start + len <= 8 * Z.of_nat (length bm) ->
  iter_partial_runs bm start len = Ok runs ->
  expand runs = map (bm_bit bm) (zseq start len).
Proof.
  intros Hs Hl Hfit Hrun. rewrite (iter_partial_runs_bits bm start len runs Hs Hl Hrun).
  now apply bits_from_index.
Qed.

(* the 12 pinned test vectors of tests/test_vhdx.py hold of the model *)
Example pinned_partial_runs :
  iter_partial_runs [255] 0 8 = Ok [(1, 8)] /\
  iter_partial_runs [255] 4 4 = Ok [(1, 4)] /\
  iter_partial_runs [0] 0 8 = Ok [(0, 8)] /\
  iter_partial_runs [0] 4 4 = Ok [(0, 4)] /\
  iter_partial_runs [255; 0] 0 8 = Ok [(1, 8)] /\
  iter_partial_runs [255; 0] 4 8 = Ok [(1, 4); (0, 4)] /\
  iter_partial_runs [0; 0] 0 12 = Ok [(0, 12)] /\
  iter_partial_runs [0; 255] 4 8 = Ok [(0, 4); (1, 4)] /\
  iter_partial_runs [240; 240] 0 16 = Ok [(0, 4); (1, 4); (0, 4); (1, 4)] /\
  iter_partial_runs [15; 15] 0 16 = Ok [(1, 4); (0, 4); (1, 4); (0, 4)] /\
  iter_partial_runs [0] 0 6 = Ok [(0, 6)] /\
  iter_partial_runs [0] 1 6 = Ok [(0, 6)].
Proof. vm_compute. repeat split. Qed.
