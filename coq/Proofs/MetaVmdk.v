(* Proofs/MetaVmdk.v — VMDK descriptor text: key/value lines decode to the stored key and
   value (quoted, with spaces and any characters inside); extent lines decode to their
   fields (checked on the writer's shapes). *)
From Coq Require Import String ZArith List Bool Lia.
From DH Require Import Base.Plan Gen.MetaVmdkTables Model.MetaCodec Model.MetaVmdk.
Import ListNotations.
Open Scope list_scope.
Open Scope Z_scope.

(* ---------- strip ---------- *)
Definition clean (p : Z -> bool) (s : list Z) : Prop :=
  match s with [] => True | x :: _ => p x = false end.

Lemma lstrip_clean p s : clean p s -> lstrip p s = s.
Proof. destruct s as [|x r]; cbn; [reflexivity|]. now intros ->. Qed.

Lemma rstrip_clean p s : clean p (rev s) -> rstrip p s = s.
Proof. intros H. unfold rstrip. rewrite lstrip_clean by assumption. apply rev_involutive. Qed.

Lemma rstrip_snoc p s q : p q = true -> rstrip p (s ++ [q]) = rstrip p s.
Proof. intros H. unfold rstrip. rewrite rev_app_distr. cbn [rev app lstrip]. now rewrite H. Qed.

Lemma strip_clean p s : clean p s -> clean p (rev s) -> strip p s = s.
Proof. intros H1 H2. unfold strip. rewrite lstrip_clean by assumption. now apply rstrip_clean. Qed.

Lemma strip_quoted p v q :
  p q = true -> clean p v -> clean p (rev v) -> strip p (q :: v ++ [q]) = v.
Proof.
  intros Hq H1 H2. unfold strip. cbn [lstrip]. rewrite Hq.
  destruct v as [|x v'].
  - cbn [app lstrip]. rewrite Hq. reflexivity.
  - rewrite (lstrip_clean p ((x :: v') ++ [q])) by exact H1.
    rewrite rstrip_snoc by assumption. now apply rstrip_clean.
Qed.

(* ---------- partition ---------- *)
Lemma partition_on_app c a b :
  forallb (fun x => negb (x =? c)) a = true -> partition_on c (a ++ c :: b) = (a, true, b).
Proof.
  induction a as [|x a IH]; intros H; cbn [app partition_on].
  - now rewrite Z.eqb_refl.
  - cbn [forallb] in H. apply andb_prop in H as [Hx Ha].
    destruct (x =? c); [discriminate|]. now rewrite (IH Ha).
Qed.

(* ---------- one key/value line ---------- *)
Definition d_put (d : descriptor) (k v : list Z) : descriptor :=
  if starts_with (lit "ddb.") k
  then {| dd_attr := dd_attr d; dd_extents := dd_extents d; dd_ddb := dict_put k v (dd_ddb d);
          dd_sectors := dd_sectors d |}
  else {| dd_attr := dict_put k v (dd_attr d); dd_extents := dd_extents d; dd_ddb := dd_ddb d;
          dd_sectors := dd_sectors d |}.

Record kv_ok (kv : list Z * list Z) : Prop := {
  k_nonempty : fst kv <> [];
  k_no_eq : forallb (fun x => negb (x =? 61)) (fst kv) = true;
  k_no_hash : match fst kv with x :: _ => (x =? 35) = false | [] => True end;
  k_clean_l : clean is_space (fst kv);
  k_clean_r : clean is_space (rev (fst kv));
  v_clean_l : clean is_space_or_quote (snd kv);
  v_clean_r : clean is_space_or_quote (rev (snd kv));
}.

Definition not_extent_line (line : list Z) : Prop :=
  existsb (fun p => starts_with p line) extent_prefixes = false.

Lemma rev_render_kv k v : rev (render_kv (k, v)) = 34 :: rev (k ++ [61; 34] ++ v).
Proof.
  unfold render_kv. cbn [fst snd].
  replace (k ++ [61] ++ [34] ++ v ++ [34]) with ((k ++ [61; 34] ++ v) ++ [34])
    by (repeat rewrite <- app_assoc; reflexivity).
  now rewrite rev_app_distr.
Qed.

Theorem kv_line_roundtrip d kv :
  kv_ok kv -> not_extent_line (render_kv kv) -> parse_line d (render_kv kv) = Ok (d_put d (fst kv) (snd kv)).
Proof.
  destruct kv as [k v]. intros [Hne Heq Hh Hkl Hkr Hvl Hvr] Hnx. cbn [fst snd] in *.
  unfold parse_line.
  assert (Hstrip : strip is_space (render_kv (k, v)) = render_kv (k, v)).
  { apply strip_clean.
    - unfold render_kv. cbn [fst snd]. destruct k as [|x k']; [contradiction|exact Hkl].
    - rewrite rev_render_kv. reflexivity. }
  rewrite Hstrip. unfold not_extent_line in Hnx. rewrite Hnx. clear Hstrip Hnx.
  unfold render_kv. cbn [fst snd].
  destruct k as [|c0 k']; [contradiction|]. cbn [app]. rewrite Hh.
  pose proof (partition_on_app 61 (c0 :: k') (34 :: v ++ [34]) Heq) as Hp. cbn [app] in Hp |- *.
  rewrite Hp.
  rewrite (strip_clean is_space (c0 :: k') Hkl Hkr).
  rewrite (strip_quoted is_space_or_quote v 34 eq_refl Hvl Hvr).
  unfold d_put. destruct (starts_with (lit "ddb.") (c0 :: k')); reflexivity.
Qed.

(* any number of key/value lines: the dictionaries hold exactly the stored pairs (Python dict semantics) *)
Theorem descriptor_kv_roundtrip kvs : forall d,
  Forall kv_ok kvs -> Forall (fun kv => not_extent_line (render_kv kv)) kvs ->
  parse_lines d (map render_kv kvs) = Ok (fold_left (fun d kv => d_put d (fst kv) (snd kv)) kvs d).
Proof.
  induction kvs as [|kv kvs IH]; intros d Hok Hnx; [reflexivity|].
  cbn [map parse_lines fold_left].
  rewrite (kv_line_roundtrip d kv (Forall_inv Hok) (Forall_inv Hnx)). cbn [bind].
  apply IH; [exact (Forall_inv_tail Hok)|exact (Forall_inv_tail Hnx)].
Qed.

(* lines are recovered from the text *)
Lemma split_on_join c (l : list Z) ls :
  forallb (fun x => negb (x =? c)) l = true ->
  split_on c (l ++ c :: ls) = l :: split_on c ls.
Proof.
  induction l as [|x l IH]; intros H; cbn [app split_on].
  - now rewrite Z.eqb_refl.
  - cbn [forallb] in H. apply andb_prop in H as [Hx Hl].
    destruct (x =? c); [discriminate|]. now rewrite (IH Hl).
Qed.

(* ---------- extent lines: the matcher on the writer's shapes ---------- *)
Definition ext_fields (line : list Z) :=
  match re_search re_extent line with
  | Some c => match extent_of line c with
              | Ok e => Some (x_access e, x_sectors e, x_type e, x_filename e, x_start e, x_partition e, x_device e)
              | _ => None
              end
  | None => None
  end.

Example extent_sparse :
  ext_fields (lit "RW 4192256 SPARSE ""my disk-s001.vmdk""")
  = Some (lit "RW", 4192256, lit "SPARSE", Some (lit "my disk-s001.vmdk"), None, None, None).
Proof. vm_compute. reflexivity. Qed.

Example extent_vmfssparse_backtracks :
  ext_fields (lit "RDONLY 100 VMFSSPARSE ""a b.vmdk""")
  = Some (lit "RDONLY", 100, lit "VMFSSPARSE", Some (lit "a b.vmdk"), None, None, None).
Proof. vm_compute. reflexivity. Qed.

Example extent_sesparse :
  ext_fields (lit "RW 2048 SESPARSE ""d-sesparse.vmdk""")
  = Some (lit "RW", 2048, lit "SESPARSE", Some (lit "d-sesparse.vmdk"), None, None, None).
Proof. vm_compute. reflexivity. Qed.

Example extent_flat_start :
  ext_fields (lit "RW 100 FLAT ""x-flat.vmdk"" 0")
  = Some (lit "RW", 100, lit "FLAT", Some (lit "x-flat.vmdk"), Some 0, None, None).
Proof. vm_compute. reflexivity. Qed.

Example extent_rdm_full :
  ext_fields (lit "NOACCESS 7 VMFSRDM ""r.vmdk"" 5 part dev")
  = Some (lit "NOACCESS", 7, lit "VMFSRDM", Some (lit "r.vmdk"), Some 5, Some (lit "part"), Some (lit "dev")).
Proof. vm_compute. reflexivity. Qed.

Example extent_zero : ext_fields (lit "RW 63 ZERO") = Some (lit "RW", 63, lit "ZERO", None, None, None, None).
Proof. vm_compute. reflexivity. Qed.

(* every type the grammar lists is accepted with a quoted file name *)
Lemma every_type_accepted :
  forallb (fun t => match ext_fields (lit "RW 1 " ++ t ++ lit " ""f""") with
                    | Some (_, _, t', Some fn, None, None, None) => list_eqb t t' && list_eqb fn (lit "f")
                    | _ => false
                    end) EXTENT_TYPES = true.
Proof. vm_compute. reflexivity. Qed.

(* every extent type VMDK.__init__ dispatches on is a type the grammar accepts (generated lists) *)
Lemma wired_types_in_grammar :
  forallb (fun t => existsb (list_eqb t) EXTENT_TYPES) (meta_wired_sparse_types ++ meta_wired_raw_types) = true.
Proof. vm_compute. reflexivity. Qed.

(* the line-prefix test of DiskDescriptor.parse and the grammar agree on the access modes *)
Lemma prefixes_match_access : extent_prefixes = map (fun a => a ++ [32]) ACCESS_MODES.
Proof. reflexivity. Qed.
