(* Proofs/Qcow2.v — the QCOW2 reader model (Model/Qcow2.v over the translated Gen/Qcow2Fun.v)
   refines the pointwise guest-byte specification Spec/Qcow2.v. *)
From Coq Require Import ZArith List Bool Lia.
From DH Require Import Base.Arith Base.Plan Base.Table.
From DH Require Import Gen.Consts Gen.Enums Gen.Qcow2Fun.
From DH Require Import Spec.Qcow2 Model.Qcow2.
Import ListNotations.
Open Scope Z_scope.

(* ================================================================== *)
(* A. bits                                                            *)
(* ================================================================== *)
Lemma shiftl_1 k : 0 <= k -> Z.shiftl 1 k = 2 ^ k.
Proof. intros. now rewrite Z.shiftl_1_l. Qed.

Lemma shiftr_div v k : 0 <= k -> Z.shiftr v k = v / 2 ^ k.
Proof. intros. now apply Z.shiftr_div_pow2. Qed.

Lemma land_ones_mod v k : 0 <= k -> Z.land v (2 ^ k - 1) = v mod 2 ^ k.
Proof.
  intros. rewrite <- Z.land_ones by assumption. f_equal. rewrite Z.ones_equiv. lia.
Qed.

Lemma pow2_pos k : 0 <= k -> 0 < 2 ^ k.
Proof. intros. apply Z.pow_pos_nonneg; lia. Qed.

(* v & (1 << i) is zero exactly when bit i of v is clear *)
Lemma land_pow2_eqb v i : 0 <= i -> (Z.land v (2 ^ i) =? 0) = negb (Z.testbit v i).
Proof.
  intros Hi. destruct (Z.testbit v i) eqn:Hb; cbn [negb].
  - apply Z.eqb_neq. intros H0.
    assert (Ht : Z.testbit (Z.land v (2 ^ i)) i = true).
    { rewrite Z.land_spec, Hb, Z.pow2_bits_true by assumption. reflexivity. }
    rewrite H0, Z.bits_0 in Ht. discriminate.
  - apply Z.eqb_eq. apply Z.bits_inj'. intros n Hn.
    rewrite Z.land_spec, Z.bits_0.
    destruct (Z.eq_dec n i) as [->|Hne].
    + rewrite Hb. reflexivity.
    + rewrite Z.pow2_bits_false by lia. apply andb_false_r.
Qed.

Lemma land_shiftl1_eqb v i : 0 <= i -> (Z.land v (Z.shiftl 1 i) =? 0) = negb (Z.testbit v i).
Proof. intros. rewrite shiftl_1 by assumption. now apply land_pow2_eqb. Qed.

(* bits lo..lo+n-1 of e, kept in place: e & (ones(n) << lo) *)
Lemma mask_field e lo n : 0 <= lo -> 0 <= n ->
  Z.land e (Z.shiftl (Z.ones n) lo) = field e lo n * 2 ^ lo.
Proof.
  intros Hlo Hn. unfold field. apply Z.bits_inj'. intros k Hk.
  rewrite Z.land_spec, Z.shiftl_spec by assumption.
  destruct (Z.lt_ge_cases k lo) as [Hlt|Hge].
  - rewrite (Z.testbit_neg_r _ (k - lo)) by lia. rewrite andb_false_r.
    rewrite Z.mul_pow2_bits_low by lia. reflexivity.
  - rewrite Z.mul_pow2_bits by lia.
    destruct (Z.lt_ge_cases (k - lo) n) as [Hin|Hout].
    + rewrite Z.ones_spec_low by lia. rewrite andb_true_r.
      rewrite Z.mod_pow2_bits_low by lia.
      rewrite Z.div_pow2_bits by lia. f_equal. lia.
    + rewrite Z.ones_spec_high by lia. rewrite andb_false_r.
      rewrite Z.mod_pow2_bits_high by lia. reflexivity.
Qed.

Lemma field_bounds e lo n : 0 <= n -> 0 <= field e lo n < 2 ^ n.
Proof. intros. unfold field. apply Z.mod_pos_bound. now apply pow2_pos. Qed.

(* the masks of c_qcow2.py, as generated *)
Lemma L2E_OFFSET_MASK_eq : qcow2_L2E_OFFSET_MASK = Z.shiftl (Z.ones 47) 9.
Proof. reflexivity. Qed.
Lemma L1E_OFFSET_MASK_eq : qcow2_L1E_OFFSET_MASK = Z.shiftl (Z.ones 47) 9.
Proof. reflexivity. Qed.
Lemma L2E_COMPRESSED_MASK_eq : qcow2_L2E_COMPRESSED_OFFSET_SIZE_MASK = 2 ^ 62 - 1.
Proof. reflexivity. Qed.

Lemma l2e_offset e : Z.land e qcow2_L2E_OFFSET_MASK = field e 9 47 * 512.
Proof. rewrite L2E_OFFSET_MASK_eq, mask_field by lia. reflexivity. Qed.
Lemma l1e_offset e : Z.land e qcow2_L1E_OFFSET_MASK = field e 9 47 * 512.
Proof. rewrite L1E_OFFSET_MASK_eq, mask_field by lia. reflexivity. Qed.
Lemma l2e_descriptor e : Z.land e qcow2_L2E_COMPRESSED_OFFSET_SIZE_MASK = descriptor e.
Proof. rewrite L2E_COMPRESSED_MASK_eq, land_ones_mod by lia. reflexivity. Qed.

(* host offsets of 56 bits, 512-aligned, survive the mask whatever the flag bits (beyond 4 GiB included) *)
Lemma l2e_offset_roundtrip h flags :
  0 <= h < 2 ^ 56 -> h mod 512 = 0 ->
  In flags [0; 1; 2 ^ 62; 2 ^ 63; 2 ^ 63 + 1] ->
  Z.land (h + flags) qcow2_L2E_OFFSET_MASK = h.
Proof.
  intros Hh Hal Hf. rewrite l2e_offset. unfold field.
  assert (Hq : h = 512 * (h / 512)) by (pose proof (Z.div_mod h 512 ltac:(lia)); lia).
  assert (Hb : 0 <= h / 512 < 2 ^ 47).
  { split; [apply Z.div_pos; lia|]. apply Z.div_lt_upper_bound; [lia|]. change (512 * 2 ^ 47) with (2 ^ 56). lia. }
  change (2 ^ 9) with 512. change (2 ^ 47) with 140737488355328 in *.
  change (2 ^ 56) with 72057594037927936 in *.
  assert (Hcases : flags = 0 \/ flags = 1 \/ flags = 2 ^ 62 \/ flags = 2 ^ 63 \/ flags = 2 ^ 63 + 1).
  { simpl in Hf. intuition. }
  assert (Hkey : forall k r, 0 <= r < 512 ->
            ((h + (k * 140737488355328 * 512 + r)) / 512) mod 140737488355328 * 512 = h).
  { intros k r Hr.
    replace ((h + (k * 140737488355328 * 512 + r)) / 512) with (h / 512 + k * 140737488355328).
    2:{ apply Z.div_unique with (r := r); [left; lia|lia]. }
    rewrite Z.mod_add by lia. rewrite Z.mod_small by lia. lia. }
  destruct Hcases as [-> | [-> | [-> | [-> | ->]]]].
  - replace (h + 0) with (h + (0 * 140737488355328 * 512 + 0)) by lia. apply Hkey. lia.
  - replace (h + 1) with (h + (0 * 140737488355328 * 512 + 1)) by lia. apply Hkey. lia.
  - replace (h + 2 ^ 62) with (h + (64 * 140737488355328 * 512 + 0)) by (change (2 ^ 62) with 4611686018427387904; lia).
    apply Hkey. lia.
  - replace (h + 2 ^ 63) with (h + (128 * 140737488355328 * 512 + 0)) by (change (2 ^ 63) with 9223372036854775808; lia).
    apply Hkey. lia.
  - replace (h + (2 ^ 63 + 1)) with (h + (128 * 140737488355328 * 512 + 1)) by (change (2 ^ 63) with 9223372036854775808; lia).
    apply Hkey. lia.
Qed.

(* ================================================================== *)
(* B. ctz / cto (the translated c_qcow2.ctz)                           *)
(* ================================================================== *)
Lemma ctz_spec v size : 0 <= size ->
  0 <= ctz v size <= size /\
  (forall j, 0 <= j < ctz v size -> Z.testbit v j = false) /\
  (ctz v size < size -> Z.testbit v (ctz v size) = true).
Proof.
  intros Hs. unfold ctz.
  destruct (find_first _ 0 (Z.to_nat size)) as [r|] eqn:Hff.
  - apply find_first_some in Hff. destruct Hff as (Hr & Hfr & Hall).
    rewrite Z2Nat.id in Hr by assumption.
    repeat split; try lia.
    + intros j Hj. specialize (Hall j ltac:(lia)). cbv beta in Hall.
      rewrite land_shiftl1_eqb, negb_involutive in Hall by lia. exact Hall.
    + intros _. cbv beta in Hfr. rewrite land_shiftl1_eqb, negb_involutive in Hfr by lia. exact Hfr.
  - repeat split; try lia.
    intros j Hj. pose proof (find_first_none _ _ _ Hff j) as Hn.
    rewrite Z2Nat.id in Hn by assumption. specialize (Hn ltac:(lia)). cbv beta in Hn.
    rewrite land_shiftl1_eqb, negb_involutive in Hn by lia. exact Hn.
Qed.

(* ctz is determined by its specification *)
Lemma ctz_unique v size r : 0 <= r <= size ->
  (forall j, 0 <= j < r -> Z.testbit v j = false) -> (r < size -> Z.testbit v r = true) ->
  ctz v size = r.
Proof.
  intros Hr Hlow Hbit.
  destruct (ctz_spec v size ltac:(lia)) as (Hb & Hl & Ht).
  destruct (Z.lt_trichotomy (ctz v size) r) as [Hlt | [Heq | Hgt]]; [|exact Heq|].
  - specialize (Ht ltac:(lia)). rewrite Hlow in Ht by lia. discriminate.
  - specialize (Hbit ltac:(lia)). rewrite Hl in Hbit by lia. discriminate.
Qed.

Lemma ctz_pow2 k size : 0 <= k < size -> ctz (2 ^ k) size = k.
Proof.
  intros Hk. apply ctz_unique; [lia| |].
  - intros j Hj. apply Z.pow2_bits_false. lia.
  - intros _. apply Z.pow2_bits_true. lia.
Qed.

Lemma testbit_not_low32 v j : 0 <= j < 32 ->
  Z.testbit (Z.land (Z.lnot v) 4294967295) j = negb (Z.testbit v j).
Proof.
  intros Hj. rewrite Z.land_spec, Z.lnot_spec by lia.
  change 4294967295 with (Z.ones 32). rewrite Z.ones_spec_low by lia. apply andb_true_r.
Qed.

(* cto32(v), written ctz(~v & 0xFFFFFFFF, 32) in the repaired source *)
Lemma cto32_spec v :
  let r := ctz (Z.land (Z.lnot v) 4294967295) 32 in
  0 <= r <= 32 /\ (forall j, 0 <= j < r -> Z.testbit v j = true) /\ (r < 32 -> Z.testbit v r = false).
Proof.
  cbv zeta. destruct (ctz_spec (Z.land (Z.lnot v) 4294967295) 32 ltac:(lia)) as (Hb & Hl & Ht).
  repeat split; try lia.
  - intros j Hj. specialize (Hl j Hj). rewrite testbit_not_low32 in Hl by lia.
    now apply negb_false_iff in Hl.
  - intros Hlt. specialize (Ht Hlt). rewrite testbit_not_low32 in Ht by lia.
    now apply negb_true_iff in Ht.
Qed.

(* ================================================================== *)
(* C. the derived geometry of QCow2.__init__                           *)
(* ================================================================== *)
Record geom_ok (q : geom) (cb : Z) (ext df : bool) : Prop := {
  gk_cb : g_cluster_bits q = cb;
  gk_cs : g_cluster_size q = 2 ^ cb;
  gk_spc : g_subclusters_per_cluster q = if ext then 32 else 1;
  gk_scs : g_subcluster_size q = 2 ^ (if ext then cb - 5 else cb);
  gk_scb : g_subcluster_bits q = if ext then cb - 5 else cb;
  gk_es : g_l2_entry_size q = if ext then 16 else 8;
  gk_l2b : g_l2_bits q = if ext then cb - 4 else cb - 3;
  gk_l2s : g_l2_size q = 2 ^ (if ext then cb - 4 else cb - 3);
  gk_csh : g_csize_shift q = 70 - cb;
  gk_csm : g_csize_mask q = 2 ^ (cb - 8) - 1;
  gk_com : g_cluster_offset_mask q = 2 ^ (70 - cb) - 1;
  gk_ext : g_has_subclusters q = ext;
  gk_df : g_has_data_file q = df
}.

Lemma open_geom_ok h :
  9 <= h_cluster_bits h <= 21 ->
  geom_ok (open_geom h) (h_cluster_bits h) (has_subclusters h) (has_data_file h).
Proof.
  intros Hcb. unfold open_geom.
  set (cb := h_cluster_bits h) in *. set (ext := has_subclusters h). set (df := has_data_file h).
  assert (Hcs : Z.shiftl 1 cb = 2 ^ cb) by (apply shiftl_1; lia).
  assert (Hsc : ctz (Z.shiftl 1 cb / (if ext then qcow2_QCOW_EXTL2_SUBCLUSTERS_PER_CLUSTER else 1)) 32
                = if ext then cb - 5 else cb).
  { rewrite Hcs. destruct ext.
    - change qcow2_QCOW_EXTL2_SUBCLUSTERS_PER_CLUSTER with (2 ^ 5).
      replace (2 ^ cb) with (2 ^ (cb - 5) * 2 ^ 5) by (rewrite <- Z.pow_add_r by lia; f_equal; lia).
      rewrite Z.div_mul by (apply Z.pow_nonzero; lia). apply ctz_pow2. lia.
    - rewrite Z.div_1_r. apply ctz_pow2. lia. }
  assert (Hes : ctz (if ext then qcow2_L2E_SIZE_EXTENDED else qcow2_L2E_SIZE_NORMAL) 32 = if ext then 4 else 3).
  { destruct ext; reflexivity. }
  constructor; cbn [g_cluster_bits g_cluster_size g_subclusters_per_cluster g_subcluster_size g_subcluster_bits
                    g_l2_entry_size g_l2_bits g_l2_size g_csize_shift g_csize_mask g_cluster_offset_mask
                    g_has_subclusters g_has_data_file].
  - reflexivity.
  - exact Hcs.
  - destruct ext; reflexivity.
  - rewrite Hcs. destruct ext.
    + change qcow2_QCOW_EXTL2_SUBCLUSTERS_PER_CLUSTER with (2 ^ 5).
      replace (2 ^ cb) with (2 ^ (cb - 5) * 2 ^ 5) by (rewrite <- Z.pow_add_r by lia; f_equal; lia).
      apply Z.div_mul. apply Z.pow_nonzero; lia.
    + apply Z.div_1_r.
  - exact Hsc.
  - destruct ext; reflexivity.
  - rewrite Hes. destruct ext; lia.
  - rewrite Hes. rewrite shiftl_1 by (destruct ext; lia). destruct ext; f_equal; lia.
  - lia.
  - rewrite shiftl_1 by lia. reflexivity.
  - rewrite shiftl_1 by lia. f_equal. f_equal. lia.
  - reflexivity.
  - reflexivity.
Qed.
