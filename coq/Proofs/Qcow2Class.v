(* Proofs/Qcow2Class.v — the translated index arithmetic and (sub-)cluster classification of
   qcow2.py, read in terms of div/mod and single bits. *)
From Coq Require Import ZArith List Bool Lia.
From DH Require Import Base.Arith Base.Plan Base.Table.
From DH Require Import Gen.Consts Gen.Enums Gen.Qcow2Fun.
From DH Require Import Spec.Qcow2 Model.Qcow2 Proofs.Qcow2Bits.
Import ListNotations.
Open Scope Z_scope.

(* ================================================================== *)
(* D. index arithmetic                                                *)
(* ================================================================== *)
Section Index.
  Variables (q : geom) (cb : Z) (ext df : bool).
  Hypothesis G : geom_ok q cb ext df.
  Hypothesis Hcb : 9 <= cb <= 21.

  Definition l2b : Z := if ext then cb - 4 else cb - 3.
  Definition scb : Z := if ext then cb - 5 else cb.
  Definition spc : Z := if ext then 32 else 1.

  Lemma l2b_pos : 0 <= l2b. Proof. unfold l2b; destruct ext; lia. Qed.
  Lemma scb_pos : 0 <= scb. Proof. unfold scb; destruct ext; lia. Qed.

  Lemma into_cluster_eq o : offset_into_cluster q o = o mod 2 ^ cb.
  Proof. unfold offset_into_cluster. rewrite (gk_cs _ _ _ _ G). apply land_ones_mod. lia. Qed.

  Lemma l2_index_eq o : offset_to_l2_index q o = (o / 2 ^ cb) mod 2 ^ l2b.
  Proof.
    unfold offset_to_l2_index. rewrite (gk_cb _ _ _ _ G), (gk_l2s _ _ _ _ G).
    fold l2b. rewrite land_ones_mod by apply l2b_pos. rewrite shiftr_div by lia. reflexivity.
  Qed.

  Lemma l1_index_eq o : offset_to_l1_index q o = o / 2 ^ cb / 2 ^ l2b.
  Proof.
    unfold offset_to_l1_index. rewrite (gk_cb _ _ _ _ G), (gk_l2b _ _ _ _ G). fold l2b.
    pose proof l2b_pos. rewrite shiftr_div by lia.
    rewrite Z.pow_add_r by lia. rewrite Z.mul_comm.
    pose proof (pow2_pos cb ltac:(lia)). pose proof (pow2_pos l2b ltac:(lia)).
    rewrite Z.div_div by lia. reflexivity.
  Qed.

  Lemma sc_index_eq o : offset_to_sc_index q o = (o / 2 ^ scb) mod spc.
  Proof.
    unfold offset_to_sc_index. rewrite (gk_scb _ _ _ _ G), (gk_spc _ _ _ _ G). fold scb. unfold spc.
    pose proof scb_pos. rewrite shiftr_div by lia.
    destruct ext.
    - change (32 - 1) with (2 ^ 5 - 1). rewrite land_ones_mod by lia. reflexivity.
    - change (1 - 1) with 0. rewrite Z.land_0_r, Z.mod_1_r. reflexivity.
  Qed.

  Lemma size_to_clusters_eq n : size_to_clusters q n = (n + (2 ^ cb - 1)) / 2 ^ cb.
  Proof.
    unfold size_to_clusters. rewrite (gk_cs _ _ _ _ G), (gk_cb _ _ _ _ G). apply shiftr_div. lia.
  Qed.

  Lemma sc_index_range o : 0 <= offset_to_sc_index q o < spc.
  Proof. rewrite sc_index_eq. apply Z.mod_pos_bound. unfold spc; destruct ext; lia. Qed.

  Lemma l2_index_range o : 0 <= offset_to_l2_index q o < 2 ^ l2b.
  Proof. rewrite l2_index_eq. apply Z.mod_pos_bound. apply pow2_pos, l2b_pos. Qed.
End Index.

(* ================================================================== *)
(* E. classification                                                  *)
(* ================================================================== *)
Lemma shiftl_pow2 s k : 0 <= s -> 0 <= k -> Z.shiftl (2 ^ s) k = 2 ^ (s + k).
Proof. intros. rewrite Z.shiftl_mul_pow2 by assumption. now rewrite Z.pow_add_r. Qed.

Lemma ones_pred k : 0 <= k -> Z.shiftl 1 k - 1 = Z.ones k.
Proof. intros. rewrite shiftl_1 by assumption. rewrite Z.ones_equiv. lia. Qed.

(* the two tests of get_subcluster_type that depend on the sub-cluster index *)
Lemma sc_zero_test bm s : 0 <= s ->
  (Z.land bm (Z.shiftl (Z.shiftl 1 s) 32) =? 0) = negb (Z.testbit bm (s + 32)).
Proof. intros. rewrite shiftl_1, shiftl_pow2 by lia. apply land_pow2_eqb. lia. Qed.

Lemma sc_alloc_test bm s : 0 <= s ->
  (Z.land bm (Z.shiftl 1 s) =? 0) = negb (Z.testbit bm s).
Proof. intros. now apply land_shiftl1_eqb. Qed.

(* no sub-cluster is both allocated and zero *)
Definition both_any (bm : Z) : bool := negb (Z.land (Z.shiftr bm 32) bm =? 0).
(* some allocation bit is set *)
Definition alloc_any (bm : Z) : bool := negb (Z.land bm (Z.shiftl 1 32 - 1) =? 0).

Lemma both_any_false bm s : both_any bm = false -> 0 <= s ->
  Z.testbit bm s = true -> Z.testbit bm (s + 32) = false.
Proof.
  unfold both_any. intros H Hs Hb. apply negb_false_iff, Z.eqb_eq in H.
  assert (Ht : Z.testbit (Z.land (Z.shiftr bm 32) bm) s = false) by (rewrite H; apply Z.bits_0).
  rewrite Z.land_spec, Z.shiftr_spec, Hb, andb_true_r in Ht by assumption. exact Ht.
Qed.

Lemma alloc_any_false bm s : alloc_any bm = false -> 0 <= s < 32 -> Z.testbit bm s = false.
Proof.
  unfold alloc_any. intros H Hs. apply negb_false_iff, Z.eqb_eq in H.
  rewrite ones_pred in H by lia.
  assert (Ht : Z.testbit (Z.land bm (Z.ones 32)) s = false) by (rewrite H; apply Z.bits_0).
  rewrite Z.land_spec, Z.ones_spec_low, andb_true_r in Ht by lia. exact Ht.
Qed.

(* get_subcluster_type with extended L2 entries, as a function of the two bits of sub-cluster s *)
Definition gst_ext (q : geom) (e bm s : Z) : res Z :=
  let c := get_cluster_type q e in
  if c =? 4 then Ok T_COMPRESSED
  else if c =? 3 then
    if both_any bm then Ok T_INVALID
    else if Z.testbit bm (s + 32) then Ok T_ZERO_ALLOC
    else if Z.testbit bm s then Ok T_NORMAL else Ok T_UNALLOC_ALLOC
  else if c =? 0 then
    if alloc_any bm then Ok T_INVALID
    else if Z.testbit bm (s + 32) then Ok T_ZERO_PLAIN else Ok T_UNALLOC_PLAIN
  else Err.

Lemma gst_ext_eq q e bm s : g_has_subclusters q = true -> 0 <= s ->
  get_subcluster_type q e bm s = gst_ext q e bm s.
Proof.
  intros Hx Hs. unfold get_subcluster_type, gst_ext. rewrite Hx.
  rewrite sc_zero_test, sc_alloc_test by assumption.
  fold (both_any bm). fold (alloc_any bm).
  change qcow2_QCow2ClusterType_QCOW2_CLUSTER_COMPRESSED with 4.
  change qcow2_QCow2ClusterType_QCOW2_CLUSTER_NORMAL with 3.
  change qcow2_QCow2ClusterType_QCOW2_CLUSTER_UNALLOCATED with 0.
  cbv zeta.
  destruct (get_cluster_type q e =? 4); [reflexivity|].
  destruct (get_cluster_type q e =? 3).
  - destruct (both_any bm); [reflexivity|].
    rewrite !negb_involutive.
    destruct (Z.testbit bm (s + 32)); [reflexivity|].
    destruct (Z.testbit bm s); reflexivity.
  - destruct (get_cluster_type q e =? 0); [|reflexivity].
    destruct (alloc_any bm); [reflexivity|].
    rewrite !negb_involutive.
    destruct (Z.testbit bm (s + 32)); reflexivity.
Qed.

(* without sub-clusters the type does not depend on bitmap or index *)
Lemma gst_std_indep q e bm s bm' s' : g_has_subclusters q = false ->
  get_subcluster_type q e bm s = get_subcluster_type q e bm' s'.
Proof. intros Hx. unfold get_subcluster_type. rewrite Hx. reflexivity. Qed.

(* bits of the three range values of get_subcluster_range_type *)
Lemma testbit_mask_low from j : 0 <= from -> 0 <= j ->
  Z.testbit (Z.shiftl 1 from - 1) j = (j <? from).
Proof. intros. rewrite ones_pred by assumption. now apply Z.testbit_ones_nonneg. Qed.

Lemma range_val_normal bm from j : 0 <= from -> 0 <= j ->
  Z.testbit (Z.lor bm (Z.shiftl 1 from - 1)) j = Z.testbit bm j || (j <? from).
Proof. intros. rewrite Z.lor_spec, testbit_mask_low by assumption. reflexivity. Qed.

Lemma range_val_zero bm from j : 0 <= from -> 0 <= j ->
  Z.testbit (Z.shiftr (Z.lor bm (Z.shiftl (Z.shiftl 1 from - 1) 32)) 32) j
  = Z.testbit bm (j + 32) || (j <? from).
Proof.
  intros. rewrite Z.shiftr_spec, Z.lor_spec, Z.shiftl_spec by lia.
  replace (j + 32 - 32) with j by lia. rewrite testbit_mask_low by assumption. reflexivity.
Qed.

Lemma range_val_unalloc bm from j : 0 <= from -> 0 <= j < 64 ->
  Z.testbit (Z.land (Z.lor (Z.shiftr bm 32) bm)
                    (Z.land (Z.lnot (Z.shiftl 1 from - 1)) (Z.shiftl 1 64 - 1))) j
  = (Z.testbit bm (j + 32) || Z.testbit bm j) && negb (j <? from).
Proof.
  intros. rewrite !Z.land_spec, Z.lor_spec, Z.shiftr_spec, Z.lnot_spec by lia.
  rewrite testbit_mask_low by lia.
  rewrite (ones_pred 64) by lia. rewrite Z.ones_spec_low by lia. rewrite andb_true_r. reflexivity.
Qed.

Lemma ok_pair_inj (a b c d : Z) : @Ok (Z * Z) (a, b) = Ok (c, d) -> a = c /\ b = d.
Proof. intros H. injection H. auto. Qed.

Lemma ok_inj (a b : Z) : @Ok Z a = Ok b -> a = b.
Proof. intros H. injection H. auto. Qed.

Ltac is_T x :=
  match x with
  | T_UNALLOC_PLAIN => idtac | T_UNALLOC_ALLOC => idtac | T_ZERO_PLAIN => idtac | T_ZERO_ALLOC => idtac
  | T_NORMAL => idtac | T_COMPRESSED => idtac | T_INVALID => idtac
  end.

(* Hty : a nest of ifs = Ok ty0, with side facts about ty0 in the context: every branch is contradictory *)
Ltac ty_side_contra :=
  first [ match goal with
          | H : existsb (Z.eqb ?x) _ = _ |- _ => is_T x; vm_compute in H; discriminate H
          end
        | match goal with
          | H : (?x =? _) = false |- _ => is_T x; vm_compute in H; discriminate H
          end ].

Ltac ty_contra Hty :=
  repeat match type of Hty with (if ?c then _ else _) = _ => destruct c end;
  try discriminate Hty;
  apply ok_inj in Hty; subst;
  ty_side_contra.

(* ---------- get_subcluster_range_type ---------- *)
Definition valid_type (ty : Z) : Prop := 0 <= ty <= 5.

Lemma grt_sound q cb ext df e bm from ty n :
  geom_ok q cb ext df ->
  0 <= from < (if ext then 32 else 1) ->
  get_subcluster_range_type q e bm from = Ok (ty, n) ->
  valid_type ty /\ 1 <= n /\ from + n <= (if ext then 32 else 1) /\
  (ty = T_COMPRESSED -> from + n = (if ext then 32 else 1)) /\
  forall s, from <= s < from + n -> get_subcluster_type q e bm s = Ok ty.
Proof.
  intros G Hfrom. unfold get_subcluster_range_type.
  destruct (get_subcluster_type q e bm from) as [ty0| |] eqn:Hty; cbn [bind]; try discriminate.
  rewrite (gk_ext _ _ _ _ G), (gk_spc _ _ _ _ G).
  change qcow2_QCow2SubclusterType_QCOW2_SUBCLUSTER_COMPRESSED with 5.
  change qcow2_QCow2SubclusterType_QCOW2_SUBCLUSTER_NORMAL with 4.
  destruct ext.
  2:{ (* standard entries: one "sub-cluster" per cluster *)
    change (negb false) with true. rewrite orb_true_l.
    intros Heq; apply ok_pair_inj in Heq; destruct Heq as [<- <-]. assert (from = 0) by lia. subst from.
    assert (Hv : valid_type ty0).
    { unfold get_subcluster_type in Hty. rewrite (gk_ext _ _ _ _ G) in Hty.
      unfold valid_type. cbv zeta in Hty.
      repeat match type of Hty with
             | (if ?c then _ else _) = _ => destruct c
             end; try discriminate; injection Hty as <-; vm_compute; split; discriminate. }
    split; [exact Hv|]. split; [lia|]. split; [lia|]. split; [intros; lia|].
    intros s Hs. assert (s = 0) by lia. subst s. exact Hty. }
  change (negb true) with false. rewrite orb_false_l.
  change (if true then 32 else 1) with 32.
  (* extended entries *)
  assert (Hx : g_has_subclusters q = true) by apply (gk_ext _ _ _ _ G).
  rewrite gst_ext_eq in Hty by (assumption || lia).
  assert (Hall : forall s, 0 <= s -> get_subcluster_type q e bm s = gst_ext q e bm s)
    by (intros; apply gst_ext_eq; assumption).
  unfold gst_ext in Hty. cbv zeta in Hty.
  destruct (ty0 =? 5) eqn:H5.
  { (* compressed *)
    apply Z.eqb_eq in H5. subst ty0. intros Heq; apply ok_pair_inj in Heq; destruct Heq as [<- <-].
    assert (Hc : get_cluster_type q e =? 4 = true).
    { destruct (get_cluster_type q e =? 4); [reflexivity|].
      repeat match type of Hty with (if ?c then _ else _) = _ => destruct c end; discriminate. }
    split; [vm_compute; split; discriminate|]. split; [lia|]. split; [lia|]. split; [intros; lia|].
    intros s Hs. rewrite Hall by lia. unfold gst_ext. cbv zeta. rewrite Hc. reflexivity. }
  destruct (get_cluster_type q e =? 4) eqn:Hc4.
  { injection Hty as <-. discriminate. }
  destruct (ty0 =? 4) eqn:H4.
  { (* NORMAL: trailing ones of the allocation bits *)
    apply Z.eqb_eq in H4. subst ty0.
    destruct (get_cluster_type q e =? 3) eqn:Hc3.
    2:{ repeat match type of Hty with (if ?c then _ else _) = _ => destruct c end; discriminate. }
    destruct (both_any bm) eqn:Hboth; [discriminate|].
    destruct (Z.testbit bm (from + 32)) eqn:Hz; [discriminate|].
    destruct (Z.testbit bm from) eqn:Ha; [|discriminate].
    intros Heq; apply ok_pair_inj in Heq; destruct Heq as [<- <-].
    set (val := Z.lor bm (Z.shiftl 1 from - 1)).
    destruct (cto32_spec val) as (Hb & Hl & Ht). cbv zeta in Hb, Hl, Ht.
    set (r := ctz (Z.land (Z.lnot val) 4294967295) 32) in *.
    assert (Hr : from < r).
    { destruct (Z.lt_ge_cases from r) as [|Hge]; [assumption|].
      specialize (Ht ltac:(lia)). unfold val in Ht. rewrite range_val_normal in Ht by lia.
      destruct (Z.eq_dec r from) as [->|].
      - rewrite Ha in Ht. discriminate.
      - replace (r <? from) with true in Ht by (symmetry; apply Z.ltb_lt; lia).
        rewrite orb_true_r in Ht. discriminate. }
    split; [vm_compute; split; discriminate|]. split; [lia|]. split; [lia|]. split; [discriminate|].
    intros s Hs. rewrite Hall by lia. unfold gst_ext. cbv zeta. rewrite Hc4, Hc3, Hboth.
    assert (Hbs : Z.testbit bm s = true).
    { specialize (Hl s ltac:(lia)). unfold val in Hl. rewrite range_val_normal in Hl by lia.
      replace (s <? from) with false in Hl by (symmetry; apply Z.ltb_ge; lia).
      now rewrite orb_false_r in Hl. }
    rewrite (both_any_false bm s Hboth ltac:(lia) Hbs), Hbs. reflexivity. }
  destruct (existsb (Z.eqb ty0) qcow2_ZERO_SUBCLUSTER_TYPES) eqn:Hzt.
  { (* ZERO_PLAIN / ZERO_ALLOC: trailing ones of the zero bits *)
    intros Heq; apply ok_pair_inj in Heq; destruct Heq as [<- <-].
    set (val := Z.shiftr (Z.lor bm (Z.shiftl (Z.shiftl 1 from - 1) 32)) 32).
    destruct (cto32_spec val) as (Hb & Hl & Ht). cbv zeta in Hb, Hl, Ht.
    set (r := ctz (Z.land (Z.lnot val) 4294967295) 32) in *.
    assert (Hzf : Z.testbit bm (from + 32) = true).
    { destruct (Z.testbit bm (from + 32)) eqn:Hz; [reflexivity|]. exfalso.
      rewrite ?Hz in Hty. ty_contra Hty. }
    assert (Hr : from < r).
    { destruct (Z.lt_ge_cases from r) as [|Hge]; [assumption|].
      specialize (Ht ltac:(lia)). unfold val in Ht. rewrite range_val_zero in Ht by lia.
      destruct (Z.eq_dec r from) as [->|].
      - rewrite Hzf in Ht. discriminate.
      - replace (r <? from) with true in Ht by (symmetry; apply Z.ltb_lt; lia).
        rewrite orb_true_r in Ht. discriminate. }
    assert (Hv : valid_type ty0).
    { unfold valid_type.
      repeat match type of Hty with (if ?c then _ else _) = _ => destruct c end;
        try discriminate; injection Hty as <-; vm_compute; split; discriminate. }
    split; [exact Hv|]. split; [lia|]. split; [lia|]. split; [intros ->; discriminate|].
    intros s Hs. rewrite Hall by lia. unfold gst_ext. cbv zeta. rewrite Hc4.
    assert (Hzs : Z.testbit bm (s + 32) = true).
    { specialize (Hl s ltac:(lia)). unfold val in Hl. rewrite range_val_zero in Hl by lia.
      replace (s <? from) with false in Hl by (symmetry; apply Z.ltb_ge; lia).
      now rewrite orb_false_r in Hl. }
    rewrite Hzs. rewrite Hzf in Hty. exact Hty. }
  destruct (existsb (Z.eqb ty0) qcow2_UNALLOCATED_SUBCLUSTER_TYPES) eqn:Hut; [|discriminate].
  (* UNALLOCATED_PLAIN / UNALLOCATED_ALLOC: trailing zeros of alloc|zero above sc_from *)
  intros Heq; apply ok_pair_inj in Heq; destruct Heq as [<- <-].
  set (val := Z.land (Z.lor (Z.shiftr bm 32) bm)
                     (Z.land (Z.lnot (Z.shiftl 1 from - 1)) (Z.shiftl 1 64 - 1))).
  destruct (ctz_spec val 32 ltac:(lia)) as (Hb & Hl & Ht).
  set (r := ctz val 32) in *.
  assert (Hzf : Z.testbit bm (from + 32) = false).
  { destruct (Z.testbit bm (from + 32)) eqn:Hz; [|reflexivity]. exfalso.
    rewrite ?Hz in Hty. ty_contra Hty. }
  assert (Haf : Z.testbit bm from = false).
  { destruct (Z.testbit bm from) eqn:Hz; [|reflexivity]. exfalso.
    rewrite ?Hzf, ?Hz in Hty.
    destruct (get_cluster_type q e =? 3); [ty_contra Hty|].
    destruct (get_cluster_type q e =? 0); [|discriminate Hty].
    destruct (alloc_any bm) eqn:Haa; [ty_contra Hty|].
    rewrite (alloc_any_false bm from Haa ltac:(lia)) in Hz. discriminate Hz. }
  assert (Hr : from < r).
  { destruct (Z.lt_ge_cases from r) as [|Hge]; [assumption|].
    specialize (Ht ltac:(lia)). unfold val in Ht. rewrite range_val_unalloc in Ht by lia.
    destruct (Z.eq_dec r from) as [->|].
    - rewrite Hzf, Haf in Ht. discriminate.
    - replace (r <? from) with true in Ht by (symmetry; apply Z.ltb_lt; lia).
      rewrite andb_false_r in Ht. discriminate. }
  assert (Hv : valid_type ty0).
  { unfold valid_type.
    repeat match type of Hty with (if ?c then _ else _) = _ => destruct c end;
      try discriminate; injection Hty as <-; vm_compute; split; discriminate. }
  split; [exact Hv|]. split; [lia|]. split; [lia|]. split; [intros ->; discriminate|].
  intros s Hs. rewrite Hall by lia. unfold gst_ext. cbv zeta. rewrite Hc4.
  assert (Hbs : Z.testbit bm (s + 32) = false /\ Z.testbit bm s = false).
  { specialize (Hl s ltac:(lia)). unfold val in Hl. rewrite range_val_unalloc in Hl by lia.
    replace (s <? from) with false in Hl by (symmetry; apply Z.ltb_ge; lia).
    cbn [negb] in Hl. rewrite andb_true_r in Hl. now apply orb_false_iff in Hl. }
  destruct Hbs as [Hzs Has]. rewrite Hzs, Has. rewrite Hzf, Haf in Hty. exact Hty.
Qed.

(* ================================================================== *)
(* F. from the type of a sub-cluster to the specification's source    *)
(* ================================================================== *)
Lemma gct_eq q e : get_cluster_type q e =
  if Z.testbit e 62 then 4
  else if Z.testbit e 0 && negb (g_has_subclusters q) then (if field e 9 47 * 512 =? 0 then 1 else 2)
  else if field e 9 47 * 512 =? 0 then (if g_has_data_file q && Z.testbit e 63 then 3 else 0) else 3.
Proof.
  unfold get_cluster_type.
  change qcow2_QCOW_OFLAG_COMPRESSED with (2 ^ 62).
  change qcow2_QCOW_OFLAG_ZERO with (2 ^ 0).
  change qcow2_QCOW_OFLAG_COPIED with (2 ^ 63).
  rewrite !land_pow2_eqb by lia. rewrite !l2e_offset. rewrite !negb_involutive.
  destruct (Z.testbit e 62); [reflexivity|].
  destruct (Z.testbit e 0 && negb (g_has_subclusters q)).
  - destruct (field e 9 47 * 512 =? 0); reflexivity.
  - destruct (field e 9 47 * 512 =? 0); [|reflexivity].
    destruct (g_has_data_file q && Z.testbit e 63); reflexivity.
Qed.

(* what _read emits for a run of type ty whose L2 entry is e, at guest byte o *)
Definition src_of_type (sim : simage) (ty e o : Z) : src :=
  let within := o mod cluster_size sim in
  if is_in ty qcow2_ZERO_SUBCLUSTER_TYPES then Zero
  else if is_in ty qcow2_UNALLOCATED_SUBCLUSTER_TYPES then unallocated sim o
  else if ty =? T_COMPRESSED then Infl (descriptor e) within
  else stored sim (field e 9 47 * 512 + within).

(* the part of Spec.guest_src below the table lookups *)
Definition ext_entry_src (sim : simage) (e bm o : Z) : src :=
  let within := o mod cluster_size sim in
  if Z.testbit e 62 then Infl (descriptor e) within else
  let s := within / subcluster_size sim in
  if Z.testbit bm (32 + s) then Zero
  else if Z.testbit bm s then stored sim (field e 9 47 * 512 + within)
  else unallocated sim o.

Definition std_entry_src (sim : simage) (e o : Z) : src :=
  let within := o mod cluster_size sim in
  if Z.testbit e 62 then Infl (descriptor e) within else
  if Z.testbit e 0 then Zero else
  let h := field e 9 47 * 512 in
  if (h =? 0) && negb (ext_data sim && Z.testbit e 63) then unallocated sim o
  else stored sim (h + within).

Lemma ext_type_src q sim e bm o s ty :
  g_has_subclusters q = true -> g_has_data_file q = ext_data sim ->
  s = (o mod cluster_size sim) / subcluster_size sim -> 0 <= s < 32 ->
  get_subcluster_type q e bm s = Ok ty -> ty <> T_INVALID ->
  ext_entry_src sim e bm o = src_of_type sim ty e o.
Proof.
  intros Hx Hdf Hs Hsr Hty Hinv.
  rewrite gst_ext_eq in Hty by (assumption || lia).
  unfold gst_ext in Hty. cbv zeta in Hty. rewrite gct_eq in Hty. rewrite Hx in Hty.
  rewrite andb_false_r in Hty.
  unfold ext_entry_src. cbv zeta. rewrite <- Hs. rewrite (Z.add_comm 32 s).
  destruct (Z.testbit e 62).
  { apply ok_inj in Hty. subst ty. reflexivity. }
  destruct (field e 9 47 * 512 =? 0) eqn:Hh.
  - destruct (g_has_data_file q && Z.testbit e 63).
    + change (3 =? 4) with false in Hty. change (3 =? 3) with true in Hty. cbv iota in Hty.
      destruct (both_any bm); [apply ok_inj in Hty; congruence|].
      destruct (Z.testbit bm (s + 32)); [apply ok_inj in Hty; subst ty; reflexivity|].
      destruct (Z.testbit bm s); apply ok_inj in Hty; subst ty; reflexivity.
    + change (0 =? 4) with false in Hty. change (0 =? 3) with false in Hty.
      change (0 =? 0) with true in Hty. cbv iota in Hty.
      destruct (alloc_any bm) eqn:Haa; [apply ok_inj in Hty; congruence|].
      rewrite (alloc_any_false bm s Haa Hsr).
      destruct (Z.testbit bm (s + 32)); apply ok_inj in Hty; subst ty; reflexivity.
  - change (3 =? 4) with false in Hty. change (3 =? 3) with true in Hty. cbv iota in Hty.
    destruct (both_any bm); [apply ok_inj in Hty; congruence|].
    destruct (Z.testbit bm (s + 32)); [apply ok_inj in Hty; subst ty; reflexivity|].
    destruct (Z.testbit bm s); apply ok_inj in Hty; subst ty; reflexivity.
Qed.

Lemma std_type_src q sim e bm o s ty :
  g_has_subclusters q = false -> g_has_data_file q = ext_data sim ->
  get_subcluster_type q e bm s = Ok ty ->
  std_entry_src sim e o = src_of_type sim ty e o.
Proof.
  intros Hx Hdf Hty.
  unfold get_subcluster_type in Hty. cbv zeta in Hty. rewrite Hx, gct_eq, Hx, Hdf in Hty.
  rewrite andb_true_r in Hty.
  unfold std_entry_src. cbv zeta.
  destruct (Z.testbit e 62).
  { apply ok_inj in Hty. subst ty. reflexivity. }
  destruct (Z.testbit e 0).
  { destruct (field e 9 47 * 512 =? 0); apply ok_inj in Hty; subst ty; reflexivity. }
  destruct (field e 9 47 * 512 =? 0) eqn:Hh.
  - destruct (ext_data sim && Z.testbit e 63) eqn:Hd; apply ok_inj in Hty; subst ty; cbn [negb andb].
    + unfold src_of_type. reflexivity.
    + reflexivity.
  - apply ok_inj in Hty; subst ty. reflexivity.
Qed.
