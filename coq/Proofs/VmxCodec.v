(* Proofs/VmxCodec.v — the codecs of Model/VmxCrypto.v invert the specification's writer:
   base64 (for every byte string) and URL quoting (for every ASCII string). *)
From Coq Require Import String Ascii ZArith List Bool Lia.
From DH Require Import Base.Plan Model.VmxCrypto Proofs.VmxCrypto.
Import ListNotations.
Open Scope Z_scope.

Definition bytes_ok (bs : bytes) : Prop := Forall (fun b => 0 <= b < 256) bs.
Definition ascii_ok (s : str) : Prop := Forall (fun c => 0 <= c < 128) s.

(* ---------------------------------------------------------------- finite checks *)
Lemma range_check (P : Z -> bool) n :
  forallb P (zseq 0 n) = true -> forall v, 0 <= v < n -> P v = true.
Proof.
  intros H v Hv. rewrite forallb_forall in H. apply H. apply zseq_In. lia.
Qed.

Lemma b64val_chr v : 0 <= v < 64 -> b64val (b64chr v) = Some v.
Proof.
  intros Hv.
  pose proof (range_check (fun v => match b64val (b64chr v) with Some w => w =? v | None => false end) 64
                ltac:(vm_compute; reflexivity) v Hv) as H.
  cbv beta in H. destruct (b64val (b64chr v)) as [w|]; [|discriminate].
  apply Z.eqb_eq in H. now subst.
Qed.

Lemma b64chr_plain v : 0 <= v < 64 -> (b64chr v =? 61) = false /\ (128 <=? b64chr v) = false.
Proof.
  intros Hv.
  pose proof (range_check (fun v => negb (b64chr v =? 61) && negb (128 <=? b64chr v)) 64
                ltac:(vm_compute; reflexivity) v Hv) as H.
  cbv beta in H. apply andb_true_iff in H as [H1 H2].
  split; [now apply negb_true_iff in H1|now apply negb_true_iff in H2].
Qed.

Lemma hexval_chr d : 0 <= d < 16 -> hexval (hexchr d) = Some d.
Proof.
  intros Hd.
  pose proof (range_check (fun d => match hexval (hexchr d) with Some w => w =? d | None => false end) 16
                ltac:(vm_compute; reflexivity) d Hd) as H.
  cbv beta in H. destruct (hexval (hexchr d)) as [w|]; [|discriminate].
  apply Z.eqb_eq in H. now subst.
Qed.

(* ---------------------------------------------------------------- base64 *)
(* one alphabet character in each decoder state *)
Lemma a2b_step v r q l p : 0 <= v < 64 ->
  a2b_go (b64chr v :: r) q l p =
  if q =? 0 then a2b_go r 1 v 0
  else if q =? 1 then option_map (cons (l * 4 + v / 16)) (a2b_go r 2 (v mod 16) 0)
  else if q =? 2 then option_map (cons (l * 16 + v / 4)) (a2b_go r 3 (v mod 4) 0)
  else option_map (cons (l * 64 + v)) (a2b_go r 0 0 0).
Proof.
  intros Hv. cbn [a2b_go].
  destruct (b64chr_plain v Hv) as [-> _]. now rewrite (b64val_chr v Hv).
Qed.

Lemma a2b_s0 v r l p : 0 <= v < 64 -> a2b_go (b64chr v :: r) 0 l p = a2b_go r 1 v 0.
Proof. intros H. now rewrite a2b_step. Qed.
Lemma a2b_s1 v r l p : 0 <= v < 64 ->
  a2b_go (b64chr v :: r) 1 l p = option_map (cons (l * 4 + v / 16)) (a2b_go r 2 (v mod 16) 0).
Proof. intros H. now rewrite a2b_step. Qed.
Lemma a2b_s2 v r l p : 0 <= v < 64 ->
  a2b_go (b64chr v :: r) 2 l p = option_map (cons (l * 16 + v / 4)) (a2b_go r 3 (v mod 4) 0).
Proof. intros H. now rewrite a2b_step. Qed.
Lemma a2b_s3 v r l p : 0 <= v < 64 ->
  a2b_go (b64chr v :: r) 3 l p = option_map (cons (l * 64 + v)) (a2b_go r 0 0 0).
Proof. intros H. now rewrite a2b_step. Qed.

Lemma byte_split4 a : 0 <= a < 256 -> 0 <= a / 4 < 64 /\ 0 <= a mod 4 < 4.
Proof. intros. Z.div_mod_to_equations. lia. Qed.

Lemma b64_quad a b c r :
  0 <= a < 256 -> 0 <= b < 256 -> 0 <= c < 256 ->
  a2b_go (b64chr (a / 4) :: b64chr ((a mod 4) * 16 + b / 16) :: b64chr ((b mod 16) * 4 + c / 64)
          :: b64chr (c mod 64) :: r) 0 0 0
  = option_map (fun t => a :: b :: c :: t) (a2b_go r 0 0 0).
Proof.
  intros Ha Hb Hc.
  rewrite a2b_s0 by (Z.div_mod_to_equations; lia).
  rewrite a2b_s1 by (Z.div_mod_to_equations; lia).
  rewrite a2b_s2 by (Z.div_mod_to_equations; lia).
  rewrite a2b_s3 by (Z.div_mod_to_equations; lia).
  replace (a / 4 * 4 + ((a mod 4) * 16 + b / 16) / 16) with a by (Z.div_mod_to_equations; lia).
  replace (((a mod 4) * 16 + b / 16) mod 16 * 16 + ((b mod 16) * 4 + c / 64) / 4) with b
    by (Z.div_mod_to_equations; lia).
  replace (((b mod 16) * 4 + c / 64) mod 4 * 64 + c mod 64) with c by (Z.div_mod_to_equations; lia).
  destruct (a2b_go r 0 0 0); reflexivity.
Qed.

Lemma b64_tail1 a : 0 <= a < 256 ->
  a2b_go [b64chr (a / 4); b64chr ((a mod 4) * 16); 61; 61] 0 0 0 = Some [a].
Proof.
  intros Ha.
  rewrite a2b_s0 by (Z.div_mod_to_equations; lia).
  rewrite a2b_s1 by (Z.div_mod_to_equations; lia).
  replace (a / 4 * 4 + (a mod 4) * 16 / 16) with a by (Z.div_mod_to_equations; lia).
  reflexivity.
Qed.

Lemma b64_tail2 a b : 0 <= a < 256 -> 0 <= b < 256 ->
  a2b_go [b64chr (a / 4); b64chr ((a mod 4) * 16 + b / 16); b64chr ((b mod 16) * 4); 61] 0 0 0
  = Some [a; b].
Proof.
  intros Ha Hb.
  rewrite a2b_s0 by (Z.div_mod_to_equations; lia).
  rewrite a2b_s1 by (Z.div_mod_to_equations; lia).
  rewrite a2b_s2 by (Z.div_mod_to_equations; lia).
  replace (a / 4 * 4 + ((a mod 4) * 16 + b / 16) / 16) with a by (Z.div_mod_to_equations; lia).
  replace (((a mod 4) * 16 + b / 16) mod 16 * 16 + (b mod 16) * 4 / 4) with b
    by (Z.div_mod_to_equations; lia).
  reflexivity.
Qed.

Lemma b64_roundtrip_n n : forall bs, (length bs <= n)%nat -> bytes_ok bs ->
  a2b_go (b64encode bs) 0 0 0 = Some bs /\ existsb (fun c => 128 <=? c) (b64encode bs) = false.
Proof.
  induction n as [|n IH]; intros bs Hlen Hok.
  - destruct bs; [split; reflexivity|simpl in Hlen; lia].
  - destruct bs as [|a [|b [|c r]]].
    + split; reflexivity.
    + inversion Hok as [|? ? Ha _]; subst.
      cbn [b64encode]. split; [now apply b64_tail1|].
      cbn [existsb].
      destruct (b64chr_plain (a / 4) ltac:(Z.div_mod_to_equations; lia)) as [_ ->].
      destruct (b64chr_plain ((a mod 4) * 16) ltac:(Z.div_mod_to_equations; lia)) as [_ ->].
      reflexivity.
    + inversion Hok as [|? ? Ha Hok']; subst. inversion Hok' as [|? ? Hb _]; subst.
      cbn [b64encode]. split; [now apply b64_tail2|].
      cbn [existsb].
      destruct (b64chr_plain (a / 4) ltac:(Z.div_mod_to_equations; lia)) as [_ ->].
      destruct (b64chr_plain ((a mod 4) * 16 + b / 16) ltac:(Z.div_mod_to_equations; lia)) as [_ ->].
      destruct (b64chr_plain ((b mod 16) * 4) ltac:(Z.div_mod_to_equations; lia)) as [_ ->].
      reflexivity.
    + inversion Hok as [|? ? Ha Hok']; subst. inversion Hok' as [|? ? Hb Hok'']; subst.
      inversion Hok'' as [|? ? Hc Hr]; subst.
      destruct (IH r ltac:(simpl in Hlen; lia) Hr) as [IH1 IH2].
      cbn [b64encode]. split.
      * rewrite b64_quad by assumption. rewrite IH1. reflexivity.
      * cbn [existsb].
        destruct (b64chr_plain (a / 4) ltac:(Z.div_mod_to_equations; lia)) as [_ ->].
        destruct (b64chr_plain ((a mod 4) * 16 + b / 16) ltac:(Z.div_mod_to_equations; lia)) as [_ ->].
        destruct (b64chr_plain ((b mod 16) * 4 + c / 64) ltac:(Z.div_mod_to_equations; lia)) as [_ ->].
        destruct (b64chr_plain (c mod 64) ltac:(Z.div_mod_to_equations; lia)) as [_ ->].
        exact IH2.
Qed.

(* base64.b64decode(base64.b64encode(bs)) = bs, for every byte string *)
Theorem b64_roundtrip bs : bytes_ok bs -> b64decode_str (b64encode bs) = XOk bs.
Proof.
  intros Hok. destruct (b64_roundtrip_n (length bs) bs (le_n _) Hok) as [H1 H2].
  unfold b64decode_str. rewrite H2, H1. reflexivity.
Qed.

(* ---------------------------------------------------------------- UTF-8 on ASCII, URL quoting *)
Lemma utf8_ascii rep s : ascii_ok s -> utf8_dec rep s = Some s.
Proof.
  induction 1 as [|c s Hc _ IH]; [reflexivity|].
  cbn [utf8_dec]. destruct (Z.ltb_spec c 128); [|lia]. now rewrite IH.
Qed.

Lemma ascii_ok_app a b : ascii_ok a -> ascii_ok b -> ascii_ok (a ++ b).
Proof. apply Forall_app_intro || (intros; apply Forall_app; split; assumption). Qed.

Lemma ascii_ok_rev a : ascii_ok a -> ascii_ok (rev a).
Proof. apply Forall_rev. Qed.

Lemma is_alnum_not_pct c : is_alnum c = true -> (c =? 37) = false.
Proof.
  unfold is_alnum. intros H. destruct (Z.eqb_spec c 37) as [->|]; [discriminate|reflexivity].
Qed.

(* the walk consumes the quoted form of an ASCII string and pushes exactly its characters *)
Lemma unq_walk_quote s : ascii_ok s -> forall t pend,
  unq_walk (quote s ++ t) pend = unq_walk t (rev s ++ pend).
Proof.
  induction 1 as [|c s Hc _ IH]; intros t pend; [reflexivity|].
  unfold quote in *. cbn [flat_map].
  destruct (is_alnum c) eqn:Ha.
  - cbn [app unq_walk].
    destruct (Z.leb_spec 128 c); [lia|].
    rewrite (is_alnum_not_pct c Ha).
    rewrite IH. cbn [rev]. now rewrite <- app_assoc.
  - cbn [app unq_walk]. cbn [Z.leb Z.compare Z.eqb Pos.compare Pos.compare_cont Pos.eqb].
    rewrite (hexval_chr (c / 16)) by (Z.div_mod_to_equations; lia).
    rewrite (hexval_chr (c mod 16)) by (Z.div_mod_to_equations; lia).
    replace (c / 16 * 16 + c mod 16) with c by (Z.div_mod_to_equations; lia).
    rewrite IH. cbn [rev]. now rewrite <- app_assoc.
Qed.

(* urllib.parse.unquote(quote(s)) = s, for every ASCII string *)
Theorem unquote_quote s : ascii_ok s -> unquote (quote s) = s.
Proof.
  intros Hs. unfold unquote.
  rewrite <- (app_nil_r (quote s)), unq_walk_quote by assumption.
  cbn [unq_walk]. rewrite app_nil_r, rev_involutive.
  unfold utf8_replace. now rewrite utf8_ascii.
Qed.

(* the base64 text of a byte string is ASCII, so quoting and unquoting it is the identity too *)
Lemma b64encode_ascii_n n : forall bs, (length bs <= n)%nat -> bytes_ok bs -> ascii_ok (b64encode bs).
Proof.
  assert (Hchr : forall v, 0 <= v < 64 -> 0 <= b64chr v < 128).
  { intros v Hv.
    pose proof (range_check (fun v => (0 <=? b64chr v) && (b64chr v <? 128)) 64
                  ltac:(vm_compute; reflexivity) v Hv) as H.
    cbv beta in H. apply andb_true_iff in H as [H1 H2]. lia. }
  induction n as [|n IH]; intros bs Hlen Hok.
  - destruct bs; [constructor|simpl in Hlen; lia].
  - destruct bs as [|a [|b [|c r]]].
    + constructor.
    + inversion Hok as [|? ? Ha _]; subst. cbn [b64encode].
      repeat constructor; try lia; apply Hchr; Z.div_mod_to_equations; lia.
    + inversion Hok as [|? ? Ha Hok']; subst. inversion Hok' as [|? ? Hb _]; subst. cbn [b64encode].
      repeat constructor; try lia; apply Hchr; Z.div_mod_to_equations; lia.
    + inversion Hok as [|? ? Ha Hok']; subst. inversion Hok' as [|? ? Hb Hok'']; subst.
      inversion Hok'' as [|? ? Hc Hr]; subst. cbn [b64encode].
      repeat (constructor; [apply Hchr; Z.div_mod_to_equations; lia|]).
      apply IH; [simpl in Hlen; lia|assumption].
Qed.

Theorem quoted_b64_roundtrip bs : bytes_ok bs ->
  b64decode_str (unquote (quote (b64encode bs))) = XOk bs.
Proof.
  intros Hok. rewrite unquote_quote by (apply (b64encode_ascii_n (length bs)); [lia|assumption]).
  now apply b64_roundtrip.
Qed.

(* ---------------------------------------------------------------- the key dictionary inside a pair *)
Lemma quote_chars s : ascii_ok s ->
  Forall (fun c => 0 <= c < 128 /\ c <> 58 /\ c <> 61) (quote s).
Proof.
  assert (Hhex : forall d, 0 <= d < 16 -> 0 <= hexchr d < 128 /\ hexchr d <> 58 /\ hexchr d <> 61).
  { intros d Hd.
    pose proof (range_check (fun d => (0 <=? hexchr d) && (hexchr d <? 128) && negb (hexchr d =? 58)
                                      && negb (hexchr d =? 61)) 16
                  ltac:(vm_compute; reflexivity) d Hd) as H.
    cbv beta in H. repeat (apply andb_true_iff in H as [H ?]).
    repeat match goal with H : negb _ = true |- _ => apply negb_true_iff in H end. lia. }
  induction 1 as [|c s Hc _ IH]; [constructor|].
  unfold quote in *. cbn [flat_map].
  destruct (is_alnum c) eqn:Ha.
  - constructor; [|exact IH]. unfold is_alnum in Ha. lia.
  - cbn [app]. constructor; [lia|].
    constructor; [apply Hhex; Z.div_mod_to_equations; lia|].
    constructor; [apply Hhex; Z.div_mod_to_equations; lia|exact IH].
Qed.

Lemma split_on_nosep sep s : Forall (fun c => c <> sep) s -> split_on sep s = [s].
Proof.
  induction 1 as [|c s Hc _ IH]; [reflexivity|].
  cbn [split_on]. destruct (Z.eqb_spec c sep); [contradiction|]. now rewrite IH.
Qed.

Lemma split_on_app sep a b : Forall (fun c => c <> sep) a ->
  split_on sep (a ++ sep :: b) = a :: split_on sep b.
Proof.
  induction 1 as [|c a Hc _ IH]; cbn [app split_on].
  - now rewrite Z.eqb_refl.
  - destruct (Z.eqb_spec c sep); [contradiction|]. now rewrite IH.
Qed.

Lemma partition_on_app sep a b : Forall (fun c => c <> sep) a ->
  partition_on sep (a ++ sep :: b) = (a, b).
Proof.
  induction 1 as [|c a Hc _ IH]; cbn [app partition_on].
  - now rewrite Z.eqb_refl.
  - destruct (Z.eqb_spec c sep); [contradiction|]. now rewrite IH.
Qed.

Lemma no_sep_weaken (P : Z -> Prop) sep s :
  Forall (fun c => 0 <= c < 128 /\ c <> 58 /\ c <> 61) s -> (sep = 58 \/ sep = 61) ->
  Forall (fun c => c <> sep) s.
Proof. intros H Hs. eapply Forall_impl; [|exact H]. cbv beta. intros c Hc. lia. Qed.

Ltac concrete_nosep := repeat (constructor; [cbv; discriminate|]); try constructor.

(* type=key:cipher=<quoted name>:key=<quoted base64>  yields the key *)
Theorem keydict_roundtrip cn K : ascii_ok cn -> bytes_ok K ->
  keydict_key (render_keydict cn K) = XOk K.
Proof.
  intros Hcn HK.
  pose proof (quote_chars cn Hcn) as Qcn.
  pose proof (quote_chars (b64encode K) (b64encode_ascii_n (length K) K (le_n _) HK)) as Qk.
  assert (Hascii : ascii_ok (render_keydict cn K)).
  { assert (Hq : forall t, Forall (fun c => 0 <= c < 128 /\ c <> 58 /\ c <> 61) t -> ascii_ok t).
    { intros t Ht. eapply Forall_impl; [|exact Ht]. cbv beta. intros; lia. }
    assert (Hlit : forall l : string, forallb (fun c => (0 <=? c) && (c <? 128)) (cps l) = true -> ascii_ok (cps l)).
    { intros l Hl. apply Forall_forall. intros c Hc. rewrite forallb_forall in Hl.
      specialize (Hl c Hc). apply andb_true_iff in Hl. lia. }
    unfold render_keydict.
    apply ascii_ok_app; [apply Hlit; reflexivity|].
    apply ascii_ok_app; [apply Hq; exact Qcn|].
    apply ascii_ok_app; [apply Hlit; reflexivity|apply Hq; exact Qk]. }
  unfold keydict_key, utf8_strict. rewrite (utf8_ascii false _ Hascii). cbn [of_opt xbind].
  unfold render_keydict, parse_crypto_dict.
  (* split at the two ':' *)
  replace (cps "type=key:cipher=" ++ quote cn ++ cps ":key=" ++ quote (b64encode K))
    with (cps "type=key" ++ 58 :: (cps "cipher=" ++ quote cn) ++ 58 :: (cps "key=" ++ quote (b64encode K)))
    by (rewrite <- app_assoc; reflexivity).
  rewrite split_on_app by concrete_nosep.
  rewrite split_on_app
    by (apply Forall_app; split; [concrete_nosep|apply (no_sep_weaken (fun _ => True)); [exact Qcn|auto]]).
  rewrite split_on_nosep
    by (apply Forall_app; split; [concrete_nosep|apply (no_sep_weaken (fun _ => True)); [exact Qk|auto]]).
  cbn [fold_left].
  replace (cps "type=key") with (cps "type" ++ 61 :: cps "key") by reflexivity.
  replace (cps "cipher=" ++ quote cn) with (cps "cipher" ++ 61 :: quote cn) by reflexivity.
  replace (cps "key=" ++ quote (b64encode K)) with (cps "key" ++ 61 :: quote (b64encode K)) by reflexivity.
  rewrite !partition_on_app by concrete_nosep.
  cbn [dict_set dict_get cps list_eqb app].
  (* the three keys are distinct concrete strings *)
  vm_compute (list_eqb _ _).
  cbn [dict_set dict_get of_opt xbind].
  vm_compute (list_eqb _ _).
  cbn [of_opt xbind].
  apply quoted_b64_roundtrip. exact HK.
Qed.

(* ---------------------------------------------------------------- round trip on the writer's own output *)
Lemma bytes_ok_firstn k (l : bytes) : bytes_ok l -> bytes_ok (firstn k l).
Proof.
  intros H. unfold bytes_ok in *. rewrite <- (firstn_skipn k l) in H.
  apply Forall_app in H. tauto.
Qed.

Section Sealed.
  Variable aes_enc : bytes -> bytes -> bytes -> bytes.
  Variable o : oracles.
  Hypothesis aes_inverse : forall k iv p,
    valid_keylen (len k) = true -> len iv = 16 -> len p mod 16 = 0 ->
    o_aes_dec o k iv (aes_enc k iv p) = p.
  Hypothesis aes_length : forall k iv p, len (aes_enc k iv p) = len p.
  Hypothesis hmac_length : forall h k m, 0 < hash_len h -> len (o_hmac o (cps h) k m) = hash_len h.
  Hypothesis pbkdf2_length : forall h pw s r n, 0 < hash_len h -> 0 <= n -> len (o_pbkdf2 o (cps h) pw s r n) = n.
  (* the primitives return bytes *)
  Hypothesis aes_bytes : forall k iv p, bytes_ok (aes_enc k iv p).
  Hypothesis hmac_bytes : forall h k m, bytes_ok (o_hmac o h k m).

  Theorem unlock_roundtrip_sealed
      kdf kh cipher klen macname h n rounds salt pw iv1 iv2 id cn K cfg text attr ks pre post :
    In (kdf, kh) PASS2KEY_MAP -> In (cipher, klen) CIPHER_KEY_SIZES -> In (macname, (h, n)) HMAC_MAP ->
    rounds_ok rounds -> len iv1 = 16 -> len iv2 = 16 -> bytes_ok iv2 ->
    ascii_ok cn -> bytes_ok K -> valid_keylen (len K) = true ->
    utf8_strict cfg = XOk text ->
    let wkey := o_pbkdf2 o (cps kh) pw salt rounds klen in
    let pair := LPair (LPhrase id (cps kdf) (cps cipher) rounds salt) (cps macname)
                      (seal_blob aes_enc (o_hmac o) (cps h) n wkey iv1 (render_keydict cn K)) in
    Forall (skipped o pw) pre ->
    dict_get attr K_KEYSAFE = Some ks -> keysafe_from_text ks = XOk (pre ++ pair :: post) ->
    dict_get attr K_DATA = Some (b64encode (seal_blob aes_enc (o_hmac o) (cps h) n K iv2 cfg)) ->
    run o (unlock attr pw) = XOk (dict_update attr (parse_dictionary text)).
  Proof.
    intros Hkdf Hc Hm Hr Hiv1 Hiv2 Hiv2b Hcn HK HKl Hcfg wkey pair Hpre Hks Hparse Hd.
    apply (unlock_roundtrip_parsed aes_enc o aes_inverse aes_length hmac_length pbkdf2_length
             kdf kh cipher klen macname h n rounds salt pw iv1 iv2 id (render_keydict cn K) K cfg text
             attr ks (b64encode (seal_blob aes_enc (o_hmac o) (cps h) n K iv2 cfg)) pre post);
      try assumption.
    - now apply keydict_roundtrip.
    - apply b64_roundtrip. unfold seal_blob, bytes_ok.
      apply Forall_app; split; [exact Hiv2b|].
      apply Forall_app; split; [apply aes_bytes|apply bytes_ok_firstn, hmac_bytes].
  Qed.
End Sealed.
