(* Proofs/Hdd.v — a .hdd disk split over storages, each with its own snapshot chain: a read at any sector
   returns, for every byte, the byte of the topmost layer OF THE STORAGE THAT HOLDS THE SECTOR that has the
   cluster, and zeros when no layer of that storage's own chain has it — whatever neighbouring storages hold. *)
From Coq Require Import ZArith List Bool Lia.
From DH Require Import Base.Arith Base.Plan Model.Chain Proofs.Chain Model.Vmdk Model.VmdkDesc Proofs.Storage Model.Hdd.
Import ListNotations.
Open Scope Z_scope.

Definition ss_of (hs : list hstorage) : list (Z * Z) := map fst hs.

Definition hdd_ok (hs : list hstorage) : Prop :=
  Forall (fun h => Forall (layer_ok ((h_end h - h_start h) * 512) 1) (snd h)) hs.

Lemma hdd_src_cons st en ls hs idx o :
  hdd_src ((st, en, ls) :: hs) idx o =
  if o / 512 <? en then (idx, chain_src ls 0 (o - st * 512)) else hdd_src hs (idx + 1) o.
Proof. reflexivity. Qed.

Theorem hdd_loop_correct hs : forall idx sector count,
  hdd_ok hs ->
  match hs with
  | [] => True
  | (st, en, _) :: _ => slaid (ss_of hs) st /\ st <= sector < en
  end ->
  0 <= count -> (0 < count -> sector + count <= s_end (ss_of hs) sector) ->
  hdd_loop hs idx sector count = Ok (map (hdd_src hs idx) (zseq (sector * 512) (count * 512))).
Proof.
  induction hs as [|[[st en] ls] hs IH]; intros idx sector count Hok Hpos Hc Hend.
  - cbn [ss_of map s_end] in Hend. assert (count = 0) by lia. subst count. reflexivity.
  - cbn [hdd_loop].
    destruct (Z.leb_spec count 0) as [Hz|Hz].
    { rewrite zseq_nonpos by lia. reflexivity. }
    destruct Hpos as [Hlaid Hin]. cbn [ss_of map fst slaid] in Hlaid. destruct Hlaid as (_ & Hlt & Hl').
    specialize (Hend Hz). cbn [ss_of map fst s_end] in Hend.
    inversion Hok as [|? ? Hls Hok']; subst. cbn [snd h_end h_start fst] in Hls.
    set (n := Z.min (en - sector) count) in *.
    assert (Hn : 0 < n <= count /\ sector + n <= en) by (subst n; lia).
    rewrite (chain_read_correct ((en - st) * 512) 1 ls 0 ((sector - st) * 512) (n * 512) Hls)
      by (try apply Z.mod_1_r; lia).
    cbn [bind].
    assert (Hrest : hdd_loop hs (idx + 1) (sector + n) (count - n) =
                    Ok (map (hdd_src hs (idx + 1)) (zseq ((sector + n) * 512) ((count - n) * 512)))).
    { destruct (Z.leb_spec (count - n) 0) as [Hr|Hr].
      - rewrite zseq_nonpos by lia.
        destruct hs as [|[[a b] c] hs']; cbn [hdd_loop]; destruct (Z.leb_spec (count - n) 0); try reflexivity; lia.
      - assert (Hfull : sector + n = en) by lia.
        apply IH; [exact Hok'| |lia|].
        + destruct hs as [|[[st' en'] ls'] hs']; [exact I|].
          cbn [ss_of map fst slaid] in Hl'. destruct Hl' as (Hs' & Hlt' & Hl'').
          split; [cbn [ss_of map fst slaid]; repeat split; assumption|lia].
        + intros _. rewrite Hfull.
          destruct hs as [|[[st' en'] ls'] hs']; cbn [ss_of map fst s_end] in *; lia. }
    rewrite Hrest. cbn [bind]. f_equal.
    replace (count * 512) with (n * 512 + (count - n) * 512) by lia.
    rewrite zseq_app by lia. rewrite map_app. f_equal.
    + rewrite map_map.
      rewrite (zseq_rel _ ((sector - st) * 512)), (zseq_rel _ (sector * 512)).
      apply map_ext_zseq. intros j Hj. rewrite hdd_src_cons.
      assert (Hdiv : (sector * 512 + j) / 512 < en) by (apply Z.div_lt_upper_bound; lia).
      destruct (Z.ltb_spec ((sector * 512 + j) / 512) en); [|lia].
      f_equal. f_equal. lia.
    + replace (sector * 512 + n * 512) with ((sector + n) * 512) by lia.
      destruct (Z.leb_spec (count - n) 0) as [Hr|Hr]; [rewrite !zseq_nonpos by lia; reflexivity|].
      assert (Hfull : sector + n = en) by lia.
      apply map_ext_zseq. intros o Ho. rewrite hdd_src_cons.
      assert (en <= o / 512) by (apply Z.div_le_lower_bound; lia).
      destruct (Z.ltb_spec (o / 512) en); [lia|reflexivity].
Qed.

(* the storages skipped by the bisect lookup end at or before the start of the one found *)
Lemma slaid_skipn_ge i : forall ss s0 st en rest, slaid ss s0 -> skipn i ss = (st, en) :: rest -> s0 <= st.
Proof.
  induction i as [|i IH]; intros ss s0 st en rest Hl Hsk.
  - cbn [skipn] in Hsk. subst ss. cbn [slaid] in Hl. lia.
  - destruct ss as [|[a b] ss']; [discriminate|]. cbn [skipn] in Hsk. cbn [slaid] in Hl.
    destruct Hl as (-> & Hlt & Hl'). pose proof (IH ss' b st en rest Hl' Hsk). lia.
Qed.

Lemma hdd_src_skipn i : forall hs s0 st en rest idx o,
  slaid (ss_of hs) s0 -> skipn i (ss_of hs) = (st, en) :: rest -> st * 512 <= o ->
  hdd_src hs idx o = hdd_src (skipn i hs) (idx + Z.of_nat i) o.
Proof.
  induction i as [|i IH]; intros hs s0 st en rest idx o Hl Hsk Ho.
  - cbn [skipn]. replace (idx + Z.of_nat 0) with idx by lia. reflexivity.
  - destruct hs as [|[[a b] ls] hs']; [discriminate|].
    cbn [ss_of map fst skipn] in *. cbn [slaid] in Hl. destruct Hl as (-> & Hlt & Hl').
    rewrite hdd_src_cons.
    pose proof (slaid_skipn_ge i (ss_of hs') b st en rest Hl' Hsk) as Hge.
    assert (b <= o / 512) by (apply Z.div_le_lower_bound; lia).
    destruct (Z.ltb_spec (o / 512) b); [lia|].
    rewrite (IH hs' b st en rest (idx + 1) o Hl' Hsk Ho). f_equal. lia.
Qed.

Lemma skipn_ss_of i hs : skipn i (ss_of hs) = ss_of (skipn i hs).
Proof. unfold ss_of. apply skipn_map. Qed.

Lemma hdd_ok_skipn i hs : hdd_ok hs -> hdd_ok (skipn i hs).
Proof.
  unfold hdd_ok. revert hs. induction i as [|i IH]; intros hs H; [exact H|].
  destruct hs as [|h hs']; [exact H|]. inversion H; subst. cbn [skipn]. now apply IH.
Qed.

(* C06 / C07 / C10 (Parallels): the whole disk *)
Theorem hdd_read_correct hs s0 sector count :
  hdd_ok hs -> slaid (ss_of hs) s0 -> s0 <= sector -> 0 <= count -> sector + count <= s_end (ss_of hs) s0 ->
  hdd_read hs (sector * 512) (count * 512) = Ok (map (hdd_src hs 0) (zseq (sector * 512) (count * 512))).
Proof.
  intros Hok Hl Hs Hc Hend. unfold hdd_read.
  replace (sector * 512 / 512) with sector by (rewrite Z.div_mul; lia).
  assert (Hcnt : (count * 512 + 512 - 1) / 512 = count).
  { replace (count * 512 + 512 - 1) with (511 + count * 512) by lia. rewrite Z.div_add by lia. reflexivity. }
  rewrite Hcnt.
  destruct (Z.eq_dec count 0) as [->|Hnz].
  { rewrite zseq_nonpos by lia.
    destruct (skipn _ hs) as [|[[a b] c] r]; cbn [hdd_loop]; reflexivity. }
  replace (map h_start hs) with (map fst (ss_of hs))
    by (unfold ss_of, h_start; rewrite map_map; reflexivity).
  pose proof (sbisect (ss_of hs) s0 sector Hl ltac:(lia)) as Hb. cbn zeta in Hb.
  set (i := (bisect_right (map fst (ss_of hs)) sector - 1)%nat) in *.
  destruct (skipn i (ss_of hs)) as [|[st en] rest] eqn:Hsk; [contradiction|].
  destruct Hb as (H1 & H2 & H2' & H3 & _).
  pose proof Hsk as Hsk'. rewrite skipn_ss_of in Hsk'.
  destruct (skipn i hs) as [|[[st' en'] ls] hrest] eqn:Hh; [discriminate|].
  cbn [ss_of map fst] in Hsk'. injection Hsk' as -> -> Hrest.
  pose proof (hdd_ok_skipn i hs Hok) as Hok'. rewrite Hh in Hok'.
  assert (Hpos' : slaid (ss_of ((st, en, ls) :: hrest)) st /\ st <= sector < en).
  { split; [|lia]. cbn [ss_of map fst]. rewrite Hrest. exact H1. }
  assert (Hend' : 0 < count -> sector + count <= s_end (ss_of ((st, en, ls) :: hrest)) sector).
  { intros _. cbn [ss_of map fst s_end]. rewrite Hrest. lia. }
  pose proof (hdd_loop_correct ((st, en, ls) :: hrest) (Z.of_nat i) sector count Hok' Hpos' Hc Hend') as Hloop.
  etransitivity; [exact Hloop|]. f_equal. apply map_ext_zseq. intros o Ho.
  assert (Hge : st * 512 <= o) by lia.
  rewrite (hdd_src_skipn i hs s0 st en rest 0 o Hl Hsk Hge). rewrite Hh. reflexivity.
Qed.

(* non-vacuity: two storages; the second one's chain has no layer: its bytes read as zeros *)
Example ex_hdd :
  let top := {| l_read := fun off n => Ok [SFile off n]; l_src := File |} in
  hdd_read [(0, 4, [top]); (4, 6, [])] (3 * 512) (2 * 512) =
  Ok (map (fun o => (0, LFile 0 o)) (zseq (3 * 512) 512) ++ map (fun _ => (1, LZero)) (zseq 0 512)).
Proof. vm_compute. reflexivity. Qed.
