(* Proofs/AlignedStream.v — a stream over a back end that honours the contract below
   behaves, under every finite history of operations, as an immutable byte array with a
   cursor: each read returns exactly the positions [pos, pos + min(n, size - pos)). *)
From Coq Require Import ZArith List Bool Lia.
From DH Require Import Base.Arith Base.Plan Model.AlignedStream.
Import ListNotations.
Open Scope Z_scope.

Lemma flat_app a b : flat (a ++ b) = flat a ++ flat b.
Proof. unfold flat. apply flat_map_app. Qed.
Lemma flat_single s l : flat [(s, l)] = zseq s l.
Proof. unfold flat. cbn. apply app_nil_r. Qed.

Lemma mod0_add a b n : 0 < n -> a mod n = 0 -> b mod n = 0 -> (a + b) mod n = 0.
Proof. intros Hn Ha Hb. rewrite Z.add_mod by lia. rewrite Ha, Hb. apply Z.mod_0_l. lia. Qed.

Section P.
  Variables size align : Z.
  Variable blen : Z -> Z -> res Z.
  Hypothesis Hal : 0 < align.
  Hypothesis Hsz : 0 <= size.

  (* what every reader's _read must guarantee (proved per reader) *)
  Definition backend_ok : Prop :=
    forall off len, 0 <= off < size -> off mod align = 0 -> 0 < len -> len mod align = 0 ->
      exists L, blen off len = Ok L /\ Z.min len (size - off) <= L /\ (off + len <= size -> L = len).
  Hypothesis Hbe : backend_ok.

  Notation set_pos := (set_pos align).
  Notation fill_buf := (fill_buf size align blen).
  Notation read := (read size align blen).
  Notation step := (step size align blen).
  Notation run := (run size align blen).

  Definition buf_ok (pa : Z) (b : option range) : Prop :=
    match b with
    | None => True
    | Some (s, l) => s = pa /\ 0 <= l /\ (l = 0 \/ Z.min align (size - pa) <= l)
    end.

  Definition Inv (st : sstate) : Prop :=
    0 <= s_pos st /\ s_pos_align st = s_pos st - s_pos st mod align /\ buf_ok (s_pos_align st) (s_buf st).

  Lemma Inv_init : Inv init.
  Proof. unfold Inv, init. cbn [s_pos s_pos_align s_buf buf_ok]. rewrite Z.mod_0_l by lia. repeat split; lia. Qed.

  Lemma set_pos_inv st p : Inv st -> 0 <= p -> Inv (set_pos st p) /\ s_pos (set_pos st p) = p.
  Proof.
    intros (Hp & Hpa & Hb) Hp0. unfold AlignedStream.set_pos, Inv.
    destruct (Z.eqb_spec (s_pos_align st) (p - p mod align)) as [E|E];
      cbn [s_pos s_pos_align s_buf buf_ok]; (split; [|reflexivity]).
    - repeat split; [lia|exact E|exact Hb].
    - repeat split; lia.
  Qed.

  Lemma pa_facts st : Inv st ->
    s_pos_align st mod align = 0 /\ 0 <= s_pos_align st <= s_pos st /\
    s_pos st - s_pos_align st = s_pos st mod align /\ s_pos st mod align < align.
  Proof.
    intros (Hp & Hpa & _).
    pose proof (Z.mod_pos_bound (s_pos st) align Hal) as Hm.
    pose proof (Z.div_mod (s_pos st) align ltac:(lia)) as Hd.
    assert (Hq : 0 <= s_pos st / align) by (apply Z.div_pos; lia).
    repeat split; try lia.
    replace (s_pos_align st) with (s_pos st / align * align) by lia. apply Z.mod_mul. lia.
  Qed.

  Lemma fill_buf_ok st : Inv st -> s_pos st < size ->
    exists st' l, fill_buf st = Ok st' /\ s_pos st' = s_pos st /\ s_pos_align st' = s_pos_align st /\
      Inv st' /\ s_buf st' = Some (s_pos_align st, l) /\ Z.min align (size - s_pos_align st) <= l.
  Proof.
    intros HI Hlt. pose proof (pa_facts st HI) as (Hpa0 & Hpar & Hbp & Hbpl).
    destruct HI as (Hp & Hpa & Hb). unfold AlignedStream.fill_buf.
    assert (Hfill : (size <=? s_pos st) = false /\ (size <=? s_pos_align st) = false).
    { split; apply Z.leb_gt; lia. }
    destruct Hfill as [Hf1 Hf2].
    assert (Hnew : exists st' l, (do l <- blen (s_pos_align st) align;
         Ok {| s_pos := s_pos st; s_pos_align := s_pos_align st; s_buf := Some (s_pos_align st, l) |}) = Ok st' /\
         s_pos st' = s_pos st /\ s_pos_align st' = s_pos_align st /\ Inv st' /\
         s_buf st' = Some (s_pos_align st, l) /\ Z.min align (size - s_pos_align st) <= l).
    { destruct (Hbe (s_pos_align st) align ltac:(lia) Hpa0 Hal (Z.mod_same align ltac:(lia))) as (L & -> & HL & _).
      cbn [bind]. eexists _, L. split; [reflexivity|]. cbn [s_pos s_pos_align s_buf].
      split; [reflexivity|]. split; [reflexivity|]. split.
      { unfold Inv. cbn [s_pos s_pos_align s_buf buf_ok]. repeat split; lia. }
      split; [reflexivity|lia]. }
    destruct (s_buf st) as [[s l]|] eqn:Hbuf; cbn [buf_nonempty].
    - destruct (Z.ltb_spec 0 l) as [Hl|Hl]; cbn [orb].
      + exists st, l. cbn [buf_ok] in Hb. destruct Hb as (Hs & Hl0 & Hor). subst s.
        split; [reflexivity|]. split; [reflexivity|]. split; [reflexivity|]. split.
        { unfold Inv. rewrite Hbuf. cbn [buf_ok]. repeat split; lia. }
        split; [exact Hbuf|lia].
      + rewrite Hf1, Hf2. cbn [orb]. exact Hnew.
    - rewrite Hf1, Hf2. cbn [orb]. exact Hnew.
  Qed.

  (* progress relation between phases of one read of m bytes from p0 *)
  Section OneRead.
    Variables p0 m : Z.
    Hypothesis Hp0 : 0 <= p0.
    Hypothesis Hm : 0 < m.
    Hypothesis Hfit : p0 + m <= size.

    Definition PS (x : pstate) (k : Z) : Prop :=
      let '(st, out, n) := x in
      Inv st /\ flat out = zseq p0 k /\ s_pos st = p0 + k /\ n = m - k /\ 0 <= k <= m.

    Lemma phase1_ok st : Inv st -> s_pos st = p0 ->
      exists x1 k, phase1 size align blen (st, [], m) = Ok x1 /\ PS x1 k /\
        (k < m -> (p0 + k) mod align = 0).
    Proof.
      intros HI Hpos. pose proof (pa_facts st HI) as (Hpa0 & Hpar & Hbp & Hbpl).
      unfold phase1. destruct (Z.eqb_spec (s_pos st) (s_pos_align st)) as [E|E]; cbn [negb].
      - exists (st, [], m), 0. split; [reflexivity|]. split.
        + unfold PS. split; [exact HI|]. split; [reflexivity|]. repeat split; lia.
        + intros _. rewrite Z.add_0_r, <- Hpos, E. exact Hpa0.
      - destruct (fill_buf_ok st HI ltac:(lia)) as (st1 & l & -> & Hp1 & Hpa1 & HI1 & Hb1 & Hl).
        cbn [bind]. rewrite Hp1, Hpa1.
        set (bp := s_pos st - s_pos_align st) in *.
        set (bl := Z.min m (align - bp)).
        assert (Hbpos : 0 < bp < align) by lia.
        assert (Hbl : 0 < bl <= m /\ bl <= align - bp) by (subst bl; lia).
        unfold buf_slice. rewrite Hb1. cbn [bind slice_range].
        replace (Z.min bp l) with bp by lia.
        replace (Z.min (Z.max (bp + bl) bp) l) with (bp + bl) by lia.
        destruct (set_pos_inv st1 (s_pos st + bl) HI1 ltac:(lia)) as [HI2 Hp2].
        eexists (_, _, _), bl. split; [reflexivity|]. split.
        + unfold PS. split; [exact HI2|]. split.
          { cbn [app]. unfold flat. cbn [flat_map fst snd]. rewrite app_nil_r. f_equal; lia. }
          repeat split; lia.
        + intros Hk. assert (bl = align - bp) by lia.
          replace (p0 + bl) with (s_pos_align st + align) by lia.
          apply mod0_add; [lia|exact Hpa0|apply Z.mod_same; lia].
    Qed.

    Lemma phase2_ok x1 k : PS x1 k -> (k < m -> (p0 + k) mod align = 0) ->
      exists x2 k2, phase2 align blen x1 = Ok x2 /\ PS x2 k2 /\
        (k2 < m -> (p0 + k2) mod align = 0 /\ m - k2 < align).
    Proof.
      destruct x1 as [[st out] n]. intros (HI & Hflat & Hpos & Hn & Hk) Hal1.
      unfold phase2. destruct (Z.leb_spec align n) as [Hge|Hlt].
      - assert (Hkm : k < m) by lia. specialize (Hal1 Hkm).
        pose proof (Z.div_mod n align ltac:(lia)) as Hd.
        pose proof (Z.mod_pos_bound n align Hal) as Hmb.
        assert (Hc : 1 <= n / align) by (apply Z.div_le_lower_bound; lia).
        set (rl := n / align * align) in *.
        assert (Hrl : 0 < rl <= n /\ n mod align = n - rl) by (subst rl; nia).
        destruct (Hbe (s_pos st) rl ltac:(lia) ltac:(rewrite Hpos; exact Hal1) ltac:(lia)
                    ltac:(subst rl; apply Z.mod_mul; lia)) as (L & -> & _ & HL).
        rewrite (HL ltac:(lia)). cbn [bind].
        destruct (set_pos_inv st (s_pos st + rl) HI ltac:(lia)) as [HI2 Hp2].
        eexists (_, _, _), (k + rl). split; [reflexivity|]. split.
        + unfold PS. split; [exact HI2|]. split.
          { rewrite flat_app, flat_single, Hflat, Hpos. rewrite (zseq_app p0 k rl) by lia. reflexivity. }
          split; [lia|]. split; lia.
        + intros _. split; [|lia].
          replace (p0 + (k + rl)) with ((p0 + k) + rl) by lia.
          apply mod0_add; [lia|exact Hal1|subst rl; apply Z.mod_mul; lia].
      - exists (st, out, n), k. split; [reflexivity|]. split.
        + unfold PS. split; [exact HI|]. split; [exact Hflat|]. split; [exact Hpos|]. split; [exact Hn|exact Hk].
        + intros Hk2. split; [apply Hal1; lia|lia].
    Qed.

    Lemma phase3_ok x2 k2 : PS x2 k2 -> (k2 < m -> (p0 + k2) mod align = 0 /\ m - k2 < align) ->
      exists st' out, phase3 size align blen x2 = Ok (st', out) /\ Inv st' /\
        flat out = zseq p0 m /\ s_pos st' = p0 + m.
    Proof.
      destruct x2 as [[st out] n]. intros (HI & Hflat & Hpos & Hn & Hk) Hal2.
      unfold phase3. destruct (Z.ltb_spec 0 n) as [Hpos_n|Hz].
      - destruct (Hal2 ltac:(lia)) as [Ha Hsm].
        pose proof (pa_facts st HI) as (Hpa0 & Hpar & Hbp & Hbpl).
        assert (Hpa : s_pos_align st = s_pos st).
        { destruct HI as (_ & Hpa & _). rewrite Hpa, Hpos, Ha. lia. }
        destruct (fill_buf_ok st HI ltac:(lia)) as (st3 & l & -> & Hp3 & Hpa3 & HI3 & Hb3 & Hl).
        cbn [bind]. unfold buf_slice. rewrite Hb3. cbn [bind slice_range].
        replace (Z.min 0 l) with 0 by lia.
        replace (Z.min (Z.max n 0) l) with n by lia.
        destruct (set_pos_inv st3 (s_pos st3 + n) HI3 ltac:(lia)) as [HI4 Hp4].
        eexists _, _. split; [reflexivity|]. split; [exact HI4|]. split.
        + rewrite flat_app, flat_single, Hflat. rewrite Hpa, Hpos, Z.add_0_r, Z.sub_0_r.
          replace (zseq p0 m) with (zseq p0 (k2 + n)) by (f_equal; lia).
          rewrite (zseq_app p0 k2 n) by lia. reflexivity.
        + rewrite Hp4, Hp3. lia.
      - exists st, out. split; [reflexivity|]. assert (k2 = m) by lia. subst k2.
        split; [exact HI|]. split; [exact Hflat|exact Hpos].
    Qed.
  End OneRead.

  Notation spec_read_len := (spec_read_len size).

  Theorem read_ok st n : Inv st -> -1 <= n ->
    exists st' out, read st n = Ok (st', out) /\ Inv st' /\
      flat out = zseq (s_pos st) (spec_read_len (s_pos st) n) /\
      s_pos st' = s_pos st + spec_read_len (s_pos st) n.
  Proof.
    intros HI Hn. unfold AlignedStream.read, AlignedStream.spec_read_len.
    destruct (Z.ltb_spec n (-1)); [lia|].
    set (nn := if n =? -1 then size - s_pos st else Z.min n (size - s_pos st)).
    assert (Hp : 0 <= s_pos st) by apply HI.
    destruct (Z.eqb_spec nn 0) as [E0|E0]; cbn [orb].
    { exists st, []. split; [reflexivity|]. split; [exact HI|].
      assert (Hm0 : (if n =? -1 then Z.max 0 (size - s_pos st) else Z.max 0 (Z.min n (size - s_pos st))) = 0).
      { subst nn. destruct (n =? -1); lia. }
      rewrite Hm0. split; [now rewrite zseq_nonpos by lia|lia]. }
    destruct (Z.leb_spec size (s_pos st)) as [Hle|Hlt].
    { exists st, []. split; [reflexivity|]. split; [exact HI|].
      assert (Hm0 : (if n =? -1 then Z.max 0 (size - s_pos st) else Z.max 0 (Z.min n (size - s_pos st))) = 0).
      { destruct (n =? -1); lia. }
      rewrite Hm0. split; [now rewrite zseq_nonpos by lia|lia]. }
    assert (Hnn : 0 < nn /\ s_pos st + nn <= size /\
                  (if n =? -1 then Z.max 0 (size - s_pos st) else Z.max 0 (Z.min n (size - s_pos st))) = nn).
    { subst nn. destruct (Z.eqb_spec n (-1)); lia. }
    destruct Hnn as (Hnn0 & Hnfit & ->).
    destruct (phase1_ok (s_pos st) nn Hnn0 Hnfit st HI eq_refl) as (x1 & k & -> & HP1 & Ha1).
    cbn [bind].
    destruct (phase2_ok (s_pos st) nn Hp Hnn0 Hnfit x1 k HP1 Ha1) as (x2 & k2 & -> & HP2 & Ha2).
    cbn [bind].
    destruct (phase3_ok (s_pos st) nn Hp Hnn0 Hnfit x2 k2 HP2 Ha2) as (st' & out & -> & HI' & Hfl & Hps).
    exists st', out. split; [reflexivity|]. split; [exact HI'|]. split; [exact Hfl|exact Hps].
  Qed.

  (* outputs agree: positions equal; byte outputs denote the same positions *)
  Definition out_agrees (o spec : sout) : Prop :=
    match o, spec with
    | OutPos p, OutPos q => p = q
    | OutBytes rs, OutBytes sp => flat rs = flat sp
    | OutErr, OutErr => True
    | _, _ => False
    end.

  Theorem step_ok st o pos' so : Inv st -> spec_step size (s_pos st) o = Some (pos', so) ->
    exists st' out, step st o = Ok (st', out) /\ Inv st' /\ s_pos st' = pos' /\ out_agrees out so.
  Proof.
    intros HI Hs. assert (Hp : 0 <= s_pos st) by apply HI.
    destruct o as [p w|n|n|off n|]; cbn [spec_step AlignedStream.step] in *.
    - destruct w; cbn [seek].
      + destruct (Z.ltb_spec p 0) as [Hneg|Hnn]; [discriminate|]. injection Hs as <- <-. cbn [bind fst snd].
        destruct (set_pos_inv st p HI ltac:(lia)) as [K1 K2]. eexists _, _. split; [reflexivity|].
        split; [exact K1|]. split; [exact K2|reflexivity].
      + injection Hs as <- <-. cbn [bind fst snd].
        destruct (set_pos_inv st (Z.max 0 (s_pos st + p)) HI ltac:(lia)) as [K1 K2]. eexists _, _.
        split; [reflexivity|]. split; [exact K1|]. split; [exact K2|reflexivity].
      + injection Hs as <- <-. cbn [bind fst snd].
        destruct (set_pos_inv st (Z.max 0 (size + p)) HI ltac:(lia)) as [K1 K2]. eexists _, _.
        split; [reflexivity|]. split; [exact K1|]. split; [exact K2|reflexivity].
    - destruct (Z.ltb_spec n (-1)) as [Hneg|Hnn]; [discriminate|]. injection Hs as <- <-.
      destruct (read_ok st n HI ltac:(lia)) as (st' & out & -> & HI' & Hfl & Hps).
      cbn [bind fst snd]. exists st', (OutBytes out). split; [reflexivity|]. split; [exact HI'|].
      split; [exact Hps|]. cbn [out_agrees]. rewrite Hfl. symmetry. apply flat_single.
    - destruct (Z.ltb_spec n (-1)) as [Hneg|Hnn]; [discriminate|]. injection Hs as <- <-.
      destruct (read_ok st n HI ltac:(lia)) as (st' & out & -> & HI' & Hfl & Hps).
      cbn [bind fst snd]. destruct (set_pos_inv st' (s_pos st) HI' Hp) as [K1 K2].
      eexists _, _. split; [reflexivity|]. split; [exact K1|]. split; [exact K2|].
      cbn [out_agrees]. rewrite Hfl. symmetry. apply flat_single.
    - destruct (Z.ltb_spec off 0) as [Hneg|Hnn]; cbn [orb] in Hs; [discriminate|].
      destruct (Z.ltb_spec n (-1)) as [Hneg2|Hnn2]; [discriminate|]. injection Hs as <- <-.
      cbn [seek]. destruct (Z.ltb_spec off 0) as [Hneg3|Hnn3]; [lia|]. cbn [bind fst snd].
      destruct (set_pos_inv st off HI ltac:(lia)) as [K1 K2].
      destruct (read_ok _ n K1 ltac:(lia)) as (st' & out & -> & HI' & Hfl & Hps).
      cbn [bind fst snd]. rewrite K2 in *. exists st', (OutBytes out).
      split; [reflexivity|]. split; [exact HI'|]. split; [exact Hps|].
      cbn [out_agrees]. rewrite Hfl. symmetry. apply flat_single.
    - injection Hs as <- <-. exists st, (OutPos (s_pos st)).
      split; [reflexivity|]. split; [exact HI|]. split; reflexivity.
  Qed.

  Theorem step_err st o : Inv st -> spec_step size (s_pos st) o = None -> step st o = Err.
  Proof.
    intros HI Hs.
    destruct o as [p w|n|n|off n|]; cbn [spec_step AlignedStream.step] in *.
    - destruct w; cbn [seek]; try discriminate.
      destruct (Z.ltb_spec p 0); [reflexivity|discriminate].
    - destruct (Z.ltb_spec n (-1)); [|discriminate]. unfold AlignedStream.read.
      destruct (Z.ltb_spec n (-1)); [reflexivity|lia].
    - destruct (Z.ltb_spec n (-1)); [|discriminate]. unfold AlignedStream.read.
      destruct (Z.ltb_spec n (-1)); [reflexivity|lia].
    - cbn [seek]. destruct (Z.ltb_spec off 0); cbn [orb] in Hs; [reflexivity|].
      destruct (Z.ltb_spec n (-1)); [|discriminate]. cbn [bind fst]. unfold AlignedStream.read.
      destruct (Z.ltb_spec n (-1)); [reflexivity|lia].
    - discriminate.
  Qed.

  Notation spec_run := (spec_run size).

  (* every finite history: the stream's outputs are the array's outputs *)
  Theorem run_refines_array ops : forall st, Inv st ->
    exists st' outs, run st ops = Ok (st', outs) /\ Inv st' /\
      Forall2 out_agrees outs (spec_run (s_pos st) ops).
  Proof.
    induction ops as [|o rest IH]; intros st HI.
    - exists st, []. split; [reflexivity|]. split; [exact HI|constructor].
    - cbn [AlignedStream.run AlignedStream.spec_run].
      destruct (spec_step size (s_pos st) o) as [[pos' so]|] eqn:Hs.
      + destruct (step_ok st o pos' so HI Hs) as (st1 & out & -> & HI1 & Hp1 & Hag).
        cbn [fst snd]. destruct (IH st1 HI1) as (st' & outs & Hrun & HI' & Hall). rewrite Hrun. cbn [bind fst snd].
        exists st', (out :: outs). split; [reflexivity|]. split; [exact HI'|]. rewrite Hp1 in Hall.
        constructor; assumption.
      + rewrite (step_err st o HI Hs).
        destruct (IH st HI) as (st' & outs & Hrun & HI' & Hall). rewrite Hrun. cbn [bind fst snd].
        exists st', (OutErr :: outs). split; [reflexivity|]. split; [exact HI'|]. constructor; [exact I|assumption].
  Qed.
End P.

(* the observable behaviour does not depend on the alignment / buffer size: the spec
   [spec_run] does not mention [align] at all, so two streams over back ends honouring the
   contract at different alignments produce agreeing outputs on every history. *)
