(* Proofs/AlignedStreamB.v — byte-level refinement: a stream over a back end whose returned
   bytes are the array's bytes (on the in-range prefix) returns, under every finite history,
   exactly the bytes of the immutable array. *)
From Coq Require Import ZArith List Bool Lia.
From DH Require Import Base.Arith Base.Plan Model.AlignedStream Model.AlignedStreamB Proofs.AlignedStream
  Proofs.BlockMapped.
Import ListNotations.
Open Scope Z_scope.

Lemma skipn_map_zseq {A} (f : Z -> A) o n a :
  0 <= a <= n -> skipn (Z.to_nat a) (map f (zseq o n)) = map f (zseq (o + a) (n - a)).
Proof.
  intros H. replace n with (a + (n - a)) at 1 by lia.
  rewrite zseq_app, map_app by lia.
  rewrite skipn_app.
  assert (Hl : length (map f (zseq o a)) = Z.to_nat a).
  { rewrite map_length. pose proof (zseq_length o a ltac:(lia)). lia. }
  rewrite Hl, Nat.sub_diag. cbn [skipn].
  rewrite skipn_all2 by lia. reflexivity.
Qed.

Section PB.
  Context {B : Type}.
  Variables size align : Z.
  Variable bread : Z -> Z -> res (list B).
  Variable content : Z -> B.
  Hypothesis Hal : 0 < align.
  Hypothesis Hsz : 0 <= size.

  Definition zlen (l : list B) : Z := Z.of_nat (length l).

  (* the back end: bytes of the in-range prefix are the array's; exact length for in-range requests *)
  Definition bread_ok : Prop :=
    forall off len, 0 <= off < size -> off mod align = 0 -> 0 < len -> len mod align = 0 ->
      exists l, bread off len = Ok l /\
        Z.min len (size - off) <= zlen l /\
        firstn (Z.to_nat (Z.min len (size - off))) l = map content (zseq off (Z.min len (size - off))) /\
        (off + len <= size -> zlen l = len).
  Hypothesis Hbe : bread_ok.

  Notation bset_pos := (bset_pos align).
  Notation bfill_buf := (bfill_buf size align bread).
  Notation bread_op := (bread_op size align bread).

  (* a buffered list is valid for the aligned position pa *)
  Definition valid_buf (pa : Z) (l : list B) : Prop :=
    let V := Z.min align (size - pa) in
    V <= zlen l /\ firstn (Z.to_nat V) l = map content (zseq pa V).

  Definition bbuf_ok (pa : Z) (b : option (list B)) : Prop :=
    match b with None => True | Some l => l = [] \/ valid_buf pa l end.

  Definition BInv (st : bstate) : Prop :=
    0 <= b_pos st /\ b_pos_align st = b_pos st - b_pos st mod align /\ bbuf_ok (b_pos_align st) (b_buf st).

  Lemma BInv_init : BInv binit.
  Proof. unfold BInv, binit. cbn [b_pos b_pos_align b_buf bbuf_ok]. rewrite Z.mod_0_l by lia. repeat split; lia. Qed.

  Lemma bset_pos_inv st p : BInv st -> 0 <= p -> BInv (bset_pos st p) /\ b_pos (bset_pos st p) = p.
  Proof.
    intros (Hp & Hpa & Hb) Hp0. unfold AlignedStreamB.bset_pos, BInv.
    destruct (Z.eqb_spec (b_pos_align st) (p - p mod align)) as [E|E];
      cbn [b_pos b_pos_align b_buf bbuf_ok]; (split; [|reflexivity]).
    - split; [lia|]. split; [exact E|exact Hb].
    - split; [lia|]. split; [reflexivity|exact I].
  Qed.

  Lemma bpa_facts st : BInv st ->
    b_pos_align st mod align = 0 /\ 0 <= b_pos_align st <= b_pos st /\
    b_pos st - b_pos_align st = b_pos st mod align /\ b_pos st mod align < align.
  Proof.
    intros (Hp & Hpa & _).
    pose proof (Z.mod_pos_bound (b_pos st) align Hal) as Hm.
    pose proof (Z.div_mod (b_pos st) align ltac:(lia)) as Hd.
    assert (Hq : 0 <= b_pos st / align) by (apply Z.div_pos; lia).
    repeat split; try lia.
    replace (b_pos_align st) with (b_pos st / align * align) by lia. apply Z.mod_mul. lia.
  Qed.

  (* slices inside the valid prefix are array bytes *)
  Lemma pyslice_valid pa l a b :
    valid_buf pa l -> 0 <= a <= b -> b <= Z.min align (size - pa) ->
    pyslice l a b = map content (zseq (pa + a) (b - a)).
  Proof.
    intros [HV Hf] Hab Hb. set (V := Z.min align (size - pa)) in *.
    unfold pyslice.
    rewrite <- (firstn_skipn (Z.to_nat V) l). rewrite Hf.
    rewrite skipn_app.
    assert (Hl : length (map content (zseq pa V)) = Z.to_nat V).
    { rewrite map_length. pose proof (zseq_length pa V ltac:(lia)). lia. }
    rewrite Hl. replace (Z.to_nat a - Z.to_nat V)%nat with 0%nat by lia. cbn [skipn].
    rewrite skipn_map_zseq by lia. rewrite firstn_app.
    assert (Hl2 : length (map content (zseq (pa + a) (V - a))) = Z.to_nat (V - a)).
    { rewrite map_length. pose proof (zseq_length (pa + a) (V - a) ltac:(lia)). lia. }
    rewrite Hl2. replace (Z.to_nat (b - a) - Z.to_nat (V - a))%nat with 0%nat by lia.
    rewrite firstn_O, app_nil_r. apply firstn_map_zseq. lia.
  Qed.

  Lemma bfill_buf_ok st : BInv st -> b_pos st < size ->
    exists st' l, bfill_buf st = Ok st' /\ b_pos st' = b_pos st /\ b_pos_align st' = b_pos_align st /\
      BInv st' /\ b_buf st' = Some l /\ valid_buf (b_pos_align st) l.
  Proof.
    intros HI Hlt. pose proof (bpa_facts st HI) as (Hpa0 & Hpar & Hbp & Hbpl).
    destruct HI as (Hp & Hpa & Hb). unfold AlignedStreamB.bfill_buf.
    assert (Hf1 : (size <=? b_pos st) = false) by (apply Z.leb_gt; lia).
    assert (Hf2 : (size <=? b_pos_align st) = false) by (apply Z.leb_gt; lia).
    assert (Hnew : exists st' l, (do l <- bread (b_pos_align st) align;
         Ok {| b_pos := b_pos st; b_pos_align := b_pos_align st; b_buf := Some l |}) = Ok st' /\
         b_pos st' = b_pos st /\ b_pos_align st' = b_pos_align st /\ BInv st' /\
         b_buf st' = Some l /\ valid_buf (b_pos_align st) l).
    { destruct (Hbe (b_pos_align st) align ltac:(lia) Hpa0 Hal (Z.mod_same align ltac:(lia)))
        as (l & -> & HL & Hfl & _).
      cbn [bind]. eexists _, l. split; [reflexivity|]. cbn [b_pos b_pos_align b_buf].
      assert (Hv : valid_buf (b_pos_align st) l) by (split; assumption).
      split; [reflexivity|]. split; [reflexivity|]. split.
      { unfold BInv. cbn [b_pos b_pos_align b_buf bbuf_ok]. split; [lia|]. split; [exact Hpa|right; exact Hv]. }
      split; [reflexivity|exact Hv]. }
    destruct (b_buf st) as [l|] eqn:Hbuf; cbn [bbuf_nonempty].
    - destruct l as [|x l']; cbn [orb].
      + rewrite Hf1, Hf2. cbn [orb]. exact Hnew.
      + exists st, (x :: l'). cbn [bbuf_ok] in Hb. destruct Hb as [Hnil|Hv]; [discriminate|].
        split; [reflexivity|]. split; [reflexivity|]. split; [reflexivity|]. split.
        { unfold BInv. rewrite Hbuf. cbn [bbuf_ok]. split; [lia|]. split; [exact Hpa|right; exact Hv]. }
        split; [exact Hbuf|exact Hv].
    - rewrite Hf1, Hf2. cbn [orb]. exact Hnew.
  Qed.

  Section OneRead.
    Variables p0 m : Z.
    Hypothesis Hp0 : 0 <= p0.
    Hypothesis Hm : 0 < m.
    Hypothesis Hfit : p0 + m <= size.

    Definition BPS (x : bpstate) (k : Z) : Prop :=
      let '(st, out, n) := x in
      BInv st /\ out = map content (zseq p0 k) /\ b_pos st = p0 + k /\ n = m - k /\ 0 <= k <= m.

    Lemma bphase1_ok st : BInv st -> b_pos st = p0 ->
      exists x1 k, bphase1 size align bread (st, [], m) = Ok x1 /\ BPS x1 k /\
        (k < m -> (p0 + k) mod align = 0).
    Proof.
      intros HI Hpos. pose proof (bpa_facts st HI) as (Hpa0 & Hpar & Hbp & Hbpl).
      unfold bphase1. destruct (Z.eqb_spec (b_pos st) (b_pos_align st)) as [E|E]; cbn [negb].
      - exists (st, [], m), 0. split; [reflexivity|]. split.
        + unfold BPS. split; [exact HI|]. split; [reflexivity|]. repeat split; lia.
        + intros _. rewrite Z.add_0_r, <- Hpos, E. exact Hpa0.
      - destruct (bfill_buf_ok st HI ltac:(lia)) as (st1 & l & -> & Hp1 & Hpa1 & HI1 & Hb1 & Hv).
        cbn [bind]. rewrite Hp1, Hpa1.
        set (bp := b_pos st - b_pos_align st) in *.
        set (bl := Z.min m (align - bp)).
        assert (Hbpos : 0 < bp < align) by lia.
        assert (Hbl : 0 < bl <= m /\ bl <= align - bp) by (subst bl; lia).
        unfold bbuf_slice. rewrite Hb1. cbn [bind].
        rewrite (pyslice_valid (b_pos_align st) l bp (bp + bl) Hv ltac:(lia) ltac:(lia)).
        destruct (bset_pos_inv st1 (b_pos st + bl) HI1 ltac:(lia)) as [HI2 Hp2].
        eexists (_, _, _), bl. split; [reflexivity|]. split.
        + unfold BPS. split; [exact HI2|]. split.
          { cbn [app]. f_equal. f_equal; lia. }
          repeat split; lia.
        + intros Hk. assert (bl = align - bp) by lia.
          replace (p0 + bl) with (b_pos_align st + align) by lia.
          apply mod0_add; [lia|exact Hpa0|apply Z.mod_same; lia].
    Qed.

    Lemma bphase2_ok x1 k : BPS x1 k -> (k < m -> (p0 + k) mod align = 0) ->
      exists x2 k2, bphase2 align bread x1 = Ok x2 /\ BPS x2 k2 /\
        (k2 < m -> (p0 + k2) mod align = 0 /\ m - k2 < align).
    Proof.
      destruct x1 as [[st out] n]. intros (HI & Hout & Hpos & Hn & Hk) Hal1.
      unfold bphase2. destruct (Z.leb_spec align n) as [Hge|Hlt].
      - assert (Hkm : k < m) by lia. specialize (Hal1 Hkm).
        pose proof (Z.div_mod n align ltac:(lia)) as Hd.
        pose proof (Z.mod_pos_bound n align Hal) as Hmb.
        assert (Hc : 1 <= n / align) by (apply Z.div_le_lower_bound; lia).
        set (rl := n / align * align) in *.
        assert (Hrl : 0 < rl <= n /\ n mod align = n - rl) by (subst rl; nia).
        assert (Hposa : b_pos st mod align = 0) by (rewrite Hpos; exact Hal1).
        assert (Hrlm : rl mod align = 0) by (subst rl; apply Z.mod_mul; lia).
        destruct (Hbe (b_pos st) rl ltac:(lia) Hposa ltac:(lia) Hrlm) as (l & -> & HL & Hfl & Hex).
        cbn [bind].
        assert (Hlen : zlen l = rl) by (apply Hex; lia).
        replace (Z.min rl (size - b_pos st)) with rl in Hfl by lia.
        assert (Hl : l = map content (zseq (b_pos st) rl)).
        { rewrite <- Hfl. symmetry. apply firstn_all2. unfold zlen in Hlen. lia. }
        destruct (bset_pos_inv st (b_pos st + rl) HI ltac:(lia)) as [HI2 Hp2].
        eexists (_, _, _), (k + rl). split; [reflexivity|]. split.
        + unfold BPS. split; [exact HI2|]. split.
          { rewrite Hout, Hl, Hpos. rewrite (zseq_app p0 k rl) by lia. now rewrite map_app. }
          split; [lia|]. split; lia.
        + intros _. split; [|lia].
          replace (p0 + (k + rl)) with ((p0 + k) + rl) by lia.
          apply mod0_add; [lia|exact Hal1|exact Hrlm].
      - exists (st, out, n), k. split; [reflexivity|]. split.
        + unfold BPS. split; [exact HI|]. split; [exact Hout|]. split; [exact Hpos|]. split; [exact Hn|exact Hk].
        + intros Hk2. split; [apply Hal1; lia|lia].
    Qed.

    Lemma bphase3_ok x2 k2 : BPS x2 k2 -> (k2 < m -> (p0 + k2) mod align = 0 /\ m - k2 < align) ->
      exists st' out, bphase3 size align bread x2 = Ok (st', out) /\ BInv st' /\
        out = map content (zseq p0 m) /\ b_pos st' = p0 + m.
    Proof.
      destruct x2 as [[st out] n]. intros (HI & Hout & Hpos & Hn & Hk) Hal2.
      unfold bphase3. destruct (Z.ltb_spec 0 n) as [Hpos_n|Hz].
      - destruct (Hal2 ltac:(lia)) as [Ha Hsm].
        pose proof (bpa_facts st HI) as (Hpa0 & Hpar & Hbp & Hbpl).
        assert (Hpa : b_pos_align st = b_pos st).
        { destruct HI as (_ & Hpa & _). rewrite Hpa, Hpos, Ha. lia. }
        destruct (bfill_buf_ok st HI ltac:(lia)) as (st3 & l & -> & Hp3 & Hpa3 & HI3 & Hb3 & Hv).
        cbn [bind]. unfold bbuf_slice. rewrite Hb3. cbn [bind].
        rewrite (pyslice_valid (b_pos_align st) l 0 n Hv ltac:(lia) ltac:(lia)).
        destruct (bset_pos_inv st3 (b_pos st3 + n) HI3 ltac:(lia)) as [HI4 Hp4].
        eexists _, _. split; [reflexivity|]. split; [exact HI4|]. split.
        + rewrite Hout, Hpa, Hpos, Z.add_0_r, Z.sub_0_r.
          replace (zseq p0 m) with (zseq p0 (k2 + n)) by (f_equal; lia).
          rewrite (zseq_app p0 k2 n) by lia. now rewrite map_app.
        + rewrite Hp4, Hp3. lia.
      - exists st, out. split; [reflexivity|]. assert (k2 = m) by lia. subst k2.
        split; [exact HI|]. split; [exact Hout|exact Hpos].
    Qed.
  End OneRead.

  Notation spec_read_len := (spec_read_len size).

  Theorem bread_op_ok st n : BInv st -> -1 <= n ->
    exists st' out, bread_op st n = Ok (st', out) /\ BInv st' /\
      out = map content (zseq (b_pos st) (spec_read_len (b_pos st) n)) /\
      b_pos st' = b_pos st + spec_read_len (b_pos st) n.
  Proof.
    intros HI Hn. unfold AlignedStreamB.bread_op, AlignedStream.spec_read_len.
    destruct (Z.ltb_spec n (-1)); [lia|].
    set (nn := if n =? -1 then size - b_pos st else Z.min n (size - b_pos st)).
    assert (Hp : 0 <= b_pos st) by apply HI.
    destruct (Z.eqb_spec nn 0) as [E0|E0]; cbn [orb].
    { exists st, []. split; [reflexivity|]. split; [exact HI|].
      assert (Hm0 : (if n =? -1 then Z.max 0 (size - b_pos st) else Z.max 0 (Z.min n (size - b_pos st))) = 0).
      { subst nn. destruct (n =? -1); lia. }
      rewrite Hm0. split; [reflexivity|lia]. }
    destruct (Z.leb_spec size (b_pos st)) as [Hle|Hlt].
    { exists st, []. split; [reflexivity|]. split; [exact HI|].
      assert (Hm0 : (if n =? -1 then Z.max 0 (size - b_pos st) else Z.max 0 (Z.min n (size - b_pos st))) = 0).
      { destruct (n =? -1); lia. }
      rewrite Hm0. split; [reflexivity|lia]. }
    assert (Hnn : 0 < nn /\ b_pos st + nn <= size /\
                  (if n =? -1 then Z.max 0 (size - b_pos st) else Z.max 0 (Z.min n (size - b_pos st))) = nn).
    { subst nn. destruct (Z.eqb_spec n (-1)); lia. }
    destruct Hnn as (Hnn0 & Hnfit & ->).
    destruct (bphase1_ok (b_pos st) nn Hnn0 Hnfit st HI eq_refl) as (x1 & k & -> & HP1 & Ha1).
    cbn [bind].
    destruct (bphase2_ok (b_pos st) nn Hp Hnn0 Hnfit x1 k HP1 Ha1) as (x2 & k2 & -> & HP2 & Ha2).
    cbn [bind].
    destruct (bphase3_ok (b_pos st) nn Hp Hnfit x2 k2 HP2 Ha2) as (st' & out & -> & HI' & Hfl & Hps).
    exists st', out. split; [reflexivity|]. split; [exact HI'|]. split; [exact Hfl|exact Hps].
  Qed.

  Theorem bstep_ok st o pos' so : BInv st -> spec_step size (b_pos st) o = Some (pos', so) ->
    exists st', bstep size align bread st o = Ok (st', array_out content so) /\ BInv st' /\ b_pos st' = pos'.
  Proof.
    intros HI Hs. assert (Hp : 0 <= b_pos st) by apply HI.
    destruct o as [p w|n|n|off n|]; cbn [spec_step bstep] in *.
    - destruct w; cbn [bseek].
      + destruct (Z.ltb_spec p 0) as [Hneg|Hnn]; [discriminate|]. injection Hs as <- <-. cbn [bind fst snd].
        destruct (bset_pos_inv st p HI ltac:(lia)) as [K1 K2]. eexists. split; [reflexivity|]. split; assumption.
      + injection Hs as <- <-. cbn [bind fst snd].
        destruct (bset_pos_inv st (Z.max 0 (b_pos st + p)) HI ltac:(lia)) as [K1 K2]. eexists.
        split; [reflexivity|]. split; assumption.
      + injection Hs as <- <-. cbn [bind fst snd].
        destruct (bset_pos_inv st (Z.max 0 (size + p)) HI ltac:(lia)) as [K1 K2]. eexists.
        split; [reflexivity|]. split; assumption.
    - destruct (Z.ltb_spec n (-1)) as [Hneg|Hnn]; [discriminate|]. injection Hs as <- <-.
      destruct (bread_op_ok st n HI ltac:(lia)) as (st' & out & -> & HI' & Hfl & Hps).
      cbn [bind fst snd]. exists st'. split.
      { cbn [array_out]. rewrite flat_single, Hfl. reflexivity. }
      split; [exact HI'|exact Hps].
    - destruct (Z.ltb_spec n (-1)) as [Hneg|Hnn]; [discriminate|]. injection Hs as <- <-.
      destruct (bread_op_ok st n HI ltac:(lia)) as (st' & out & -> & HI' & Hfl & Hps).
      cbn [bind fst snd]. destruct (bset_pos_inv st' (b_pos st) HI' Hp) as [K1 K2].
      eexists. split.
      { cbn [array_out]. rewrite flat_single, Hfl. reflexivity. }
      split; assumption.
    - destruct (Z.ltb_spec off 0) as [Hneg|Hnn]; cbn [orb] in Hs; [discriminate|].
      destruct (Z.ltb_spec n (-1)) as [Hneg2|Hnn2]; [discriminate|]. injection Hs as <- <-.
      cbn [bseek]. destruct (Z.ltb_spec off 0) as [Hneg3|Hnn3]; [lia|]. cbn [bind fst snd].
      destruct (bset_pos_inv st off HI ltac:(lia)) as [K1 K2].
      destruct (bread_op_ok _ n K1 ltac:(lia)) as (st' & out & -> & HI' & Hfl & Hps).
      cbn [bind fst snd]. rewrite K2 in *. exists st'. split.
      { cbn [array_out]. rewrite flat_single, Hfl. reflexivity. }
      split; [exact HI'|exact Hps].
    - injection Hs as <- <-. exists st. split; [reflexivity|]. split; [exact HI|reflexivity].
  Qed.

  Theorem bstep_err st o : BInv st -> spec_step size (b_pos st) o = None -> bstep size align bread st o = Err.
  Proof.
    intros HI Hs.
    destruct o as [p w|n|n|off n|]; cbn [spec_step bstep] in *.
    - destruct w; cbn [bseek]; try discriminate.
      destruct (Z.ltb_spec p 0); [reflexivity|discriminate].
    - destruct (Z.ltb_spec n (-1)); [|discriminate]. unfold AlignedStreamB.bread_op.
      destruct (Z.ltb_spec n (-1)); [reflexivity|lia].
    - destruct (Z.ltb_spec n (-1)); [|discriminate]. unfold AlignedStreamB.bread_op.
      destruct (Z.ltb_spec n (-1)); [reflexivity|lia].
    - cbn [bseek]. destruct (Z.ltb_spec off 0); cbn [orb] in Hs; [reflexivity|].
      destruct (Z.ltb_spec n (-1)); [|discriminate]. cbn [bind fst]. unfold AlignedStreamB.bread_op.
      destruct (Z.ltb_spec n (-1)); [reflexivity|lia].
    - discriminate.
  Qed.

  (* every finite history: the stream returns exactly the array's bytes and positions *)
  Theorem brun_is_array ops : forall st, BInv st ->
    exists st', brun size align bread st ops = Ok (st', map (array_out content) (spec_run size (b_pos st) ops)) /\
                BInv st'.
  Proof.
    induction ops as [|o rest IH]; intros st HI.
    - exists st. split; [reflexivity|exact HI].
    - cbn [brun AlignedStream.spec_run].
      destruct (spec_step size (b_pos st) o) as [[pos' so]|] eqn:Hs.
      + destruct (bstep_ok st o pos' so HI Hs) as (st1 & -> & HI1 & Hp1).
        cbn [fst snd]. destruct (IH st1 HI1) as (st' & Hrun & HI'). rewrite Hrun. cbn [bind fst snd map].
        exists st'. rewrite Hp1. split; [reflexivity|exact HI'].
      + rewrite (bstep_err st o HI Hs).
        destruct (IH st HI) as (st' & Hrun & HI'). rewrite Hrun. cbn [bind fst snd map].
        exists st'. split; [reflexivity|exact HI'].
  Qed.
End PB.

(* a reader's plan, interpreted with the files' contents, is such a back end *)
Section ReaderBytes.
  Context {B : Type}.
  Variable zero : B.
  Variables file data parent : Z -> B.
  Variable infl : Z -> Z -> B.
  Variables size align : Z.
  Variable bread : Z -> Z -> res (list seg).
  Variable gsrc : Z -> src.

  Definition bytes_backend (off len : Z) : res (list B) :=
    do p <- bread off len; Ok (denote zero file data parent infl p).

  Definition guest (o : Z) : B := byte_of zero file data parent infl (gsrc o).
End ReaderBytes.
