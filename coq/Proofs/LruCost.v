(* Proofs/LruCost.v — the cost side of memoising table loads: a key history that touches no more distinct
   keys than the cache holds loads each of them at most once, in any order and however often they recur.
   (C13: small reads cycling over a handful of mapping tables cost one table load per table, not per read.) *)
From Coq Require Import ZArith List Bool Lia.
From DH Require Import Model.Lru Proofs.Lru.
Import ListNotations.
Open Scope Z_scope.

Section Cost.
  Context {V : Type}.
  Variable cap : nat.
  Variable load : Z -> V.

  Definition keys (c : @cache V) : list Z := map fst c.

  (* number of calls that had to go to the loader *)
  Fixpoint lru_misses (c : @cache V) (ks : list Z) : nat :=
    match ks with
    | [] => O
    | k :: r =>
        let miss := match lookup k c with Some _ => O | None => 1%nat end in
        (miss + lru_misses (snd (lru_get cap load c k)) r)%nat
    end.

  Lemma lookup_none_notin k (c : @cache V) : lookup k c = None -> ~ In k (keys c).
  Proof.
    induction c as [|[k' v] r IH]; cbn; [tauto|].
    destruct (Z.eqb_spec k' k) as [->|Hne]; [discriminate|].
    intros H [He|Hi]; [congruence|]. exact (IH H Hi).
  Qed.

  Lemma lookup_some_in k (c : @cache V) v : lookup k c = Some v -> In k (keys c).
  Proof. intros H. apply lookup_in in H. unfold keys. change k with (fst (k, v)). now apply in_map. Qed.

  Lemma keys_remove_key k (c : @cache V) : forall x, In x (keys (remove_key k c)) -> In x (keys c).
  Proof.
    induction c as [|[k' v] r IH]; cbn; [tauto|]. intros x.
    destruct (k' =? k); cbn; [tauto|]. intros [H|H]; [now left|right; now apply IH].
  Qed.

  Lemma nodup_remove_key k (c : @cache V) : NoDup (keys c) -> NoDup (keys (remove_key k c)) /\ ~ In k (keys (remove_key k c)).
  Proof.
    induction c as [|[k' v] r IH]; cbn; intros Hnd; [split; [constructor|tauto]|].
    inversion Hnd as [|? ? Hni Hnd']; subst.
    destruct (Z.eqb_spec k' k) as [->|Hne]; [split; assumption|].
    destruct (IH Hnd') as [H1 H2]. cbn. split.
    - constructor; [|exact H1]. intros Hin. apply Hni. now apply (keys_remove_key k).
    - intros [He|Hi]; [congruence|tauto].
  Qed.

  Lemma length_remove_key k (c : @cache V) : In k (keys c) -> S (length (remove_key k c)) = length c.
  Proof.
    induction c as [|[k' v] r IH]; cbn; [tauto|].
    destruct (Z.eqb_spec k' k) as [->|Hne]; [reflexivity|].
    intros [He|Hi]; [congruence|]. cbn. now rewrite (IH Hi).
  Qed.

  (* the invariant: cached keys are distinct and all belong to the working set S *)
  Definition inv (W : list Z) (c : @cache V) : Prop := NoDup (keys c) /\ incl (keys c) W.

  Lemma inv_length W c : inv W c -> (length c <= length W)%nat.
  Proof. intros [Hnd Hinc]. rewrite <- (map_length fst c). now apply NoDup_incl_length. Qed.

  Lemma lru_get_inv W c k :
    (length W <= cap)%nat -> In k W -> inv W c -> inv W (snd (lru_get cap load c k)) /\
    (length (snd (lru_get cap load c k)) =
       match lookup k c with Some _ => length c | None => S (length c) end).
  Proof.
    intros Hcap HkS [Hnd Hinc]. unfold lru_get.
    destruct (lookup k c) as [v|] eqn:Hl; cbn [snd].
    - destruct (nodup_remove_key k c Hnd) as [H1 H2]. split.
      + split; cbn [keys map fst].
        * constructor; assumption.
        * intros x [<-|Hx]; [exact HkS|]. apply Hinc. now apply (keys_remove_key k).
      + cbn [length]. apply length_remove_key. eapply lookup_some_in; eauto.
    - pose proof (lookup_none_notin k c Hl) as Hni.
      assert (Hinv' : inv W ((k, load k) :: c)).
      { split; cbn [keys map fst]; [constructor; assumption|]. intros x [<-|Hx]; [exact HkS|now apply Hinc]. }
      pose proof (inv_length W _ Hinv') as Hlen. cbn [length] in Hlen.
      rewrite firstn_all2 by (cbn [length]; lia). split; [exact Hinv'|reflexivity].
  Qed.

  (* the working set fits: what has been loaded is never evicted, so the loads are bounded by the keys not yet cached *)
  Theorem lru_misses_bound W : (length W <= cap)%nat -> forall ks c,
    inv W c -> incl ks W -> (lru_misses c ks + length c <= length W)%nat.
  Proof.
    intros Hcap. induction ks as [|k r IH]; intros c Hinv Hks; cbn [lru_misses].
    - pose proof (inv_length W c Hinv). lia.
    - assert (HkS : In k W) by (apply Hks; now left).
      destruct (lru_get_inv W c k Hcap HkS Hinv) as [Hinv' Hlen].
      assert (Hr : incl r W) by (intros x Hx; apply Hks; now right).
      specialize (IH _ Hinv' Hr). rewrite Hlen in IH.
      destruct (lookup k c); lia.
  Qed.

  (* from an empty cache: at most one load per distinct key *)
  Corollary lru_loads_each_once W ks :
    (length W <= cap)%nat -> incl ks W -> (lru_misses [] ks <= length W)%nat.
  Proof.
    intros Hcap Hks.
    pose proof (lru_misses_bound W Hcap ks [] (conj (NoDup_nil _) (incl_nil_l _)) Hks) as H. cbn [length] in H. lia.
  Qed.
End Cost.

(* non-vacuity: three tables read round-robin three times through a cache of 4 entries: 3 loads *)
Example ex_lru_cost : lru_misses 4 (fun k => k) [] [1; 2; 3; 1; 2; 3; 1; 2; 3] = 3%nat.
Proof. reflexivity. Qed.
(* and the capacity matters: with 2 entries the same history loads 9 times *)
Example ex_lru_thrash : lru_misses 2 (fun k => k) [] [1; 2; 3; 1; 2; 3; 1; 2; 3] = 9%nat.
Proof. reflexivity. Qed.
