(* Proofs/Vdi.v — VDI._read refines the pointwise spec (instance of BlockMapped). *)
From Coq Require Import ZArith List Bool Lia.
From DH Require Import Base.Arith Base.Plan Base.Table Model.Walk Model.Vdi Proofs.BlockMapped.
Import ListNotations.
Open Scope Z_scope.

Lemma UNALLOCATED_eq : UNALLOCATED = -1. Proof. reflexivity. Qed.
Lemma SPARSE_eq : SPARSE = -2. Proof. reflexivity. Qed.

Section V.
  Variable v : vdi.
  Hypothesis Hbs : 0 < v_bs v.

  Lemma vdi_emit_ok idx e io n segs :
    vdi_lookup v idx = Ok e -> vdi_emit v e idx io n = Ok segs ->
    0 <= idx -> 0 <= io -> 0 < n -> io + n <= v_bs v ->
    srcs_of segs = map (vdi_src v) (zseq ((idx * v_bs v + io) * 1) (n * 1)).
  Proof.
    intros Hlk Hem Hidx Hio Hn Hfit. rewrite !Z.mul_1_r.
    unfold vdi_emit in Hem. injection Hem as <-.
    unfold vdi_lookup in Hlk. destruct (v_map v idx) as [e'|] eqn:Hmap; [|discriminate].
    injection Hlk as ->.
    assert (Hsrc : forall j, 0 <= j < n ->
      vdi_src v (idx * v_bs v + io + j) =
      if e =? -1 then (if v_parent v then Parent (idx * v_bs v + io + j) else Zero)
      else if e =? -2 then Zero else File (v_data v + e * v_bs v + io + j)).
    { intros j Hj. unfold vdi_src.
      replace (idx * v_bs v + io + j) with (idx * v_bs v + (io + j)) by lia.
      rewrite div_mul_add, mod_mul_add by lia. rewrite Hmap.
      destruct (e =? -1); [reflexivity|]. destruct (e =? -2); [reflexivity|].
      f_equal. lia. }
    rewrite (zseq_rel (vdi_src v)).
    rewrite (map_ext_zseq _ (fun j =>
      if e =? -1 then (if v_parent v then Parent (idx * v_bs v + io + j) else Zero)
      else if e =? -2 then Zero else File (v_data v + e * v_bs v + io + j)) 0 n)
      by (intros; apply Hsrc; lia).
    rewrite UNALLOCATED_eq, SPARSE_eq.
    destruct (e =? -1).
    - destruct (v_parent v); unfold srcs_of; cbn [flat_map srcs_of_seg]; rewrite app_nil_r.
      + rewrite (zseq_rel Parent). reflexivity.
      + reflexivity.
    - destruct (e =? -2); unfold srcs_of; cbn [flat_map srcs_of_seg]; rewrite app_nil_r.
      + reflexivity.
      + rewrite (zseq_rel File). apply map_ext. intros j. f_equal; lia.
  Qed.

  Lemma vdi_lookup_not_fuel i : vdi_lookup v i <> Fuel.
  Proof. unfold vdi_lookup. destruct (v_map v i); discriminate. Qed.

  Lemma vdi_emit_not_fuel e i io n : vdi_emit v e i io n <> Fuel.
  Proof. discriminate. Qed.

  (* whatever the block map holds, a successful read is exactly the guest bytes *)
  Theorem vdi_read_sound fuel off len p :
    0 <= off -> vdi_read v fuel off len = Ok p ->
    srcs_of p = map (vdi_src v) (zseq off (Z.min len (v_size v - off))).
  Proof.
    intros Hoff Hrun. unfold vdi_read in Hrun.
    pose proof (walk_correct (v_bs v) 1 (vdi_lookup v) (vdi_emit v) (vdi_src v) Hbs ltac:(lia)
                  (fun idx a io n segs => vdi_emit_ok idx a io n segs) fuel off _ p Hoff Hrun) as H.
    rewrite !Z.mul_1_r in H. exact H.
  Qed.

  Theorem vdi_read_progress fuel off len :
    0 <= off -> len < Z.of_nat fuel -> vdi_read v fuel off len <> Fuel.
  Proof.
    intros Hoff Hf. unfold vdi_read.
    apply (walk_fuel (v_bs v) (vdi_lookup v) (vdi_emit v) Hbs vdi_lookup_not_fuel vdi_emit_not_fuel); lia.
  Qed.

  (* the map covers the disk *)
  Definition vdi_wf : Prop :=
    0 <= v_size v /\ forall i, 0 <= i -> i * v_bs v < v_size v -> exists e, v_map v i = Some e.

  (* stream back-end contract: any request starting inside the disk succeeds, and
     yields exactly the guest bytes of [off, min(off+len, size)) *)
  Theorem vdi_read_correct off len :
    vdi_wf -> 0 <= off < v_size v -> 0 < len ->
    exists p, vdi_read v (vdi_fuel len) off len = Ok p /\
      srcs_of p = map (vdi_src v) (zseq off (Z.min len (v_size v - off))).
  Proof.
    intros [Hsz Hcov] Hoff Hlen.
    assert (Hc : covers (v_bs v) (vdi_lookup v) (vdi_emit v) (v_size v)).
    { intros i Hi Hlt. destruct (Hcov i Hi Hlt) as [e He]. exists e. split.
      - unfold vdi_lookup. now rewrite He.
      - intros io n _ _ _. eexists. reflexivity. }
    destruct (walk_ok (v_bs v) (vdi_lookup v) (vdi_emit v) Hbs (vdi_fuel len) off
                (Z.min len (v_size v - off)) (v_size v) Hc ltac:(lia) ltac:(lia)
                ltac:(unfold vdi_fuel; lia)) as [p Hp].
    exists p. split; [exact Hp|]. apply (vdi_read_sound (vdi_fuel len) off len p); [lia|exact Hp].
  Qed.
End V.

(* non-vacuity: five blocks stored in the order [2, unallocated, 0, zero, 1] *)
Definition ex_vdi : vdi :=
  {| v_size := 5 * 4096 - 100; v_bs := 4096; v_data := 8192;
     v_map := tbl [(0, 2); (2, 0); (3, -2); (4, 1)] (-1) 5; v_parent := false |}.

Example ex_vdi_wf : vdi_wf ex_vdi.
Proof.
  split; [vm_compute; discriminate|]. intros i Hi Hlt.
  change (v_bs ex_vdi) with 4096 in Hlt. change (v_size ex_vdi) with 20380 in Hlt.
  assert (Hc : i = 0 \/ i = 1 \/ i = 2 \/ i = 3 \/ i = 4) by lia.
  destruct Hc as [-> | [-> | [-> | [-> | ->]]]]; eexists; reflexivity.
Qed.

Example ex_vdi_read :
  vdi_read ex_vdi 100%nat 4000 30000 =
  Ok [SFile (8192 + 2 * 4096 + 4000) 96; SZero 4096; SFile 8192 4096; SZero 4096; SFile (8192 + 4096) 3996].
Proof. vm_compute. reflexivity. Qed.
