(* Proofs/XmlDesc.v — the XML configuration formats: the model (ElementPath
   evaluation of the generated paths + the disks() bodies) refines the
   specification, over arbitrary element trees. *)
From Coq Require Import ZArith List Bool Lia.
Import ListNotations.
Open Scope Z_scope.
From DH Require Import Base.Plan Model.Text Model.XmlTree Gen.DescTables Model.XmlDesc Proofs.Text.

(* ---------- the generated paths / names are the ones the specification is written for ---------- *)
Lemma pin_ovf_file_xpath : ovf_file_xpath = [SChild (ovf_n n_References); SChild (ovf_n n_File)].
Proof. reflexivity. Qed.
Lemma pin_ovf_disk_xpath : ovf_disk_xpath = [SChild (ovf_n n_DiskSection); SChild (ovf_n n_Disk)].
Proof. reflexivity. Qed.
Lemma pin_ovf_drive_xpath :
  ovf_drive_xpath = [SChild (ovf_n n_VirtualSystem); SChild (ovf_n n_VirtualHardwareSection);
                     SChild (ovf_n n_Item); PKidText (rasd_n n_ResourceType) s_17].
Proof. reflexivity. Qed.
Lemma pin_ovf_attrs :
  ovf_attr_id = ovf_n n_id /\ ovf_attr_href = ovf_n n_href /\ ovf_attr_diskid = ovf_n n_diskId /\
  ovf_attr_fileref = ovf_n n_fileRef /\ ovf_tag_hostresource = rasd_n n_HostResource.
Proof. repeat split; reflexivity. Qed.
Lemma pin_ovf_prefixes :
  ovf_res_prefix = s_ovf_colon /\ ovf_disk_prefix = s_slash_disk /\ ovf_file_prefix = s_slash_file /\ ovf_ref_sep = 47.
Proof. repeat split; reflexivity. Qed.
Lemma pin_vbox_xpath :
  vbox_disk_xpath = [SSelf; SDesc (s_vbox_ns ++ n_HardDisk); PAttr n_location; PAttrEq n_type s_Normal].
Proof. reflexivity. Qed.
Lemma pin_vbox_names : vbox_attr_format = n_format /\ vbox_format_accepted = s_vdi /\ vbox_attr_location = n_location.
Proof. repeat split; reflexivity. Qed.
Lemma pin_pvs : pvs_hdd_xpath = [SSelf; SDesc n_Hdd] /\ pvs_tag_systemname = n_SystemName.
Proof. split; reflexivity. Qed.

(* ---------- induction over element trees ---------- *)
Fixpoint elem_ind' (P : elem -> Prop)
  (H : forall t a tx tl ks, Forall P ks -> P (Elem t a tx tl ks)) (e : elem) : P e :=
  match e with
  | Elem t a tx tl ks =>
      H t a tx tl ks ((fix go (l : list elem) : Forall P l :=
                         match l with
                         | [] => Forall_nil P
                         | k :: r => Forall_cons k (elem_ind' P H k) (go r)
                         end) ks)
  end.

Lemma iter_all_cons e : iter_all e = e :: descendants e.
Proof. destruct e; reflexivity. Qed.

(* a document-order traversal written as structural recursion is a flat_map over the descendants *)
Lemma under_descendants {A} (one under : elem -> list A) :
  (forall t a tx tl ks, under (Elem t a tx tl ks) = flat_map (fun k => one k ++ under k) ks) ->
  forall e, under e = flat_map one (descendants e).
Proof.
  intros Hu. apply elem_ind'. intros t a tx tl ks IH. rewrite Hu. unfold descendants. simpl.
  induction ks as [|k r IHr]; simpl; [reflexivity|].
  inversion IH as [|? ? Hk Hr]; subst.
  rewrite flat_map_app, iter_all_cons. simpl. rewrite <- Hk. f_equal. now apply IHr.
Qed.

Lemma flat_map_filter {A B} (f : A -> list B) p l :
  flat_map f (filter p l) = flat_map (fun x => if p x then f x else []) l.
Proof.
  induction l as [|x l IH]; simpl; [reflexivity|]. destruct (p x); simpl; now rewrite IH.
Qed.

Lemma find_filter {A} (p : A -> bool) l :
  find p l = match filter p l with x :: _ => Some x | [] => None end.
Proof. induction l as [|x l IH]; simpl; [reflexivity|]. destruct (p x); [reflexivity|exact IH]. Qed.

Lemma flat_map_ext_in {A B} (f g : A -> list B) l :
  (forall x, In x l -> f x = g x) -> flat_map f l = flat_map g l.
Proof.
  induction l as [|x l IH]; intros H; simpl; [reflexivity|].
  rewrite (H x) by now left. f_equal. apply IH. intros y Hy. apply H. now right.
Qed.

Lemma desc_path t root : eval_path [SSelf; SDesc t] root = filter (tag_is t) (descendants root).
Proof. unfold eval_path. simpl. apply app_nil_r. Qed.

(* ---------- Parallels PVS ---------- *)
Lemma pvs_one_spec e : (if tag_is n_Hdd e then pvs_one e else []) = spec_pvs_one e.
Proof.
  unfold spec_pvs_one, pvs_one, find_child, kids_named. destruct pin_pvs as [_ ->].
  destruct (tag_is n_Hdd e); [|reflexivity].
  rewrite find_filter. destruct (filter (tag_is n_SystemName) (e_kids e)); reflexivity.
Qed.

Theorem pvs_model_is_traversal root : pvs_disks root = spec_pvs_under root.
Proof.
  unfold pvs_disks. destruct pin_pvs as [-> _]. rewrite desc_path, flat_map_filter.
  rewrite (under_descendants spec_pvs_one spec_pvs_under) by reflexivity.
  apply flat_map_ext_in. intros e _. apply pvs_one_spec.
Qed.

Lemma somes_all_some {A} (l : list (option A)) :
  forallb (fun o => match o with Some _ => true | None => false end) l = true -> map Some (somes l) = l.
Proof.
  induction l as [|[a|] l IH]; simpl; intros H; [reflexivity| |discriminate].
  f_equal. now apply IH.
Qed.

Theorem pvs_disks_correct root :
  wf_pvs root = true -> pvs_disks root = map Some (spec_pvs_disks root).
Proof.
  intros H. rewrite pvs_model_is_traversal. unfold spec_pvs_disks. symmetry. apply somes_all_some.
  unfold wf_pvs in H. rewrite forallb_forall in *. intros o Ho. specialize (H o Ho).
  destruct o as [[|]|]; congruence.
Qed.

(* ---------- VirtualBox ---------- *)
Lemma concat_res_ok {A B} (f : A -> res (list B)) (g : A -> list B) l :
  (forall x, In x l -> f x = Ok (g x)) -> concat_res (map f l) = Ok (flat_map g l).
Proof.
  induction l as [|x l IH]; intros H; simpl; [reflexivity|].
  rewrite (H x) by now left. simpl. rewrite IH; [reflexivity|]. intros y Hy. apply H. now right.
Qed.

Definition vbox_pick (e : elem) : list str :=
  match attr_get n_format e with
  | Some f => if nonempty f && str_eqb (lower f) s_vdi
              then match attr_get n_location e with Some l => [l] | None => [] end else []
  | None => []
  end.

Lemma vbox_one_pick e : attr_get n_location e <> None -> vbox_one e = Ok (vbox_pick e).
Proof.
  intros H. unfold vbox_one, vbox_pick. destruct pin_vbox_names as (-> & -> & ->).
  destruct (attr_get n_format e) as [f|]; [|reflexivity].
  destruct (nonempty f && str_eqb (lower f) s_vdi); [|reflexivity].
  destruct (attr_get n_location e); [reflexivity|contradiction].
Qed.

Definition vbox_sel (e : elem) : bool :=
  tag_is (s_vbox_ns ++ n_HardDisk) e
  && match attr_get n_location e with Some _ => true | None => false end
  && match attr_get n_type e with Some x => str_eqb x s_Normal | None => false end.

Lemma filter_and {A} (p q : A -> bool) l : filter q (filter p l) = filter (fun x => p x && q x) l.
Proof.
  induction l as [|x l IH]; [reflexivity|]. cbn [filter]. destruct (p x); cbn [filter andb].
  - destruct (q x); now rewrite IH.
  - exact IH.
Qed.

Lemma vbox_path root : eval_path vbox_disk_xpath root = filter vbox_sel (descendants root).
Proof.
  rewrite pin_vbox_xpath. unfold eval_path. cbn [fold_left eval_step flat_map]. rewrite app_nil_r.
  rewrite !filter_and. apply filter_ext. intros e. unfold vbox_sel. now rewrite andb_assoc.
Qed.

Lemma vbox_pick_spec e : (if vbox_sel e then vbox_pick e else []) = spec_vbox_one e.
Proof.
  unfold vbox_sel, vbox_pick, spec_vbox_one.
  destruct (tag_is (s_vbox_ns ++ n_HardDisk) e); simpl; [|reflexivity].
  destruct (attr_get n_location e) as [l|]; simpl; [|reflexivity].
  destruct (attr_get n_type e) as [t|]; simpl; [|reflexivity].
  destruct (attr_get n_format e) as [f|]; simpl; [|now destruct (str_eqb t s_Normal)].
  destruct (str_eqb t s_Normal); simpl; [|reflexivity].
  destruct f as [|c f]; reflexivity.
Qed.

Theorem vbox_disks_correct root : vbox_disks root = Ok (spec_vbox_disks root).
Proof.
  unfold vbox_disks, spec_vbox_disks. rewrite vbox_path.
  rewrite (concat_res_ok vbox_one vbox_pick).
  - f_equal. rewrite flat_map_filter.
    rewrite (under_descendants spec_vbox_one spec_vbox_under) by reflexivity.
    apply flat_map_ext_in. intros e _. apply vbox_pick_spec.
  - intros e He. apply filter_In in He as [_ He]. apply vbox_one_pick.
    unfold vbox_sel in He. destruct (attr_get n_location e); [discriminate|].
    rewrite andb_false_r in He. discriminate.
Qed.
