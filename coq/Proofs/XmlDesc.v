(* Proofs/XmlDesc.v — the XML configuration formats: the model (ElementPath
   evaluation of the generated paths + the disks() bodies) refines the
   specification, over arbitrary element trees. *)
From Coq Require Import ZArith List Bool Lia.
Import ListNotations.
Open Scope Z_scope.
From DH Require Import Base.Plan Model.Text Model.XmlTree Gen.DescTables Model.XmlDesc Proofs.Text.

(* ---------- the generated paths / names are the ones the specification is written for ---------- *)
Lemma pin_ovf_file_xpath : ovf_file_xpath = [SChild (ovf_n n_References); SChild (ovf_n n_File)].
Proof. reflexivity. Qed.
Lemma pin_ovf_disk_xpath : ovf_disk_xpath = [SChild (ovf_n n_DiskSection); SChild (ovf_n n_Disk)].
Proof. reflexivity. Qed.
Lemma pin_ovf_drive_xpath :
  ovf_drive_xpath = [SChild (ovf_n n_VirtualSystem); SChild (ovf_n n_VirtualHardwareSection);
                     SChild (ovf_n n_Item); PKidText (rasd_n n_ResourceType) s_17].
Proof. reflexivity. Qed.
Lemma pin_ovf_attrs :
  ovf_attr_id = ovf_n n_id /\ ovf_attr_href = ovf_n n_href /\ ovf_attr_diskid = ovf_n n_diskId /\
  ovf_attr_fileref = ovf_n n_fileRef /\ ovf_tag_hostresource = rasd_n n_HostResource.
Proof. repeat split; reflexivity. Qed.
Lemma pin_ovf_prefixes :
  ovf_res_prefix = s_ovf_colon /\ ovf_disk_prefix = s_slash_disk /\ ovf_file_prefix = s_slash_file /\ ovf_ref_sep = 47.
Proof. repeat split; reflexivity. Qed.
Lemma pin_vbox_xpath :
  vbox_disk_xpath = [SSelf; SDesc (s_vbox_ns ++ n_HardDisk); PAttr n_location; PAttrEq n_type s_Normal].
Proof. reflexivity. Qed.
Lemma pin_vbox_names : vbox_attr_format = n_format /\ vbox_format_accepted = s_vdi /\ vbox_attr_location = n_location.
Proof. repeat split; reflexivity. Qed.
Lemma pin_pvs : pvs_hdd_xpath = [SSelf; SDesc n_Hdd] /\ pvs_tag_systemname = n_SystemName.
Proof. split; reflexivity. Qed.

(* ---------- induction over element trees ---------- *)
Fixpoint elem_ind' (P : elem -> Prop)
  (H : forall t a tx tl ks, Forall P ks -> P (Elem t a tx tl ks)) (e : elem) : P e :=
  match e with
  | Elem t a tx tl ks =>
      H t a tx tl ks ((fix go (l : list elem) : Forall P l :=
                         match l with
                         | [] => Forall_nil P
                         | k :: r => Forall_cons k (elem_ind' P H k) (go r)
                         end) ks)
  end.

Lemma iter_all_cons e : iter_all e = e :: descendants e.
Proof. destruct e; reflexivity. Qed.

(* a document-order traversal written as structural recursion is a flat_map over the descendants *)
Lemma under_descendants {A} (one under : elem -> list A) :
  (forall t a tx tl ks, under (Elem t a tx tl ks) = flat_map (fun k => one k ++ under k) ks) ->
  forall e, under e = flat_map one (descendants e).
Proof.
  intros Hu. apply elem_ind'. intros t a tx tl ks IH. rewrite Hu. unfold descendants. simpl.
  induction ks as [|k r IHr]; simpl; [reflexivity|].
  inversion IH as [|? ? Hk Hr]; subst.
  rewrite flat_map_app, iter_all_cons. simpl. rewrite <- Hk. f_equal. now apply IHr.
Qed.

Lemma flat_map_filter {A B} (f : A -> list B) p l :
  flat_map f (filter p l) = flat_map (fun x => if p x then f x else []) l.
Proof.
  induction l as [|x l IH]; simpl; [reflexivity|]. destruct (p x); simpl; now rewrite IH.
Qed.

Lemma find_filter {A} (p : A -> bool) l :
  find p l = match filter p l with x :: _ => Some x | [] => None end.
Proof. induction l as [|x l IH]; simpl; [reflexivity|]. destruct (p x); [reflexivity|exact IH]. Qed.

Lemma flat_map_ext_in {A B} (f g : A -> list B) l :
  (forall x, In x l -> f x = g x) -> flat_map f l = flat_map g l.
Proof.
  induction l as [|x l IH]; intros H; simpl; [reflexivity|].
  rewrite (H x) by now left. f_equal. apply IH. intros y Hy. apply H. now right.
Qed.

Lemma desc_path t root : eval_path [SSelf; SDesc t] root = filter (tag_is t) (descendants root).
Proof. unfold eval_path. simpl. apply app_nil_r. Qed.

(* ---------- Parallels PVS ---------- *)
Lemma pvs_one_spec e : (if tag_is n_Hdd e then pvs_one e else []) = spec_pvs_one e.
Proof.
  unfold spec_pvs_one, pvs_one, find_child, kids_named. destruct pin_pvs as [_ ->].
  destruct (tag_is n_Hdd e); [|reflexivity].
  rewrite find_filter. destruct (filter (tag_is n_SystemName) (e_kids e)); reflexivity.
Qed.

Theorem pvs_model_is_traversal root : pvs_disks root = spec_pvs_under root.
Proof.
  unfold pvs_disks. destruct pin_pvs as [-> _]. rewrite desc_path, flat_map_filter.
  rewrite (under_descendants spec_pvs_one spec_pvs_under) by reflexivity.
  apply flat_map_ext_in. intros e _. apply pvs_one_spec.
Qed.

Lemma somes_all_some {A} (l : list (option A)) :
  forallb (fun o => match o with Some _ => true | None => false end) l = true -> map Some (somes l) = l.
Proof.
  induction l as [|[a|] l IH]; simpl; intros H; [reflexivity| |discriminate].
  f_equal. now apply IH.
Qed.

Theorem pvs_disks_correct root :
  wf_pvs root = true -> pvs_disks root = map Some (spec_pvs_disks root).
Proof.
  intros H. rewrite pvs_model_is_traversal. unfold spec_pvs_disks. symmetry. apply somes_all_some.
  unfold wf_pvs in H. rewrite forallb_forall in *. intros o Ho. specialize (H o Ho).
  destruct o as [[|]|]; congruence.
Qed.

(* ---------- VirtualBox ---------- *)
Lemma concat_res_ok {A B} (f : A -> res (list B)) (g : A -> list B) l :
  (forall x, In x l -> f x = Ok (g x)) -> concat_res (map f l) = Ok (flat_map g l).
Proof.
  induction l as [|x l IH]; intros H; simpl; [reflexivity|].
  rewrite (H x) by now left. simpl. rewrite IH; [reflexivity|]. intros y Hy. apply H. now right.
Qed.

Definition vbox_pick (e : elem) : list str :=
  match attr_get n_format e with
  | Some f => if nonempty f && str_eqb (lower f) s_vdi
              then match attr_get n_location e with Some l => [l] | None => [] end else []
  | None => []
  end.

Lemma vbox_one_pick e : attr_get n_location e <> None -> vbox_one e = Ok (vbox_pick e).
Proof.
  intros H. unfold vbox_one, vbox_pick. destruct pin_vbox_names as (-> & -> & ->).
  destruct (attr_get n_format e) as [f|]; [|reflexivity].
  destruct (nonempty f && str_eqb (lower f) s_vdi); [|reflexivity].
  destruct (attr_get n_location e); [reflexivity|contradiction].
Qed.

Definition vbox_sel (e : elem) : bool :=
  tag_is (s_vbox_ns ++ n_HardDisk) e
  && match attr_get n_location e with Some _ => true | None => false end
  && match attr_get n_type e with Some x => str_eqb x s_Normal | None => false end.

Lemma filter_and {A} (p q : A -> bool) l : filter q (filter p l) = filter (fun x => p x && q x) l.
Proof.
  induction l as [|x l IH]; [reflexivity|]. cbn [filter]. destruct (p x); cbn [filter andb].
  - destruct (q x); now rewrite IH.
  - exact IH.
Qed.

Lemma vbox_path root : eval_path vbox_disk_xpath root = filter vbox_sel (descendants root).
Proof.
  rewrite pin_vbox_xpath. unfold eval_path. cbn [fold_left eval_step flat_map]. rewrite app_nil_r.
  rewrite !filter_and. apply filter_ext. intros e. unfold vbox_sel. now rewrite andb_assoc.
Qed.

Lemma vbox_pick_spec e : (if vbox_sel e then vbox_pick e else []) = spec_vbox_one e.
Proof.
  unfold vbox_sel, vbox_pick, spec_vbox_one.
  destruct (tag_is (s_vbox_ns ++ n_HardDisk) e); simpl; [|reflexivity].
  destruct (attr_get n_location e) as [l|]; simpl; [|reflexivity].
  destruct (attr_get n_type e) as [t|]; simpl; [|reflexivity].
  destruct (attr_get n_format e) as [f|]; simpl; [|now destruct (str_eqb t s_Normal)].
  destruct (str_eqb t s_Normal); simpl; [|reflexivity].
  destruct f as [|c f]; reflexivity.
Qed.

Theorem vbox_disks_correct root : vbox_disks root = Ok (spec_vbox_disks root).
Proof.
  unfold vbox_disks, spec_vbox_disks. rewrite vbox_path.
  rewrite (concat_res_ok vbox_one vbox_pick).
  - f_equal. rewrite flat_map_filter.
    rewrite (under_descendants spec_vbox_one spec_vbox_under) by reflexivity.
    apply flat_map_ext_in. intros e _. apply vbox_pick_spec.
  - intros e He. apply filter_In in He as [_ He]. apply vbox_one_pick.
    unfold vbox_sel in He. destruct (attr_get n_location e); [discriminate|].
    rewrite andb_false_r in He. discriminate.
Qed.

(* ====================================================================== *)
(* OVF *)

Lemma okey_eqb_eq a b : okey_eqb a b = true <-> a = b.
Proof.
  destruct a as [x|], b as [y|]; simpl; split; intros H; try discriminate; try reflexivity.
  - apply str_eqb_eq in H. now subst.
  - injection H as ->. apply str_eqb_refl.
Qed.

Lemma okey_eqb_refl a : okey_eqb a a = true.
Proof. now apply okey_eqb_eq. Qed.

Lemma okey_eqb_neq a b : a <> b -> okey_eqb a b = false.
Proof. intros H. destruct (okey_eqb a b) eqn:E; [|reflexivity]. apply okey_eqb_eq in E. contradiction. Qed.

Lemma assoc_o_oget {V} k (l : odict V) : assoc_o k l = oget k l.
Proof. induction l as [|[k' v] l IH]; simpl; [reflexivity|]. now rewrite IH. Qed.

Lemma oget_oset_same {V} k (v : V) d : oget k (oset k v d) = Some v.
Proof.
  induction d as [|[k' v'] d IH]; simpl.
  - now rewrite okey_eqb_refl.
  - destruct (okey_eqb k k') eqn:E; simpl; rewrite E; [reflexivity|exact IH].
Qed.

Lemma oget_oset_other {V} k k' (v : V) d : k <> k' -> oget k' (oset k v d) = oget k' d.
Proof.
  intros Hne. induction d as [|[k2 v2] d IH]; simpl.
  - rewrite okey_eqb_neq by congruence. reflexivity.
  - destruct (okey_eqb k k2) eqn:E; simpl.
    + apply okey_eqb_eq in E. subst k2. rewrite okey_eqb_neq by congruence. reflexivity.
    + destruct (okey_eqb k' k2); [reflexivity|exact IH].
Qed.

Definition oset_kv {V} (d : odict V) (kv : okey * V) : odict V := oset (fst kv) (snd kv) d.

Lemma oget_None_notin {V} k (l : odict V) :
  negb (existsb (fun kv => okey_eqb k (fst kv)) l) = true -> oget k l = None.
Proof.
  induction l as [|[k' v] l IH]; simpl; [reflexivity|].
  intros H. apply negb_true_iff in H. apply orb_false_iff in H as [H1 H2].
  rewrite H1. apply IH. now apply negb_true_iff.
Qed.

(* with unique keys the dictionary built by successive assignments is the association list *)
Lemma fold_oset_nodup {V} (l : list (okey * V)) d k :
  nodup_okeys l = true ->
  oget k (fold_left oset_kv l d) = match oget k l with Some v => Some v | None => oget k d end.
Proof.
  revert d; induction l as [|[k0 v0] l IH]; intros d H; simpl; [reflexivity|].
  apply andb_true_iff in H as [H1 H2]. rewrite IH by assumption.
  destruct (okey_eqb k k0) eqn:E.
  - apply okey_eqb_eq in E. subst k0. rewrite (oget_None_notin k l H1).
    unfold oset_kv; simpl. apply oget_oset_same.
  - destruct (oget k l); [reflexivity|]. unfold oset_kv; simpl. apply oget_oset_other.
    intros ->. now rewrite okey_eqb_refl in E.
Qed.

Lemma fold_left_map {A B C} (f : A -> C -> A) (g : B -> C) l a :
  fold_left (fun a x => f a (g x)) l a = fold_left f (map g l) a.
Proof. revert a; induction l as [|x l IH]; intros a; simpl; [reflexivity|apply IH]. Qed.

Lemma map_flat_map {A B C} (f : B -> C) (g : A -> list B) l :
  map f (flat_map g l) = flat_map (fun x => map f (g x)) l.
Proof. induction l as [|x l IH]; simpl; [reflexivity|]. now rewrite map_app, IH. Qed.

Lemma filter_flat_map {A B} (p : B -> bool) (g : A -> list B) l :
  filter p (flat_map g l) = flat_map (fun x => filter p (g x)) l.
Proof. induction l as [|x l IH]; simpl; [reflexivity|]. now rewrite filter_app, IH. Qed.

Lemma existsb_filter {A} (p f : A -> bool) l :
  existsb f (filter p l) = existsb (fun x => p x && f x) l.
Proof.
  induction l as [|x l IH]; simpl; [reflexivity|]. destruct (p x); simpl; now rewrite IH.
Qed.

Lemma child2_path a b root :
  eval_path [SChild a; SChild b] root = flat_map (kids_named b) (kids_named a root).
Proof. unfold eval_path. cbn [fold_left eval_step flat_map]. now rewrite app_nil_r. Qed.

Lemma flat_map_flat_map {A B C} (f : B -> list C) (g : A -> list B) l :
  flat_map f (flat_map g l) = flat_map (fun x => flat_map f (g x)) l.
Proof. induction l as [|x l IH]; simpl; [reflexivity|]. now rewrite flat_map_app, IH. Qed.

Lemma drive_path root : eval_path ovf_drive_xpath root = spec_drives root.
Proof.
  rewrite pin_ovf_drive_xpath. unfold eval_path, spec_drives. cbn [fold_left eval_step flat_map].
  rewrite app_nil_r. rewrite filter_flat_map, flat_map_flat_map.
  apply flat_map_ext_in. intros vs _.
  apply flat_map_ext_in. intros hw _. apply filter_ext. intros item.
  unfold is_disk_drive, kids_named. now rewrite existsb_filter.
Qed.

Definition file_pair (f : elem) : okey * option str := (attr_get (ovf_n n_id) f, attr_get (ovf_n n_href) f).
Definition decl_pair (d : elem) : okey * option str := (attr_get (ovf_n n_diskId) d, attr_get (ovf_n n_fileRef) d).

Lemma spec_files_map root :
  spec_files root = map file_pair (eval_path ovf_file_xpath root).
Proof. rewrite pin_ovf_file_xpath, child2_path, map_flat_map. reflexivity. Qed.

Lemma spec_decls_map root :
  spec_disk_decls root = map decl_pair (eval_path ovf_disk_xpath root).
Proof. rewrite pin_ovf_disk_xpath, child2_path, map_flat_map. reflexivity. Qed.

Lemma ovf_references_spec root : ovf_references root = fold_left oset_kv (spec_files root) [].
Proof.
  unfold ovf_references. destruct pin_ovf_attrs as (-> & -> & _).
  rewrite spec_files_map. rewrite <- (fold_left_map oset_kv file_pair). reflexivity.
Qed.

(* the backing file a Disk declaration resolves to (None: empty disk) *)
Definition resv (refs : odict (option str)) (fr : option str) : option str :=
  match fr with
  | None => None
  | Some r => match oget (Some r) refs with Some h => h | None => None end
  end.

Lemma ovf_disk_table_ok refs ds acc :
  (forall d r, In d ds -> attr_get (ovf_n n_fileRef) d = Some r -> oget (Some r) refs <> None) ->
  ovf_disk_table refs ds acc =
  Ok (fold_left oset_kv (map (fun d => (fst (decl_pair d), resv refs (snd (decl_pair d)))) ds) acc).
Proof.
  destruct pin_ovf_attrs as (_ & _ & Hd & Hf & _).
  revert acc; induction ds as [|d ds IH]; intros acc H; simpl; [reflexivity|].
  rewrite Hd, Hf. unfold decl_pair. cbn [fst snd].
  destruct (attr_get (ovf_n n_fileRef) d) as [r|] eqn:E.
  - destruct (oget (Some r) refs) as [h|] eqn:G.
    + rewrite IH by (intros d' r' Hin; apply H; now right).
      unfold resv. rewrite G. reflexivity.
    + exfalso. apply (H d r); [now left|assumption|assumption].
  - rewrite IH by (intros d' r' Hin; apply H; now right). reflexivity.
Qed.

Lemma existsb_key_map {V W} (g : V -> W) k (l : list (okey * V)) :
  existsb (fun kv => okey_eqb k (fst kv)) (map (fun kv => (fst kv, g (snd kv))) l) =
  existsb (fun kv => okey_eqb k (fst kv)) l.
Proof. induction l as [|[k' v'] l IHl]; simpl; [reflexivity|]. now rewrite IHl. Qed.

Lemma nodup_okeys_map {V W} (g : V -> W) (l : list (okey * V)) :
  nodup_okeys (map (fun kv => (fst kv, g (snd kv))) l) = nodup_okeys l.
Proof.
  induction l as [|[k v] l IH]; simpl; [reflexivity|]. now rewrite IH, existsb_key_map.
Qed.

Lemma oget_map {V W} (g : V -> W) k (l : list (okey * V)) :
  oget k (map (fun kv => (fst kv, g (snd kv))) l) = option_map g (oget k l).
Proof.
  induction l as [|[k' v] l IH]; simpl; [reflexivity|]. destruct (okey_eqb k k'); [reflexivity|exact IH].
Qed.

Lemma oget_in_keys {V} k (v : V) l : oget k l = Some v -> In (k, v) l.
Proof.
  induction l as [|[k' v'] l IH]; simpl; [discriminate|].
  destruct (okey_eqb k k') eqn:E.
  - apply okey_eqb_eq in E. subst. intros [= ->]. now left.
  - intros H. right. now apply IH.
Qed.

(* s.split("/")[-1] *)
Lemma last_piece_nosep sep s : ~ In sep s -> last_piece sep s = s.
Proof. intros H. unfold last_piece. now rewrite split_on_nosep. Qed.

Lemma split_on_nonempty sep s : split_on sep s <> [].
Proof.
  induction s as [|c s IH]; simpl; [discriminate|].
  destruct (c =? sep); [discriminate|]. destruct (split_on sep s); discriminate.
Qed.

Lemma last_piece_app sep a b : ~ In sep a -> last_piece sep (a ++ sep :: b) = last_piece sep b.
Proof.
  intros H. unfold last_piece. rewrite split_on_app by assumption.
  pose proof (split_on_nonempty sep b) as Hne. destruct (split_on sep b) as [|x l]; [contradiction|reflexivity].
Qed.

Lemma last_piece_disk id : ~ In 47 id -> last_piece 47 (s_slash_disk ++ id) = id.
Proof.
  intros H. change (s_slash_disk ++ id) with ([] ++ 47 :: ([100; 105; 115; 107] ++ 47 :: id)).
  rewrite last_piece_app by (simpl; tauto).
  rewrite last_piece_app by (simpl; intros [E|[E|[E|[E|[]]]]]; discriminate).
  now apply last_piece_nosep.
Qed.

Lemma last_piece_file id : ~ In 47 id -> last_piece 47 (s_slash_file ++ id) = id.
Proof.
  intros H. change (s_slash_file ++ id) with ([] ++ 47 :: ([102; 105; 108; 101] ++ 47 :: id)).
  rewrite last_piece_app by (simpl; tauto).
  rewrite last_piece_app by (simpl; intros [E|[E|[E|[E|[]]]]]; discriminate).
  now apply last_piece_nosep.
Qed.

Lemma slash_free_some id : slash_free (Some id) = true -> ~ In 47 id.
Proof. simpl. intros H Hin. apply memz_In in Hin. rewrite Hin in H. discriminate. Qed.

Lemma parse_hostref_alt x0 :
  parse_hostref x0 =
  let x := removeprefix s_ovf_colon x0 in
  if startswith s_slash_disk x then HDisk (skipn 6 x)
  else if startswith s_slash_file x then HFile (skipn 6 x) else HBad.
Proof. reflexivity. Qed.

Section OvfWf.
  Variable root : elem.
  Let files := spec_files root.
  Let decls := spec_disk_decls root.
  Hypothesis Hnf : nodup_okeys files = true.
  Hypothesis Hnd : nodup_okeys decls = true.
  Hypothesis Hfiles : forall kv, In kv files -> slash_free (fst kv) = true /\ is_some (snd kv) = true.
  Hypothesis Hdecls : forall kv, In kv decls -> slash_free (fst kv) = true /\
                        match snd kv with None => True | Some fr => is_some (assoc_o (Some fr) files) = true end.

  Let refs := ovf_references root.
  Let disks := fold_left oset_kv (map (fun kv => (fst kv, resv refs (snd kv))) decls) [].

  Lemma refs_lookup k : oget k refs = assoc_o k files.
  Proof.
    unfold refs. rewrite ovf_references_spec. rewrite fold_oset_nodup by exact Hnf.
    fold files. change (assoc_o k files) with (oget k files). destruct (oget k files); reflexivity.
  Qed.

  Lemma disks_lookup k : oget k disks = option_map (resv refs) (assoc_o k decls).
  Proof.
    unfold disks. rewrite fold_oset_nodup by (rewrite nodup_okeys_map; exact Hnd).
    rewrite oget_map. change (assoc_o k decls) with (oget k decls). destruct (oget k decls); reflexivity.
  Qed.

  Lemma disk_table_built : ovf_disk_table refs (eval_path ovf_disk_xpath root) [] = Ok disks.
  Proof.
    rewrite ovf_disk_table_ok.
    - unfold disks, decls. rewrite spec_decls_map, map_map. reflexivity.
    - intros d r Hin E. rewrite refs_lookup.
      assert (Hkv : In (decl_pair d) decls) by (unfold decls; rewrite spec_decls_map; now apply in_map).
      destruct (Hdecls _ Hkv) as [_ H]. unfold decl_pair in H. simpl in H. rewrite E in H.
      destruct (assoc_o (Some r) files); [discriminate|discriminate].
  Qed.

  Lemma ovf_item_spec item l :
    spec_drive_file root item = Some l -> ovf_item refs disks item = Ok (map Some l).
  Proof.
    unfold spec_drive_file, ovf_item, host_resource, find_child, kids_named.
    destruct pin_ovf_attrs as (_ & _ & _ & _ & ->). destruct pin_ovf_prefixes as (-> & -> & -> & ->).
    rewrite find_filter.
    destruct (filter (tag_is (rasd_n n_HostResource)) (e_kids item)) as [|r rest]; [discriminate|].
    destruct (e_text r) as [x0|]; [|discriminate].
    rewrite parse_hostref_alt. cbv zeta.
    set (x := removeprefix s_ovf_colon x0).
    destruct (startswith s_slash_disk x) eqn:Ed.
    - apply startswith_inv in Ed. change (length s_slash_disk) with 6%nat in Ed.
      set (id := skipn 6 x) in *. fold files decls.
      destruct (assoc_o _ decls) as [fro|] eqn:Ea; [|intros Hx; discriminate Hx].
      assert (Hsf : ~ In 47 id).
      { pose proof (oget_in_keys _ _ _ Ea) as Ein. destruct (Hdecls _ Ein) as [H _].
        now apply slash_free_some. }
      rewrite Ed, last_piece_disk by assumption. rewrite disks_lookup, Ea. simpl.
      destruct fro as [fr|].
      + simpl. rewrite refs_lookup.
        destruct (assoc_o (Some fr) files) as [[h|]|]; try (intros Hx; discriminate Hx). intros [= <-]. reflexivity.
      + intros [= <-]. reflexivity.
    - destruct (startswith s_slash_file x) eqn:Ef; [|intros Hx; discriminate Hx].
      apply startswith_inv in Ef. change (length s_slash_file) with 6%nat in Ef.
      set (id := skipn 6 x) in *. fold files.
      destruct (assoc_o _ files) as [[h|]|] eqn:Ea; try (intros Hx; discriminate Hx).
      assert (Hsf : ~ In 47 id).
      { pose proof (oget_in_keys _ _ _ Ea) as Ein. destruct (Hfiles _ Ein) as [H _].
        now apply slash_free_some. }
      intros [= <-]. rewrite Ef, last_piece_file by assumption. rewrite refs_lookup, Ea. reflexivity.
  Qed.

  Lemma ovf_items_spec items :
    (forall i, In i items -> is_some (spec_drive_file root i) = true) ->
    ovf_items refs disks items =
    Ok (map Some (flat_map (fun i => match spec_drive_file root i with Some l => l | None => [] end) items)).
  Proof.
    induction items as [|i r IH]; intros H; simpl; [reflexivity|].
    destruct (spec_drive_file root i) as [l|] eqn:E.
    - rewrite (ovf_item_spec i l E). simpl. rewrite IH by (intros j Hj; apply H; now right).
      simpl. now rewrite map_app.
    - specialize (H i (or_introl eq_refl)). rewrite E in H. discriminate.
  Qed.
End OvfWf.

Theorem ovf_disks_correct root :
  wf_ovf root = true -> ovf_disks root = Ok (map Some (spec_ovf_disks root)).
Proof.
  unfold wf_ovf. intros H.
  apply andb_true_iff in H as [H H5]. apply andb_true_iff in H as [H H4].
  apply andb_true_iff in H as [H H3]. apply andb_true_iff in H as [H1 H2].
  rewrite forallb_forall in H3, H4, H5.
  assert (Hfiles : forall kv, In kv (spec_files root) -> slash_free (fst kv) = true /\ is_some (snd kv) = true).
  { intros kv Hin. specialize (H3 kv Hin). now apply andb_true_iff in H3. }
  assert (Hdecls : forall kv, In kv (spec_disk_decls root) -> slash_free (fst kv) = true /\
             match snd kv with None => True | Some fr => is_some (assoc_o (Some fr) (spec_files root)) = true end).
  { intros kv Hin. specialize (H4 kv Hin). apply andb_true_iff in H4 as [Ha Hb]. split; [assumption|].
    destruct (snd kv); [assumption|exact I]. }
  unfold ovf_disks. rewrite (disk_table_built root H1 Hdecls). simpl.
  rewrite drive_path. rewrite (ovf_items_spec root H1 H2 Hfiles Hdecls) by exact H5. reflexivity.
Qed.
