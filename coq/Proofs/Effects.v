(* Proofs/Effects.v — the inventory theorems of C09, each closed by vm_compute over the regenerated lists. *)
From Coq Require Import String Ascii ZArith List Bool.
From DH Require Import Gen.Effects Model.Effects.
Import ListNotations.
Open Scope string_scope.

Lemma Forall_of_forallb {A} (f : A -> bool) (P : A -> Prop) l :
  (forall x, f x = true -> P x) -> forallb f l = true -> Forall P l.
Proof.
  intros Hf H. rewrite forallb_forall in H. apply Forall_forall. intros x Hx. apply Hf, H, Hx.
Qed.

Definition open_ok (o : open_site) : Prop :=
  forwards_callers_mode o = true \/
  exists m, o_mode o = MLit m /\ (mode_readonly m = true \/ cli_output_open o = true).

Lemma open_okb_ok o : open_okb o = true -> open_ok o.
Proof.
  unfold open_okb, open_ok, open_readonly. intros H.
  apply orb_true_iff in H as [H|H]; [apply orb_true_iff in H as [H|H]|].
  - left. exact H.
  - right. destruct (o_mode o) as [m| |]; try discriminate. exists m. split; [reflexivity|left; exact H].
  - right. apply andb_true_iff in H as [Hc Hm].
    destruct (o_mode o) as [m| |]; try discriminate. exists m. split; [reflexivity|right; exact Hc].
Qed.

Lemma opens_readonly : Forall open_ok opens.
Proof. apply (Forall_of_forallb open_okb); [exact open_okb_ok|vm_compute; reflexivity]. Qed.

(* the one site that opens for writing *)
Lemma single_writer :
  map (fun o => (o_module o, o_func o, o_target o))
      (filter (fun o => negb (forwards_callers_mode o || open_readonly o)) opens)
  = [(CLI_MODULE, CLI_FUNC, CLI_TARGET)].
Proof. vm_compute. reflexivity. Qed.

Lemma pass_through_only_vmtar :
  Forall (fun o => forwards_callers_mode o = true -> o_module o = "dissect/hypervisor/util/vmtar.py") opens.
Proof.
  apply (Forall_of_forallb (fun o => negb (forwards_callers_mode o) || String.eqb (o_module o) "dissect/hypervisor/util/vmtar.py")).
  - intros o H Hf. rewrite Hf in H. cbn in H. now apply String.eqb_eq.
  - vm_compute. reflexivity.
Qed.

Definition mut_ok (c : mut_call) : Prop :=
  m_recv c = PrivateBuffer \/ m_recv c = PureValue \/
  (m_recv c = CliOutput /\ m_module c = CLI_MODULE /\ m_func c = CLI_FUNC).

Lemma mut_okb_ok c : mut_okb c = true -> mut_ok c.
Proof.
  unfold mut_okb, mut_ok. destruct (m_recv c); intros H; auto; try discriminate.
  apply andb_true_iff in H as [H1 H2]. right; right. repeat split; now apply String.eqb_eq.
Qed.

Lemma mutators_private : Forall mut_ok mutator_calls.
Proof. apply (Forall_of_forallb mut_okb); [exact mut_okb_ok|vm_compute; reflexivity]. Qed.

Lemma cli_writes_once :
  map m_method (filter (fun c => recv_eqb (m_recv c) CliOutput) mutator_calls) = ["write"].
Proof. vm_compute. reflexivity. Qed.

Lemma no_fs_modules :
  Forall (fun i => let '(_, imp, _) := i in ~ In (root_of imp) fs_modules) runtime_imports.
Proof.
  apply (Forall_of_forallb import_okb).
  - intros [[m imp] n] H Hin. unfold import_okb in H. apply negb_true_iff in H.
    assert (existsb (String.eqb (root_of imp)) fs_modules = true) as E.
    { apply existsb_exists. exists (root_of imp). split; [exact Hin|apply String.eqb_refl]. }
    congruence.
  - vm_compute. reflexivity.
Qed.

Lemma os_only_getenv : Forall (fun u => snd u = "getenv") os_uses.
Proof.
  apply (Forall_of_forallb os_use_okb); [|vm_compute; reflexivity].
  intros u H. now apply String.eqb_eq.
Qed.

Lemma anchors_inventoried : Forall (fun a => In a modules) anchors.
Proof.
  apply (Forall_of_forallb (fun a => mem_str a modules)); [|vm_compute; reflexivity].
  intros a H. unfold mem_str in H. apply existsb_exists in H as (x & Hx & E).
  apply String.eqb_eq in E. now subst.
Qed.
