(* Proofs/Lru.v — memoising an immutable table is semantically invisible:
   for every capacity and every key history the cached call returns load k. *)
From Coq Require Import ZArith List Bool Lia.
From DH Require Import Model.Lru.
Import ListNotations.
Open Scope Z_scope.

Section L.
  Context {V : Type}.
  Variable cap : nat.
  Variable load : Z -> V.

  Definition coherent (c : cache) : Prop := forall k v, In (k, v) c -> v = load k.

  Lemma lookup_in k (c : @cache V) v : lookup k c = Some v -> In (k, v) c.
  Proof.
    induction c as [|[k' v'] r IH]; cbn; [discriminate|].
    destruct (Z.eqb_spec k' k) as [->|]; [intros [= ->]; now left|intros H; right; auto].
  Qed.

  Lemma remove_key_incl k (c : @cache V) x : In x (remove_key k c) -> In x c.
  Proof.
    induction c as [|[k' v'] r IH]; cbn; [auto|].
    destruct (k' =? k); [intros; now right|]. intros [H|H]; [now left|right; auto].
  Qed.

  Lemma firstn_incl {A} n (l : list A) x : In x (firstn n l) -> In x l.
  Proof.
    revert l; induction n as [|n IH]; intros [|a l]; cbn; try tauto.
    intros [H|H]; [now left|right; auto].
  Qed.

  Theorem lru_get_transparent c k :
    coherent c -> fst (lru_get cap load c k) = load k /\ coherent (snd (lru_get cap load c k)).
  Proof.
    intros Hc. unfold lru_get. destruct (lookup k c) as [v|] eqn:Hl; cbn [fst snd].
    - pose proof (Hc _ _ (lookup_in _ _ _ Hl)) as ->. split; [reflexivity|].
      intros k' v' [[= <- <-]|H]; [reflexivity|]. apply Hc. eapply remove_key_incl; eauto.
    - split; [reflexivity|]. intros k' v' H. apply firstn_incl in H.
      destruct H as [[= <- <-]|H]; [reflexivity|auto].
  Qed.

  Theorem lru_size_bounded c k : (length c <= cap)%nat -> (0 < cap)%nat ->
    (length (snd (lru_get cap load c k)) <= cap)%nat.
  Proof.
    intros Hlen Hcap. unfold lru_get. destruct (lookup k c) as [v|] eqn:Hl; cbn [snd].
    - clear Hcap. revert Hl Hlen. generalize cap as n.
      induction c as [|[k' v'] r IH]; intros n; cbn; [discriminate|].
      destruct (k' =? k); cbn; [lia|]. intros Hl Hlen. specialize (IH (n - 1)%nat Hl ltac:(lia)). cbn in IH. lia.
    - rewrite firstn_length. lia.
  Qed.

  (* every history of keys, every capacity: the results are exactly load applied to the keys *)
  Theorem lru_transparent ks : forall c, coherent c ->
    fst (lru_run cap load c ks) = map load ks /\ coherent (snd (lru_run cap load c ks)).
  Proof.
    induction ks as [|k r IH]; intros c Hc; cbn [lru_run map].
    - split; [reflexivity|exact Hc].
    - destruct (lru_get_transparent c k Hc) as [Hv Hc1].
      destruct (lru_get cap load c k) as [v c1]. cbn [fst snd] in *.
      destruct (IH c1 Hc1) as [Hvs Hc2].
      destruct (lru_run cap load c1 r) as [vs c2]. cbn [fst snd] in *.
      split; [now rewrite Hv, Hvs|exact Hc2].
  Qed.
End L.
