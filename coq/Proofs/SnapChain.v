(* Proofs/SnapChain.v — the snapshot chain walk terminates for every descriptor, cyclic or not. *)
From Coq Require Import ZArith List Bool Lia.
From DH Require Import Base.Plan Model.SnapChain.
Import ListNotations.
Open Scope Z_scope.

Lemma find_shot_some shots g g' p : find_shot shots g = Some (g', p) -> g' = g /\ In g (map fst shots).
Proof.
  induction shots as [|[a b] r IH]; cbn; [discriminate|].
  destruct (Z.eqb_spec a g) as [->|Hne].
  - intros [= <- <-]. split; [reflexivity|now left].
  - intros H. destruct (IH H) as [-> Hin]. split; [reflexivity|now right].
Qed.

Lemma existsb_eqb_false x l : existsb (Z.eqb x) l = false -> ~ In x l.
Proof.
  intros H Hin. assert (existsb (Z.eqb x) l = true); [|congruence].
  apply existsb_exists. exists x. split; [exact Hin|apply Z.eqb_refl].
Qed.

Lemma walk_chain_terminates shots : forall fuel parent chain,
  NoDup chain -> incl chain (map fst shots) ->
  (length shots < fuel + length chain)%nat ->
  walk_chain shots fuel parent chain <> Fuel.
Proof.
  induction fuel as [|fuel IH]; intros parent chain Hnd Hincl Hlen; cbn [walk_chain].
  - destruct (parent =? NULL_GUID); [discriminate|].
    exfalso. pose proof (NoDup_incl_length Hnd Hincl) as Hle. rewrite map_length in Hle. lia.
  - destruct (parent =? NULL_GUID); [discriminate|].
    destruct (existsb (Z.eqb parent) chain) eqn:Hex; [discriminate|].
    destruct (find_shot shots parent) as [[g p]|] eqn:Hf; [|discriminate].
    destruct (find_shot_some _ _ _ _ Hf) as [-> Hin].
    apply IH.
    + constructor; [now apply existsb_eqb_false|exact Hnd].
    + intros x [<-|Hx]; [exact Hin|now apply Hincl].
    + cbn [length]. lia.
Qed.

(* no descriptor — cyclic parent links included — makes the walk run forever *)
Theorem get_snapshot_chain_terminates shots guid : get_snapshot_chain shots guid <> Fuel.
Proof.
  unfold get_snapshot_chain. destruct (find_shot shots guid) as [[g p]|] eqn:Hf; [|discriminate].
  destruct (find_shot_some _ _ _ _ Hf) as [-> Hin].
  apply walk_chain_terminates.
  - constructor; [intros []|constructor].
  - intros x [<-|[]]. exact Hin.
  - simpl length. unfold shot in *. lia.
Qed.

(* and the chain it returns is bounded by the number of shots *)
Lemma walk_chain_length shots : forall fuel parent chain r,
  NoDup chain -> incl chain (map fst shots) ->
  walk_chain shots fuel parent chain = Ok r -> (length r <= length shots)%nat.
Proof.
  induction fuel as [|fuel IH]; intros parent chain r Hnd Hincl; cbn [walk_chain].
  - destruct (parent =? NULL_GUID); [|discriminate]. intros [= <-]. rewrite rev_length.
    pose proof (NoDup_incl_length Hnd Hincl) as Hle. now rewrite map_length in Hle.
  - destruct (parent =? NULL_GUID).
    { intros [= <-]. rewrite rev_length.
      pose proof (NoDup_incl_length Hnd Hincl) as Hle. now rewrite map_length in Hle. }
    destruct (existsb (Z.eqb parent) chain) eqn:Hex; [discriminate|].
    destruct (find_shot shots parent) as [[g p]|] eqn:Hf; [|discriminate].
    destruct (find_shot_some _ _ _ _ Hf) as [-> Hin]. apply IH.
    + constructor; [now apply existsb_eqb_false|exact Hnd].
    + intros x [<-|Hx]; [exact Hin|now apply Hincl].
Qed.

Theorem get_snapshot_chain_bounded shots guid r :
  get_snapshot_chain shots guid = Ok r -> (length r <= length shots)%nat.
Proof.
  unfold get_snapshot_chain. destruct (find_shot shots guid) as [[g p]|] eqn:Hf; [|discriminate].
  destruct (find_shot_some _ _ _ _ Hf) as [-> Hin]. apply walk_chain_length.
  - constructor; [intros []|constructor].
  - intros x [<-|[]]. exact Hin.
Qed.

Example cycle_is_refused : get_snapshot_chain [(1, 2); (2, 1)] 1 = Err.
Proof. reflexivity. Qed.
Example chain_of_three : get_snapshot_chain [(3, 2); (1, 0); (2, 1)] 3 = Ok [3; 2; 1].
Proof. reflexivity. Qed.
