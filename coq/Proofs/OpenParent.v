From Coq Require Import ZArith List Bool.
From DH Require Import Base.Plan Model.OpenParent.

Section O.
  Context {P : Type}.
  Variable fs : P -> bool.

  Theorem vhdx_parent_required rel abs :
    fs rel = false -> fs abs = false -> vhdx_open_parent fs true true rel abs = Err.
  Proof. intros H1 H2. unfold vhdx_open_parent. cbn. now rewrite H1, H2. Qed.

  Theorem vhdx_parent_unknown_locator rel abs : vhdx_open_parent fs true false rel abs = Err.
  Proof. reflexivity. Qed.

  Theorem vhdx_parent_choice rel abs r :
    vhdx_open_parent fs true true rel abs = Ok r ->
    (r = Some rel /\ fs rel = true) \/ (r = Some abs /\ fs rel = false /\ fs abs = true).
  Proof.
    unfold vhdx_open_parent. cbn. destruct (fs rel) eqn:E1; [intros [= <-]; now left|].
    destruct (fs abs) eqn:E2; [intros [= <-]; right; auto|discriminate].
  Qed.

  Theorem vhdx_no_parent_no_open rel abs l : vhdx_open_parent fs false l rel abs = Ok None.
  Proof. reflexivity. Qed.

  Theorem hdd_image_required ia p c1 c2 c3 rel :
    fs p = false -> fs c1 = false -> fs c2 = false -> fs c3 = false -> fs rel = false ->
    hdd_open_image fs ia p c1 c2 c3 rel = Err.
  Proof. intros H0 H1 H2 H3 H4. unfold hdd_open_image. rewrite H0, H1, H2, H3, H4. now destruct ia. Qed.

  Theorem hdd_image_first_existing p c1 c2 c3 rel r :
    hdd_open_image fs true p c1 c2 c3 rel = Ok r ->
    fs r = true /\ (r = p \/ (fs p = false /\ (r = c1 \/ (fs c1 = false /\ (r = c2 \/ (fs c2 = false /\ r = c3)))))).
  Proof.
    unfold hdd_open_image.
    destruct (fs p) eqn:E0; [intros [= <-]; auto|].
    destruct (fs c1) eqn:E1; [intros [= <-]; split; auto|].
    destruct (fs c2) eqn:E2; [intros [= <-]; split; auto 10|].
    destruct (fs c3) eqn:E3; [intros [= <-]; split; auto 10|discriminate].
  Qed.
  (* VMDK: the parent next to the child wins over the one the hint's directory names; none found is an error *)
  Theorem vmdk_parent_first_existing same up r :
    vmdk_open_parent fs true same up = Ok (Some r) ->
    fs r = true /\ (r = same \/ (fs same = false /\ r = up)).
  Proof.
    unfold vmdk_open_parent. cbn [negb].
    destruct (fs same) eqn:E0; [intros [= <-]; auto|].
    destruct (fs up) eqn:E1; [intros [= <-]; auto|discriminate].
  Qed.

  Theorem vmdk_parent_required same up :
    fs same = false -> fs up = false -> vmdk_open_parent fs true same up = Err.
  Proof. intros H1 H2. unfold vmdk_open_parent. cbn [negb]. now rewrite H1, H2. Qed.
End O.
