(* Proofs/Envelope.v — lemmas about Model/Envelope.v (property C16). *)
From Coq Require Import ZArith List Bool Lia String.
From DH Require Import Base.Plan Base.Table Base.Layout Model.Envelope.
From DH Require Gen.Consts Gen.Layouts Gen.Enums Gen.EnvelopeTables.
Import ListNotations.
Open Scope Z_scope.

(* ================================================================== lists of bytes *)
Lemma len_nonneg {A} (l : list A) : 0 <= len l.
Proof. unfold len. lia. Qed.

Lemma len_app {A} (a b : list A) : len (a ++ b) = len a + len b.
Proof. unfold len. rewrite app_length. lia. Qed.

Lemma len_cons {A} (x : A) l : len (x :: l) = 1 + len l.
Proof. unfold len. cbn [List.length]. lia. Qed.

Lemma len_nil {A} : len (@nil A) = 0.
Proof. reflexivity. Qed.

Lemma len_repz b n : 0 <= n -> len (repz b n) = n.
Proof. intros. unfold len, repz. rewrite repeat_length. lia. Qed.

Lemma len_le_bytes n v : len (le_bytes n v) = Z.of_nat n.
Proof. unfold len. now rewrite le_bytes_length. Qed.

Lemma takez_firstn l n : takez l n = firstn (Z.to_nat n) l.
Proof.
  revert n; induction l as [|x r IH]; intros n; cbn [takez].
  - now rewrite firstn_nil.
  - destruct (Z.leb_spec n 0) as [Hn|Hn].
    + replace (Z.to_nat n) with 0%nat by lia. reflexivity.
    + replace (Z.to_nat n) with (S (Z.to_nat (n - 1))) by lia. cbn [firstn]. now rewrite IH.
Qed.

Lemma dropz_skipn l n : dropz l n = skipn (Z.to_nat n) l.
Proof.
  revert n; induction l as [|x r IH]; intros n; cbn [dropz].
  - now rewrite skipn_nil.
  - destruct (Z.leb_spec n 0) as [Hn|Hn].
    + replace (Z.to_nat n) with 0%nat by lia. reflexivity.
    + replace (Z.to_nat n) with (S (Z.to_nat (n - 1))) by lia. cbn [skipn]. now rewrite IH.
Qed.

Lemma takez_dropz l n : takez l n ++ dropz l n = l.
Proof. rewrite takez_firstn, dropz_skipn. apply firstn_skipn. Qed.

Lemma takez_app_exact a b : takez (a ++ b) (len a) = a.
Proof.
  rewrite takez_firstn. unfold len. rewrite Nat2Z.id.
  rewrite firstn_app, Nat.sub_diag, firstn_all. cbn [firstn]. now rewrite app_nil_r.
Qed.

Lemma dropz_app_exact a b : dropz (a ++ b) (len a) = b.
Proof.
  rewrite dropz_skipn. unfold len. rewrite Nat2Z.id.
  rewrite skipn_app, Nat.sub_diag, skipn_all. reflexivity.
Qed.

Lemma takez_app_n a b n : n = len a -> takez (a ++ b) n = a.
Proof. intros ->. apply takez_app_exact. Qed.

Lemma dropz_app_n a b n : n = len a -> dropz (a ++ b) n = b.
Proof. intros ->. apply dropz_app_exact. Qed.

Lemma takez_all l n : len l <= n -> takez l n = l.
Proof. intros H. rewrite takez_firstn. apply firstn_all2. unfold len in H. lia. Qed.

Lemma len_takez_le l n : len (takez l n) <= len l.
Proof. rewrite takez_firstn. unfold len. rewrite firstn_length. lia. Qed.

Lemma len_takez l n : 0 <= n <= len l -> len (takez l n) = n.
Proof. intros H. rewrite takez_firstn. unfold len in *. rewrite firstn_length. lia. Qed.

Lemma len_dropz l n : 0 <= n <= len l -> len (dropz l n) = len l - n.
Proof. intros H. rewrite dropz_skipn. unfold len in *. rewrite skipn_length. lia. Qed.

Lemma beq_refl a : beq a a = true.
Proof. induction a as [|x a IH]; cbn [beq]; [reflexivity|]. now rewrite Z.eqb_refl, IH. Qed.

Lemma beq_eq a b : beq a b = true -> a = b.
Proof.
  revert b; induction a as [|x a IH]; intros [|y b]; cbn [beq]; try discriminate; [reflexivity|].
  intros H. apply andb_true_iff in H as [H1 H2]. apply Z.eqb_eq in H1. subst. f_equal. now apply IH.
Qed.

Lemma beq_neq a b : a <> b -> beq a b = false.
Proof. intros H. destruct (beq a b) eqn:E; [|reflexivity]. now apply beq_eq in E. Qed.

Lemma slice_app_exact {A} (pre x post : list A) :
  slice (pre ++ x ++ post) (len pre) (len x) = x.
Proof.
  unfold slice, len. rewrite !Nat2Z.id.
  rewrite skipn_app, Nat.sub_diag, skipn_all. cbn [skipn app].
  rewrite firstn_app, Nat.sub_diag, firstn_all. cbn [firstn]. now rewrite app_nil_r.
Qed.

(* ================================================================== struct fields *)
Lemma get_uint_at layout name f pre n v post :
  find_field layout name = Some f -> f_bitw f = 0 -> f_off f = len pre -> f_size f = Z.of_nat n ->
  0 <= v < 256 ^ Z.of_nat n ->
  get_uint false layout (pre ++ le_bytes n v ++ post) name = Some v.
Proof.
  intros Hf Hb Ho Hs Hv.
  assert (Hsl : slice (pre ++ le_bytes n v ++ post) (len pre) (Z.of_nat n) = le_bytes n v).
  { pose proof (slice_app_exact pre (le_bytes n v) post) as H. now rewrite len_le_bytes in H. }
  unfold get_uint. rewrite Hf, Hb. cbn [Z.eqb]. rewrite Ho, Hs, !Hsl.
  rewrite le_bytes_length, Z.ltb_irrefl. cbn [uint_of]. now rewrite le_uint_le_bytes.
Qed.

Lemma get_bytes_at layout name f pre x post :
  find_field layout name = Some f -> f_off f = len pre -> f_size f = len x ->
  get_bytes layout (pre ++ x ++ post) name = Some x.
Proof.
  intros Hf Ho Hs. unfold get_bytes. rewrite Hf, Ho, Hs, slice_app_exact.
  fold (len x). now rewrite Z.ltb_irrefl.
Qed.

(* the generated layouts are the ones the model's writer assumes (breaks when a struct changes) *)
Lemma hdr_layout_facts :
  HDR = 512 /\ BLOCK = 4096 /\ len MAGIC = 21 /\ field_off hdr_layout "size" = 504 /\
  field_off hdr_layout "version" = 508 /\ Gen.EnvelopeTables.envelope_header_version = 2.
Proof. repeat split; reflexivity. Qed.

Lemma aead_layout_facts :
  len AEAD_MAGIC = 23 /\ field_off aead_layout "data" = 32 /\ field_off aead_layout "size" = 4088 /\
  field_off aead_layout "version" = 4092 /\ Gen.Layouts.envelope_DataTransformAeadFooter_size = 4096 /\
  Gen.EnvelopeTables.envelope_aead_footer_version = 1.
Proof. repeat split; reflexivity. Qed.

Lemma cf_layout_facts :
  len CF_MAGIC = 25 /\ field_off cf_layout "padding" = 504 /\ field_off cf_layout "version" = 508 /\
  TAIL = 512 /\ STRIP = 4096 /\ Gen.Layouts.envelope_DataTransformCryptoFooter_size = TAIL.
Proof. repeat split; reflexivity. Qed.

(* ================================================================== cstring / take *)
Lemma cstring_app s r : nonul s -> cstring (s ++ 0 :: r) = Some (s, r).
Proof.
  induction 1 as [|c s Hc Hs IH]; cbn [app cstring].
  - reflexivity.
  - destruct (Z.eqb_spec c 0) as [->|_]; [contradiction|]. now rewrite IH.
Qed.

Lemma take_app n x r : len x = n -> take n (x ++ r) = Some (x, r).
Proof.
  intros <-. unfold take. rewrite len_app.
  destruct (Z.ltb_spec (len x + len r) (len x)) as [H|_].
  - pose proof (len_nonneg r). lia.
  - now rewrite takez_app_exact, dropz_app_exact.
Qed.

(* ================================================================== attribute values *)
Lemma pow256 w : 0 <= w -> 256 ^ w = 2 ^ (8 * w).
Proof. intros. change 256 with (2 ^ 8). now rewrite <- Z.pow_mul_r by lia. Qed.

Lemma signed_mod w x : 0 < w -> - 2 ^ (8 * w - 1) <= x < 2 ^ (8 * w - 1) -> signed w (x mod 2 ^ (8 * w)) = x.
Proof.
  intros Hw Hx. unfold signed.
  assert (HM : 2 ^ (8 * w) = 2 * 2 ^ (8 * w - 1)).
  { replace (8 * w) with (Z.succ (8 * w - 1)) at 1 by lia. apply Z.pow_succ_r. lia. }
  assert (Hp : 0 < 2 ^ (8 * w - 1)) by (apply Z.pow_pos_nonneg; lia).
  destruct (Z.lt_ge_cases x 0) as [Hneg|Hpos].
  - assert (Hm : x mod 2 ^ (8 * w) = x + 2 ^ (8 * w)).
    { symmetry. apply Z.mod_unique with (q := -1); [left; lia|lia]. }
    rewrite Hm. destruct (Z.ltb_spec (x + 2 ^ (8 * w)) (2 ^ (8 * w - 1))); lia.
  - rewrite Z.mod_small by lia. destruct (Z.ltb_spec x (2 ^ (8 * w - 1))); lia.
Qed.

Section ValueCodec.
  Variables (ty w : Z) (r : list Z).
  Hypothesis Hs : (ty =? T_String) = false.
  Hypothesis Hb : (ty =? T_Bytes) = false.
  Hypothesis Hw : 0 < w.

  Lemma take_le_bytes x : take w (le_bytes (Z.to_nat w) x ++ r) = Some (le_bytes (Z.to_nat w) x, r).
  Proof. apply take_app. rewrite len_le_bytes. lia. Qed.

  Lemma uint_codec x :
    assoc_z type_map ty = Some (1, w) -> 0 <= x < 2 ^ (8 * w) ->
    pack_value ty (VInt x) = Ok (le_bytes (Z.to_nat w) x) /\
    read_value ty (le_bytes (Z.to_nat w) x ++ r) = Ok (Some (VInt x, r)).
  Proof.
    intros Hm Hx. unfold pack_value, read_value. rewrite Hm, Hs, Hb. cbn [Z.eqb Pos.eqb].
    assert (Hc : (0 <=? x) && (x <? 2 ^ (8 * w)) = true).
    { apply andb_true_iff. split; [apply Z.leb_le|apply Z.ltb_lt]; lia. }
    rewrite Hc. split; [reflexivity|]. rewrite take_le_bytes.
    rewrite le_uint_le_bytes; [reflexivity|]. rewrite Z2Nat.id, pow256 by lia. exact Hx.
  Qed.

  Lemma int_codec x :
    assoc_z type_map ty = Some (2, w) -> - 2 ^ (8 * w - 1) <= x < 2 ^ (8 * w - 1) ->
    pack_value ty (VInt x) = Ok (le_bytes (Z.to_nat w) (x mod 2 ^ (8 * w))) /\
    read_value ty (le_bytes (Z.to_nat w) (x mod 2 ^ (8 * w)) ++ r) = Ok (Some (VInt x, r)).
  Proof.
    intros Hm Hx. unfold pack_value, read_value. rewrite Hm, Hs, Hb. cbn [Z.eqb Pos.eqb].
    assert (Hc : (- 2 ^ (8 * w - 1) <=? x) && (x <? 2 ^ (8 * w - 1)) = true).
    { apply andb_true_iff. split; [apply Z.leb_le|apply Z.ltb_lt]; lia. }
    rewrite Hc. split; [reflexivity|]. rewrite take_le_bytes.
    assert (Hp : 0 < 2 ^ (8 * w)) by (apply Z.pow_pos_nonneg; lia).
    rewrite le_uint_le_bytes.
    - now rewrite signed_mod.
    - rewrite Z2Nat.id, pow256 by lia. apply Z.mod_pos_bound. exact Hp.
  Qed.
End ValueCodec.

Lemma f32_codec b r :
  0 <= b < 2 ^ 32 -> quiet32 b = b ->
  pack_value 9 (VF32 b) = Ok (le_bytes 4 b) /\ read_value 9 (le_bytes 4 b ++ r) = Ok (Some (VF32 b, r)).
Proof.
  intros Hb Hq. split; [reflexivity|].
  unfold read_value. change (assoc_z type_map 9) with (Some (3, 4)).
  change (9 =? T_String) with false. change (9 =? T_Bytes) with false. cbn [Z.eqb Pos.eqb].
  rewrite (take_app 4 (le_bytes 4 b) r) by apply len_le_bytes.
  rewrite le_uint_le_bytes by (change (256 ^ Z.of_nat 4) with (2 ^ 32); exact Hb). now rewrite Hq.
Qed.

Lemma f64_codec b r :
  0 <= b < 2 ^ 64 ->
  pack_value 10 (VF64 b) = Ok (le_bytes 8 b) /\ read_value 10 (le_bytes 8 b ++ r) = Ok (Some (VF64 b, r)).
Proof.
  intros Hb. split; [reflexivity|].
  unfold read_value. change (assoc_z type_map 10) with (Some (3, 8)).
  change (10 =? T_String) with false. change (10 =? T_Bytes) with false. cbn [Z.eqb Pos.eqb].
  rewrite (take_app 8 (le_bytes 8 b) r) by apply len_le_bytes.
  now rewrite le_uint_le_bytes by (change (256 ^ Z.of_nat 8) with (2 ^ 64); exact Hb).
Qed.

Lemma str_codec s r :
  nonul s -> utf8_valid s = true ->
  pack_value 11 (VStr s) = Ok (s ++ [0]) /\ read_value 11 ((s ++ [0]) ++ r) = Ok (Some (VStr s, r)).
Proof.
  intros Hn Hu. split; [reflexivity|].
  unfold read_value. change (assoc_z type_map 11) with (Some (0, 0)). change (11 =? T_String) with true.
  cbv beta iota. rewrite <- app_assoc. cbn [app]. rewrite cstring_app by exact Hn. now rewrite Hu.
Qed.

Lemma bytes_codec b r :
  len b < 2 ^ 63 ->
  pack_value 12 (VBytes b) = Ok (le_bytes 8 (len b) ++ b) /\
  read_value 12 ((le_bytes 8 (len b) ++ b) ++ r) = Ok (Some (VBytes b, r)).
Proof.
  intros Hl. split; [reflexivity|]. pose proof (len_nonneg b) as H0.
  unfold read_value. change (assoc_z type_map 12) with (Some (0, 0)). change (12 =? T_String) with false.
  change (12 =? T_Bytes) with true. cbv beta iota. rewrite <- app_assoc.
  rewrite (take_app 8 (le_bytes 8 (len b)) (b ++ r)) by apply len_le_bytes.
  rewrite le_uint_le_bytes by (change (256 ^ Z.of_nat 8) with (2 ^ 64); lia).
  destruct (Z.gtb_spec (len b) 9223372036854775807) as [H|_]; [lia|].
  now rewrite takez_app_exact, dropz_app_exact.
Qed.

(* every well-formed value packs, and reading the packed bytes gives the value back *)
Lemma value_codec ty v r :
  wf_val ty v -> exists bs, pack_value ty v = Ok bs /\ read_value ty (bs ++ r) = Ok (Some (v, r)).
Proof.
  destruct v as [x|b|b|s|b]; cbn [wf_val].
  - intros [[-> H]|[[-> H]|[[-> H]|[[-> H]|[[-> H]|[[-> H]|[[-> H]| [-> H]]]]]]]].
    + eexists. apply (uint_codec 1 1 r); try reflexivity; try lia; try exact H.
    + eexists. apply (uint_codec 2 2 r); try reflexivity; try lia; try exact H.
    + eexists. apply (uint_codec 3 4 r); try reflexivity; try lia; try exact H.
    + eexists. apply (uint_codec 4 8 r); try reflexivity; try lia; try exact H.
    + eexists. apply (int_codec 5 1 r); try reflexivity; try lia; try exact H.
    + eexists. apply (int_codec 6 2 r); try reflexivity; try lia; try exact H.
    + eexists. apply (int_codec 7 4 r); try reflexivity; try lia; try exact H.
    + eexists. apply (int_codec 8 8 r); try reflexivity; try lia; try exact H.
  - intros (-> & H1 & H2). eexists. now apply f32_codec.
  - intros (-> & H1). eexists. now apply f64_codec.
  - intros (-> & H1 & H2). eexists. now apply str_codec.
  - intros (-> & H1). eexists. now apply bytes_codec.
Qed.

Lemma wf_val_type ty v : wf_val ty v -> 1 <= ty <= 12.
Proof.
  destruct v; cbn [wf_val]; intros H; decompose [and or] H; subst; lia.
Qed.

(* ================================================================== attribute records *)
Lemma dropz_0 l : dropz l 0 = l.
Proof. destruct l; reflexivity. Qed.

Lemma dropz_2 a b l : dropz (a :: b :: l) 2 = l.
Proof. cbn [dropz]. change (2 <=? 0) with false. change (2 - 1 <=? 0) with false. cbv iota. apply dropz_0. Qed.

Lemma dict_set_fresh acc a :
  (forall x, In x acc -> a_name x <> a_name a) -> dict_set acc a = acc ++ [a].
Proof.
  induction acc as [|x acc IH]; intros H; cbn [dict_set app]; [reflexivity|].
  rewrite beq_neq by (apply H; now left). f_equal. apply IH. intros y Hy. apply H. now right.
Qed.

Lemma pack_attr_ok a bs :
  pack_value (a_type a) (a_val a) = Ok bs ->
  pack_attr a = Ok (a_type a :: a_flag a :: 0 :: 0 :: a_name a ++ 0 :: bs).
Proof. intros H. unfold pack_attr. rewrite H. reflexivity. Qed.

Lemma pack_attr_list_total attrs :
  Forall wf_attr attrs -> exists packed, pack_attr_list attrs = Ok packed.
Proof.
  induction 1 as [|a attrs (_ & _ & Hv) _ [p Hp]]; [now exists []|].
  destruct (value_codec _ _ [] Hv) as (bs & Hb & _).
  cbn [pack_attr_list]. rewrite (pack_attr_ok a bs Hb), Hp. cbn [bind]. eauto.
Qed.

Lemma read_attrs_pack attrs :
  forall acc packed rest fuel,
  Forall wf_attr attrs -> NoDup (map a_name (acc ++ attrs)) ->
  pack_attr_list attrs = Ok packed -> (List.length packed < fuel)%nat ->
  read_attrs fuel (packed ++ 0 :: rest) acc = Ok (acc ++ attrs).
Proof.
  induction attrs as [|a attrs IH]; intros acc packed rest fuel Hwf Hnd Hp Hfuel.
  - cbn in Hp. injection Hp as <-. destruct fuel as [|f]; [lia|].
    cbn [app read_attrs]. change (0 =? T_Invalid) with true. cbv iota. now rewrite app_nil_r.
  - inversion Hwf as [|? ? (Hn & Hu & Hv) Hwf']; subst.
    destruct (value_codec (a_type a) (a_val a) [] Hv) as (bs & Hb & _).
    cbn [pack_attr_list] in Hp. rewrite (pack_attr_ok a bs Hb) in Hp. cbn [bind] in Hp.
    destruct (pack_attr_list attrs) as [y| |] eqn:Hy; cbn [bind] in Hp; try discriminate.
    injection Hp as <-.
    destruct fuel as [|f]; [lia|].
    destruct (value_codec (a_type a) (a_val a) (y ++ 0 :: rest) Hv) as (bs' & Hb' & Hr).
    rewrite Hb in Hb'. injection Hb' as <-.
    pose proof (wf_val_type _ _ Hv) as Hty.
    cbn [app]. repeat (rewrite <- app_assoc; cbn [app]).
    cbn [read_attrs].
    destruct (Z.eqb_spec (a_type a) T_Invalid) as [E|_]; [change T_Invalid with 0 in E; lia|].
    rewrite dropz_2, cstring_app by exact Hn. rewrite Hu. cbn [negb].
    rewrite Hr.
    assert (Hfresh : forall x, In x acc -> a_name x <> a_name a).
    { intros x Hx E. rewrite map_app in Hnd. cbn [map] in Hnd. apply NoDup_remove_2 in Hnd.
      apply Hnd. apply in_or_app. left. rewrite <- E. now apply in_map. }
    replace (mk_attr (a_name a) (a_type a) (a_flag a) (a_val a)) with a by (destruct a; reflexivity).
    rewrite (dict_set_fresh acc a Hfresh).
    rewrite (IH (acc ++ [a]) y rest f Hwf').
    + now rewrite <- app_assoc.
    + now rewrite <- app_assoc.
    + reflexivity.
    + cbn [List.length] in Hfuel. rewrite app_length in Hfuel. cbn [List.length] in Hfuel. lia.
Qed.

(* attrs_roundtrip: reading what the packer wrote gives the attributes back — every type, any order,
   any count, whatever follows the terminating NUL *)
Theorem attrs_roundtrip attrs packed rest :
  wf_attrs attrs -> pack_attr_list attrs = Ok packed ->
  read_attributes (packed ++ 0 :: rest) = Ok attrs.
Proof.
  intros [Hwf Hnd] Hp. unfold read_attributes.
  apply (read_attrs_pack attrs [] packed rest); try assumption.
  rewrite app_length. cbn [List.length]. lia.
Qed.
