(* Proofs/Envelope.v — lemmas about Model/Envelope.v (property C16). *)
From Coq Require Import ZArith List Bool Lia String.
From DH Require Import Base.Plan Base.Table Base.Layout Model.Envelope.
From DH Require Gen.Consts Gen.Layouts Gen.Enums Gen.EnvelopeTables.
Import ListNotations.
Open Scope Z_scope.

(* ================================================================== lists of bytes *)
Lemma len_nonneg {A} (l : list A) : 0 <= len l.
Proof. unfold len. lia. Qed.

Lemma len_app {A} (a b : list A) : len (a ++ b) = len a + len b.
Proof. unfold len. rewrite app_length. lia. Qed.

Lemma len_cons {A} (x : A) l : len (x :: l) = 1 + len l.
Proof. unfold len. cbn [List.length]. lia. Qed.

Lemma len_nil {A} : len (@nil A) = 0.
Proof. reflexivity. Qed.

Lemma len_repz b n : 0 <= n -> len (repz b n) = n.
Proof. intros. unfold len, repz. rewrite repeat_length. lia. Qed.

Lemma len_le_bytes n v : len (le_bytes n v) = Z.of_nat n.
Proof. unfold len. now rewrite le_bytes_length. Qed.

Lemma takez_firstn l n : takez l n = firstn (Z.to_nat n) l.
Proof.
  revert n; induction l as [|x r IH]; intros n; cbn [takez].
  - now rewrite firstn_nil.
  - destruct (Z.leb_spec n 0) as [Hn|Hn].
    + replace (Z.to_nat n) with 0%nat by lia. reflexivity.
    + replace (Z.to_nat n) with (S (Z.to_nat (n - 1))) by lia. cbn [firstn]. now rewrite IH.
Qed.

Lemma dropz_skipn l n : dropz l n = skipn (Z.to_nat n) l.
Proof.
  revert n; induction l as [|x r IH]; intros n; cbn [dropz].
  - now rewrite skipn_nil.
  - destruct (Z.leb_spec n 0) as [Hn|Hn].
    + replace (Z.to_nat n) with 0%nat by lia. reflexivity.
    + replace (Z.to_nat n) with (S (Z.to_nat (n - 1))) by lia. cbn [skipn]. now rewrite IH.
Qed.

Lemma takez_dropz l n : takez l n ++ dropz l n = l.
Proof. rewrite takez_firstn, dropz_skipn. apply firstn_skipn. Qed.

Lemma takez_app_exact a b : takez (a ++ b) (len a) = a.
Proof.
  rewrite takez_firstn. unfold len. rewrite Nat2Z.id.
  rewrite firstn_app, Nat.sub_diag, firstn_all. cbn [firstn]. now rewrite app_nil_r.
Qed.

Lemma dropz_app_exact a b : dropz (a ++ b) (len a) = b.
Proof.
  rewrite dropz_skipn. unfold len. rewrite Nat2Z.id.
  rewrite skipn_app, Nat.sub_diag, skipn_all. reflexivity.
Qed.

Lemma takez_app_n a b n : n = len a -> takez (a ++ b) n = a.
Proof. intros ->. apply takez_app_exact. Qed.

Lemma dropz_app_n a b n : n = len a -> dropz (a ++ b) n = b.
Proof. intros ->. apply dropz_app_exact. Qed.

Lemma takez_all l n : len l <= n -> takez l n = l.
Proof. intros H. rewrite takez_firstn. apply firstn_all2. unfold len in H. lia. Qed.

Lemma len_takez_le l n : len (takez l n) <= len l.
Proof. rewrite takez_firstn. unfold len. rewrite firstn_length. lia. Qed.

Lemma len_takez l n : 0 <= n <= len l -> len (takez l n) = n.
Proof. intros H. rewrite takez_firstn. unfold len in *. rewrite firstn_length. lia. Qed.

Lemma len_dropz l n : 0 <= n <= len l -> len (dropz l n) = len l - n.
Proof. intros H. rewrite dropz_skipn. unfold len in *. rewrite skipn_length. lia. Qed.

Lemma beq_refl a : beq a a = true.
Proof. induction a as [|x a IH]; cbn [beq]; [reflexivity|]. now rewrite Z.eqb_refl, IH. Qed.

Lemma beq_eq a b : beq a b = true -> a = b.
Proof.
  revert b; induction a as [|x a IH]; intros [|y b]; cbn [beq]; try discriminate; [reflexivity|].
  intros H. apply andb_true_iff in H as [H1 H2]. apply Z.eqb_eq in H1. subst. f_equal. now apply IH.
Qed.

Lemma beq_neq a b : a <> b -> beq a b = false.
Proof. intros H. destruct (beq a b) eqn:E; [|reflexivity]. now apply beq_eq in E. Qed.

Lemma slice_app_exact {A} (pre x post : list A) :
  slice (pre ++ x ++ post) (len pre) (len x) = x.
Proof.
  unfold slice, len. rewrite !Nat2Z.id.
  rewrite skipn_app, Nat.sub_diag, skipn_all. cbn [skipn app].
  rewrite firstn_app, Nat.sub_diag, firstn_all. cbn [firstn]. now rewrite app_nil_r.
Qed.

(* ================================================================== struct fields *)
Lemma get_uint_at layout name f pre n v post :
  find_field layout name = Some f -> f_bitw f = 0 -> f_off f = len pre -> f_size f = Z.of_nat n ->
  0 <= v < 256 ^ Z.of_nat n ->
  get_uint false layout (pre ++ le_bytes n v ++ post) name = Some v.
Proof.
  intros Hf Hb Ho Hs Hv.
  assert (Hsl : slice (pre ++ le_bytes n v ++ post) (len pre) (Z.of_nat n) = le_bytes n v).
  { pose proof (slice_app_exact pre (le_bytes n v) post) as H. now rewrite len_le_bytes in H. }
  unfold get_uint. rewrite Hf, Hb. cbn [Z.eqb]. rewrite Ho, Hs, !Hsl.
  rewrite le_bytes_length, Z.ltb_irrefl. cbn [uint_of]. now rewrite le_uint_le_bytes.
Qed.

Lemma get_bytes_at layout name f pre x post :
  find_field layout name = Some f -> f_off f = len pre -> f_size f = len x ->
  get_bytes layout (pre ++ x ++ post) name = Some x.
Proof.
  intros Hf Ho Hs. unfold get_bytes. rewrite Hf, Ho, Hs, slice_app_exact.
  fold (len x). now rewrite Z.ltb_irrefl.
Qed.

(* the generated layouts are the ones the model's writer assumes (breaks when a struct changes) *)
Lemma hdr_layout_facts :
  HDR = 512 /\ BLOCK = 4096 /\ len MAGIC = 21 /\ field_off hdr_layout "size" = 504 /\
  field_off hdr_layout "version" = 508 /\ Gen.EnvelopeTables.envelope_header_version = 2.
Proof. repeat split; reflexivity. Qed.

Lemma aead_layout_facts :
  len AEAD_MAGIC = 23 /\ field_off aead_layout "data" = 32 /\ field_off aead_layout "size" = 4088 /\
  field_off aead_layout "version" = 4092 /\ Gen.Layouts.envelope_DataTransformAeadFooter_size = 4096 /\
  Gen.EnvelopeTables.envelope_aead_footer_version = 1.
Proof. repeat split; reflexivity. Qed.

Lemma cf_layout_facts :
  len CF_MAGIC = 25 /\ field_off cf_layout "padding" = 504 /\ field_off cf_layout "version" = 508 /\
  TAIL = 512 /\ STRIP = 4096 /\ Gen.Layouts.envelope_DataTransformCryptoFooter_size = TAIL.
Proof. repeat split; reflexivity. Qed.

(* ================================================================== cstring / take *)
Lemma cstring_app s r : nonul s -> cstring (s ++ 0 :: r) = Some (s, r).
Proof.
  induction 1 as [|c s Hc Hs IH]; cbn [app cstring].
  - reflexivity.
  - destruct (Z.eqb_spec c 0) as [->|_]; [contradiction|]. now rewrite IH.
Qed.

Lemma take_app n x r : len x = n -> take n (x ++ r) = Some (x, r).
Proof.
  intros <-. unfold take. rewrite len_app.
  destruct (Z.ltb_spec (len x + len r) (len x)) as [H|_].
  - pose proof (len_nonneg r). lia.
  - now rewrite takez_app_exact, dropz_app_exact.
Qed.

(* ================================================================== attribute values *)
Lemma pow256 w : 0 <= w -> 256 ^ w = 2 ^ (8 * w).
Proof. intros. change 256 with (2 ^ 8). now rewrite <- Z.pow_mul_r by lia. Qed.

Lemma signed_mod w x : 0 < w -> - 2 ^ (8 * w - 1) <= x < 2 ^ (8 * w - 1) -> signed w (x mod 2 ^ (8 * w)) = x.
Proof.
  intros Hw Hx. unfold signed.
  assert (HM : 2 ^ (8 * w) = 2 * 2 ^ (8 * w - 1)).
  { replace (8 * w) with (Z.succ (8 * w - 1)) at 1 by lia. apply Z.pow_succ_r. lia. }
  assert (Hp : 0 < 2 ^ (8 * w - 1)) by (apply Z.pow_pos_nonneg; lia).
  destruct (Z.lt_ge_cases x 0) as [Hneg|Hpos].
  - assert (Hm : x mod 2 ^ (8 * w) = x + 2 ^ (8 * w)).
    { symmetry. apply Z.mod_unique with (q := -1); [left; lia|lia]. }
    rewrite Hm. destruct (Z.ltb_spec (x + 2 ^ (8 * w)) (2 ^ (8 * w - 1))); lia.
  - rewrite Z.mod_small by lia. destruct (Z.ltb_spec x (2 ^ (8 * w - 1))); lia.
Qed.

Section ValueCodec.
  Variables (ty w : Z) (r : list Z).
  Hypothesis Hs : (ty =? T_String) = false.
  Hypothesis Hb : (ty =? T_Bytes) = false.
  Hypothesis Hw : 0 < w.

  Lemma take_le_bytes x : take w (le_bytes (Z.to_nat w) x ++ r) = Some (le_bytes (Z.to_nat w) x, r).
  Proof. apply take_app. rewrite len_le_bytes. lia. Qed.

  Lemma uint_codec x :
    assoc_z type_map ty = Some (1, w) -> 0 <= x < 2 ^ (8 * w) ->
    pack_value ty (VInt x) = Ok (le_bytes (Z.to_nat w) x) /\
    read_value ty (le_bytes (Z.to_nat w) x ++ r) = Ok (Some (VInt x, r)).
  Proof.
    intros Hm Hx. unfold pack_value, read_value. rewrite Hm, Hs, Hb. cbn [Z.eqb Pos.eqb].
    assert (Hc : (0 <=? x) && (x <? 2 ^ (8 * w)) = true).
    { apply andb_true_iff. split; [apply Z.leb_le|apply Z.ltb_lt]; lia. }
    rewrite Hc. split; [reflexivity|]. rewrite take_le_bytes.
    rewrite le_uint_le_bytes; [reflexivity|]. rewrite Z2Nat.id, pow256 by lia. exact Hx.
  Qed.

  Lemma int_codec x :
    assoc_z type_map ty = Some (2, w) -> - 2 ^ (8 * w - 1) <= x < 2 ^ (8 * w - 1) ->
    pack_value ty (VInt x) = Ok (le_bytes (Z.to_nat w) (x mod 2 ^ (8 * w))) /\
    read_value ty (le_bytes (Z.to_nat w) (x mod 2 ^ (8 * w)) ++ r) = Ok (Some (VInt x, r)).
  Proof.
    intros Hm Hx. unfold pack_value, read_value. rewrite Hm, Hs, Hb. cbn [Z.eqb Pos.eqb].
    assert (Hc : (- 2 ^ (8 * w - 1) <=? x) && (x <? 2 ^ (8 * w - 1)) = true).
    { apply andb_true_iff. split; [apply Z.leb_le|apply Z.ltb_lt]; lia. }
    rewrite Hc. split; [reflexivity|]. rewrite take_le_bytes.
    assert (Hp : 0 < 2 ^ (8 * w)) by (apply Z.pow_pos_nonneg; lia).
    rewrite le_uint_le_bytes.
    - now rewrite signed_mod.
    - rewrite Z2Nat.id, pow256 by lia. apply Z.mod_pos_bound. exact Hp.
  Qed.
End ValueCodec.

Lemma f32_codec b r :
  0 <= b < 2 ^ 32 -> quiet32 b = b ->
  pack_value 9 (VF32 b) = Ok (le_bytes 4 b) /\ read_value 9 (le_bytes 4 b ++ r) = Ok (Some (VF32 b, r)).
Proof.
  intros Hb Hq. split; [reflexivity|].
  unfold read_value. change (assoc_z type_map 9) with (Some (3, 4)).
  change (9 =? T_String) with false. change (9 =? T_Bytes) with false. cbn [Z.eqb Pos.eqb].
  rewrite (take_app 4 (le_bytes 4 b) r) by apply len_le_bytes.
  rewrite le_uint_le_bytes by (change (256 ^ Z.of_nat 4) with (2 ^ 32); exact Hb). now rewrite Hq.
Qed.

Lemma f64_codec b r :
  0 <= b < 2 ^ 64 ->
  pack_value 10 (VF64 b) = Ok (le_bytes 8 b) /\ read_value 10 (le_bytes 8 b ++ r) = Ok (Some (VF64 b, r)).
Proof.
  intros Hb. split; [reflexivity|].
  unfold read_value. change (assoc_z type_map 10) with (Some (3, 8)).
  change (10 =? T_String) with false. change (10 =? T_Bytes) with false. cbn [Z.eqb Pos.eqb].
  rewrite (take_app 8 (le_bytes 8 b) r) by apply len_le_bytes.
  now rewrite le_uint_le_bytes by (change (256 ^ Z.of_nat 8) with (2 ^ 64); exact Hb).
Qed.

Lemma str_codec s r :
  nonul s -> utf8_valid s = true ->
  pack_value 11 (VStr s) = Ok (s ++ [0]) /\ read_value 11 ((s ++ [0]) ++ r) = Ok (Some (VStr s, r)).
Proof.
  intros Hn Hu. split; [reflexivity|].
  unfold read_value. change (assoc_z type_map 11) with (Some (0, 0)). change (11 =? T_String) with true.
  cbv beta iota. rewrite <- app_assoc. cbn [app]. rewrite cstring_app by exact Hn. now rewrite Hu.
Qed.

Lemma bytes_codec b r :
  len b < 2 ^ 63 ->
  pack_value 12 (VBytes b) = Ok (le_bytes 8 (len b) ++ b) /\
  read_value 12 ((le_bytes 8 (len b) ++ b) ++ r) = Ok (Some (VBytes b, r)).
Proof.
  intros Hl. split; [reflexivity|]. pose proof (len_nonneg b) as H0.
  unfold read_value. change (assoc_z type_map 12) with (Some (0, 0)). change (12 =? T_String) with false.
  change (12 =? T_Bytes) with true. cbv beta iota. rewrite <- app_assoc.
  rewrite (take_app 8 (le_bytes 8 (len b)) (b ++ r)) by apply len_le_bytes.
  rewrite le_uint_le_bytes by (change (256 ^ Z.of_nat 8) with (2 ^ 64); lia).
  destruct (Z.gtb_spec (len b) 9223372036854775807) as [H|_]; [lia|].
  now rewrite takez_app_exact, dropz_app_exact.
Qed.

(* every well-formed value packs, and reading the packed bytes gives the value back *)
Lemma value_codec ty v r :
  wf_val ty v -> exists bs, pack_value ty v = Ok bs /\ read_value ty (bs ++ r) = Ok (Some (v, r)).
Proof.
  destruct v as [x|b|b|s|b]; cbn [wf_val].
  - intros [[-> H]|[[-> H]|[[-> H]|[[-> H]|[[-> H]|[[-> H]|[[-> H]| [-> H]]]]]]]].
    + eexists. apply (uint_codec 1 1 r); try reflexivity; try lia; try exact H.
    + eexists. apply (uint_codec 2 2 r); try reflexivity; try lia; try exact H.
    + eexists. apply (uint_codec 3 4 r); try reflexivity; try lia; try exact H.
    + eexists. apply (uint_codec 4 8 r); try reflexivity; try lia; try exact H.
    + eexists. apply (int_codec 5 1 r); try reflexivity; try lia; try exact H.
    + eexists. apply (int_codec 6 2 r); try reflexivity; try lia; try exact H.
    + eexists. apply (int_codec 7 4 r); try reflexivity; try lia; try exact H.
    + eexists. apply (int_codec 8 8 r); try reflexivity; try lia; try exact H.
  - intros (-> & H1 & H2). eexists. now apply f32_codec.
  - intros (-> & H1). eexists. now apply f64_codec.
  - intros (-> & H1 & H2). eexists. now apply str_codec.
  - intros (-> & H1). eexists. now apply bytes_codec.
Qed.

Lemma wf_val_type ty v : wf_val ty v -> 1 <= ty <= 12.
Proof.
  destruct v; cbn [wf_val]; intros H; decompose [and or] H; subst; lia.
Qed.

(* ================================================================== attribute records *)
Lemma dropz_0 l : dropz l 0 = l.
Proof. destruct l; reflexivity. Qed.

Lemma dropz_2 a b l : dropz (a :: b :: l) 2 = l.
Proof. cbn [dropz]. change (2 <=? 0) with false. change (2 - 1 <=? 0) with false. cbv iota. apply dropz_0. Qed.

Lemma dict_set_fresh acc a :
  (forall x, In x acc -> a_name x <> a_name a) -> dict_set acc a = acc ++ [a].
Proof.
  induction acc as [|x acc IH]; intros H; cbn [dict_set app]; [reflexivity|].
  rewrite beq_neq by (apply H; now left). f_equal. apply IH. intros y Hy. apply H. now right.
Qed.

Lemma pack_attr_ok a bs :
  pack_value (a_type a) (a_val a) = Ok bs ->
  pack_attr a = Ok (a_type a :: a_flag a :: 0 :: 0 :: a_name a ++ 0 :: bs).
Proof. intros H. unfold pack_attr. rewrite H. reflexivity. Qed.

Lemma pack_attr_list_total attrs :
  Forall wf_attr attrs -> exists packed, pack_attr_list attrs = Ok packed.
Proof.
  induction 1 as [|a attrs (_ & _ & Hv) _ [p Hp]]; [now exists []|].
  destruct (value_codec _ _ [] Hv) as (bs & Hb & _).
  cbn [pack_attr_list]. rewrite (pack_attr_ok a bs Hb), Hp. cbn [bind]. eauto.
Qed.

Lemma read_attrs_pack attrs :
  forall acc packed rest fuel,
  Forall wf_attr attrs -> NoDup (map a_name (acc ++ attrs)) ->
  pack_attr_list attrs = Ok packed -> (List.length packed < fuel)%nat ->
  read_attrs fuel (packed ++ 0 :: rest) acc = Ok (acc ++ attrs).
Proof.
  induction attrs as [|a attrs IH]; intros acc packed rest fuel Hwf Hnd Hp Hfuel.
  - cbn in Hp. injection Hp as <-. destruct fuel as [|f]; [lia|].
    cbn [app read_attrs]. change (0 =? T_Invalid) with true. cbv iota. now rewrite app_nil_r.
  - inversion Hwf as [|? ? (Hn & Hu & Hv) Hwf']; subst.
    destruct (value_codec (a_type a) (a_val a) [] Hv) as (bs & Hb & _).
    cbn [pack_attr_list] in Hp. rewrite (pack_attr_ok a bs Hb) in Hp. cbn [bind] in Hp.
    destruct (pack_attr_list attrs) as [y| |] eqn:Hy; cbn [bind] in Hp; try discriminate.
    injection Hp as <-.
    destruct fuel as [|f]; [lia|].
    destruct (value_codec (a_type a) (a_val a) (y ++ 0 :: rest) Hv) as (bs' & Hb' & Hr).
    rewrite Hb in Hb'. injection Hb' as <-.
    pose proof (wf_val_type _ _ Hv) as Hty.
    cbn [app]. repeat (rewrite <- app_assoc; cbn [app]).
    cbn [read_attrs].
    destruct (Z.eqb_spec (a_type a) T_Invalid) as [E|_]; [change T_Invalid with 0 in E; lia|].
    rewrite dropz_2, cstring_app by exact Hn. rewrite Hu. cbn [negb].
    rewrite Hr.
    assert (Hfresh : forall x, In x acc -> a_name x <> a_name a).
    { intros x Hx E. rewrite map_app in Hnd. cbn [map] in Hnd. apply NoDup_remove_2 in Hnd.
      apply Hnd. apply in_or_app. left. rewrite <- E. now apply in_map. }
    replace (mk_attr (a_name a) (a_type a) (a_flag a) (a_val a)) with a by (destruct a; reflexivity).
    rewrite (dict_set_fresh acc a Hfresh).
    rewrite (IH (acc ++ [a]) y rest f Hwf').
    + now rewrite <- app_assoc.
    + now rewrite <- app_assoc.
    + reflexivity.
    + cbn [List.length] in Hfuel. rewrite app_length in Hfuel. cbn [List.length] in Hfuel. lia.
Qed.

(* attrs_roundtrip: reading what the packer wrote gives the attributes back — every type, any order,
   any count, whatever follows the terminating NUL *)
Theorem attrs_roundtrip attrs packed rest :
  wf_attrs attrs -> pack_attr_list attrs = Ok packed ->
  read_attributes (packed ++ 0 :: rest) = Ok attrs.
Proof.
  intros [Hwf Hnd] Hp. unfold read_attributes.
  apply (read_attrs_pack attrs [] packed rest); try assumption.
  rewrite app_length. cbn [List.length]. lia.
Qed.

(* ================================================================== the header block *)
Lemma len_header_struct size v : len (header_struct size v) = HDR.
Proof.
  unfold header_struct. rewrite !len_app, !len_le_bytes.
  change (field_off hdr_layout "size") with 504. change (len MAGIC) with 21.
  rewrite len_repz by lia. reflexivity.
Qed.

Lemma pack_header_shape attrs v packed :
  pack_attr_list attrs = Ok packed -> HDR + len packed + 4 <= BLOCK ->
  pack_header attrs v =
    Ok (header_struct (BLOCK - HDR) v ++ (packed ++ [0; 0; 0; 0]) ++ repz 0 (BLOCK - HDR - len packed - 4)).
Proof.
  intros Hp Hfit. unfold pack_header, pack_attrs. rewrite Hp. cbn [bind].
  pose proof (len_nonneg packed) as H0.
  assert (Hl : len (packed ++ [0; 0; 0; 0]) = len packed + 4) by (rewrite len_app; reflexivity).
  rewrite Hl. change HDR with 512 in *. change BLOCK with 4096 in *.
  destruct (Z.eq_dec (512 + (len packed + 4)) 4096) as [E|E].
  - rewrite E. change (4096 mod 4096) with 0. cbn [Z.eqb].
    replace (4096 + 0 - 512) with (4096 - 512) by lia.
    replace (4096 - 512 - len packed - 4) with 0 by lia. reflexivity.
  - rewrite Z.mod_small by lia.
    destruct (Z.eqb_spec (512 + (len packed + 4)) 0) as [E0|_]; [lia|].
    replace (512 + (len packed + 4) + (4096 - (512 + (len packed + 4))) - 512) with (4096 - 512) by lia.
    replace (4096 - (512 + (len packed + 4))) with (4096 - 512 - len packed - 4) by lia. reflexivity.
Qed.

(* header_repack_identity, first half: what _pack_envelope_header writes for a well-formed attribute
   set that fits the block is one block that the reader opens to exactly those attributes *)
Lemma pack_header_opens attrs v hdr :
  wf_attrs attrs -> fits attrs -> v = Gen.EnvelopeTables.envelope_header_version ->
  pack_header attrs v = Ok hdr -> header_opens hdr attrs.
Proof.
  intros Hwf (packed & Hp & Hfit) -> Hh.
  rewrite (pack_header_shape attrs _ packed Hp Hfit) in Hh.
  match type of Hh with Ok ?X = _ => set (blk := X) in Hh end.
  assert (E : hdr = blk) by congruence. subst hdr. unfold blk. clear Hh blk.
  pose proof (len_nonneg packed) as H0.
  unfold header_opens. split; [|split; [|split]].
  - rewrite !len_app, len_header_struct, len_repz by lia.
    change (len [0; 0; 0; 0]) with 4. lia.
  - unfold header_struct. rewrite <- !app_assoc. apply takez_app_exact.
  - unfold header_struct.
    replace ((MAGIC ++ repz 0 (field_off hdr_layout "size" - len MAGIC) ++ le_bytes 4 (BLOCK - HDR)
              ++ le_bytes 4 Gen.EnvelopeTables.envelope_header_version)
             ++ (packed ++ [0; 0; 0; 0]) ++ repz 0 (BLOCK - HDR - len packed - 4))
      with ((MAGIC ++ repz 0 (field_off hdr_layout "size" - len MAGIC) ++ le_bytes 4 (BLOCK - HDR))
            ++ le_bytes 4 Gen.EnvelopeTables.envelope_header_version
            ++ ((packed ++ [0; 0; 0; 0]) ++ repz 0 (BLOCK - HDR - len packed - 4)))
      by (now rewrite <- !app_assoc).
    eapply get_uint_at; try reflexivity. vm_compute. split; [discriminate|reflexivity].
  - rewrite dropz_app_n by (now rewrite len_header_struct).
    rewrite <- !app_assoc. cbn [app].
    now apply attrs_roundtrip.
Qed.

(* header_repack_identity: re-serialising what was read from a packed header reproduces it byte for byte *)
Theorem header_repack_identity attrs hdr :
  wf_attrs attrs -> fits attrs ->
  pack_header attrs Gen.EnvelopeTables.envelope_header_version = Ok hdr ->
  len hdr = BLOCK /\
  exists attrs', read_attributes (dropz hdr HDR) = Ok attrs' /\
                 pack_header attrs' Gen.EnvelopeTables.envelope_header_version = Ok hdr.
Proof.
  intros Hwf Hfit Hh. destruct (pack_header_opens attrs _ hdr Hwf Hfit eq_refl Hh) as (Hl & _ & _ & Hr).
  split; [exact Hl|]. exists attrs. now split.
Qed.

(* ================================================================== the plaintext tail *)
Lemma len_crypto_footer p v : len (crypto_footer p v) = TAIL.
Proof.
  unfold crypto_footer. rewrite !len_app, !len_le_bytes.
  change (field_off cf_layout "padding") with 504. change (len CF_MAGIC) with 25.
  rewrite len_repz by lia. reflexivity.
Qed.

(* strip_exact: the padding and the footer block are removed exactly, for every payload and padding *)
Theorem strip_exact payload padbytes fill :
  len fill = STRIP - TAIL -> len padbytes < 2 ^ 32 ->
  strip (plaintext payload padbytes fill) = Ok payload.
Proof.
  intros Hf Hp. unfold strip, plaintext.
  pose proof (len_nonneg payload) as H0. pose proof (len_nonneg padbytes) as H1.
  set (cf := crypto_footer (len padbytes) 1).
  assert (Hcf : len cf = TAIL) by apply len_crypto_footer.
  assert (Hlen : len (payload ++ padbytes ++ fill ++ cf) = len payload + len padbytes + STRIP).
  { rewrite !len_app, Hf, Hcf. lia. }
  rewrite Hlen.
  replace (dropz (payload ++ padbytes ++ fill ++ cf) (len payload + len padbytes + STRIP - TAIL)) with cf.
  2:{ replace (payload ++ padbytes ++ fill ++ cf) with ((payload ++ padbytes ++ fill) ++ cf)
        by (now rewrite <- !app_assoc).
      symmetry. apply dropz_app_n. rewrite !len_app, Hf. lia. }
  assert (Hg : get_uint false cf_layout cf "padding" = Some (len padbytes)).
  { unfold cf, crypto_footer.
    replace (CF_MAGIC ++ repz 0 (field_off cf_layout "padding" - len CF_MAGIC) ++ le_bytes 4 (len padbytes)
             ++ le_bytes 4 1)
      with ((CF_MAGIC ++ repz 0 (field_off cf_layout "padding" - len CF_MAGIC)) ++ le_bytes 4 (len padbytes)
            ++ le_bytes 4 1) by (now rewrite <- !app_assoc).
    eapply get_uint_at; try reflexivity; try (change (256 ^ Z.of_nat 4) with (2 ^ 32); lia). }
  rewrite Hg. cbn [of_option bind].
  replace (len payload + len padbytes + STRIP - STRIP - len padbytes) with (len payload) by lia.
  now rewrite takez_app_exact.
Qed.

(* ================================================================== the chunked read loop *)
Lemma read_chunks_concat fuel :
  forall data, (List.length data < fuel)%nat ->
  exists cs, read_chunks fuel data = Ok cs /\ List.concat cs = data.
Proof.
  induction fuel as [|f IH]; intros data Hf; [lia|].
  destruct data as [|x r].
  - exists []. split; reflexivity.
  - cbn [read_chunks].
    assert (Hlt : (List.length (dropz (x :: r) CHUNK) < f)%nat).
    { rewrite dropz_skipn. rewrite skipn_length.
      assert (Hc : (1 <= Z.to_nat CHUNK)%nat) by (change CHUNK with 4194304; lia).
      cbn [List.length] in *. lia. }
    destruct (IH _ Hlt) as (cs & Hcs & Hcat). rewrite Hcs. cbn [bind].
    exists (takez (x :: r) CHUNK :: cs). split; [reflexivity|].
    cbn [List.concat]. rewrite Hcat. apply takez_dropz.
Qed.

Lemma read_chunks_no_fuel fuel data : (List.length data < fuel)%nat -> read_chunks fuel data <> Fuel.
Proof. intros H. destruct (read_chunks_concat fuel data H) as (cs & -> & _). discriminate. Qed.

(* ================================================================== the AEAD footer block *)
Lemma len_aead_footer tag : len tag <= 4056 -> len (aead_footer tag) = BLOCK.
Proof.
  intros H. pose proof (len_nonneg tag). unfold aead_footer. rewrite !len_app, !len_le_bytes.
  change (field_off aead_layout "data") with 32. change (field_off aead_layout "size") with 4088.
  change (len AEAD_MAGIC) with 23. rewrite !len_repz by lia. change BLOCK with 4096. lia.
Qed.

Lemma aead_footer_fields tag :
  len tag <= 4056 ->
  get_uint false aead_layout (aead_footer tag) "version" = Some Gen.EnvelopeTables.envelope_aead_footer_version /\
  get_uint false aead_layout (aead_footer tag) "size" = Some (len tag) /\
  get_bytes aead_layout (aead_footer tag) "data" = Some (tag ++ repz 0 (4056 - len tag)).
Proof.
  intros H. pose proof (len_nonneg tag) as H0. unfold aead_footer.
  change (field_off aead_layout "data") with 32. change (field_off aead_layout "size") with 4088.
  change (len AEAD_MAGIC) with 23. change (32 - 23) with 9. replace (4088 - 32 - len tag) with (4056 - len tag) by lia.
  set (ver := Gen.EnvelopeTables.envelope_aead_footer_version).
  set (z := repz 0 (4056 - len tag)).
  assert (Hz : len z = 4056 - len tag) by (apply len_repz; lia).
  split; [|split].
  - replace (AEAD_MAGIC ++ repz 0 9 ++ tag ++ z ++ le_bytes 4 (len tag) ++ le_bytes 4 ver)
      with ((AEAD_MAGIC ++ repz 0 9 ++ tag ++ z ++ le_bytes 4 (len tag)) ++ le_bytes 4 ver ++ [])
      by (rewrite app_nil_r; now rewrite <- !app_assoc).
    eapply (get_uint_at aead_layout "version" (mkf "version" 4092 4 4 1 KUInt 0 0)); try reflexivity.
    + rewrite !len_app, len_le_bytes, Hz. change (len AEAD_MAGIC) with 23. rewrite len_repz by lia. cbn [f_off]. lia.
    + vm_compute. split; [discriminate|reflexivity].
  - replace (AEAD_MAGIC ++ repz 0 9 ++ tag ++ z ++ le_bytes 4 (len tag) ++ le_bytes 4 ver)
      with ((AEAD_MAGIC ++ repz 0 9 ++ tag ++ z) ++ le_bytes 4 (len tag) ++ le_bytes 4 ver)
      by (now rewrite <- !app_assoc).
    eapply (get_uint_at aead_layout "size" (mkf "size" 4088 4 4 1 KUInt 0 0)); try reflexivity.
    + rewrite !len_app, Hz. change (len AEAD_MAGIC) with 23. rewrite len_repz by lia. cbn [f_off]. lia.
    + change (256 ^ Z.of_nat 4) with 4294967296. lia.
  - replace (AEAD_MAGIC ++ repz 0 9 ++ tag ++ z ++ le_bytes 4 (len tag) ++ le_bytes 4 ver)
      with ((AEAD_MAGIC ++ repz 0 9) ++ (tag ++ z) ++ le_bytes 4 (len tag) ++ le_bytes 4 ver)
      by (now rewrite <- !app_assoc).
    eapply (get_bytes_at aead_layout "data" (mkf "data" 32 4056 1 4056 KChar 0 0)); try reflexivity.
    rewrite len_app, Hz. cbn [f_size]. lia.
Qed.

(* ================================================================== opening a sealed file *)
Lemma required_names :
  Gen.EnvelopeTables.envelope_required_attributes = [N_keyInfo; N_cipherName; N_keyHash].
Proof. reflexivity. Qed.

Lemma env_open_sealed sha hdr attrs key iv ct tag :
  header_opens hdr attrs -> sealed_attrs sha attrs key iv -> len tag <= 4056 ->
  env_open (hdr ++ ct ++ aead_footer tag) =
    Ok (mk_env Gen.EnvelopeTables.envelope_header_version attrs CIPHER (VBytes (sha (CIPHER ++ key)))
               (Some (VBytes iv)) tag (len ct) hdr ct).
Proof.
  intros (Hl & Hm & Hv & Hr) ((ki & Hki) & (cn & Hcn & Hcnv) & (kh & Hkh & Hkhv) & (ia & Hia & Hiav)) Ht.
  pose proof (len_nonneg ct) as H0. pose proof (len_nonneg tag) as H1.
  set (ftr := aead_footer tag). set (file := hdr ++ ct ++ ftr).
  assert (Hfl : len ftr = BLOCK) by (now apply len_aead_footer).
  assert (Hlen : len file = 2 * BLOCK + len ct) by (unfold file; rewrite !len_app, Hl, Hfl; lia).
  assert (Hhb : takez file BLOCK = hdr) by (unfold file; now apply takez_app_n).
  assert (Hfb : dropz file (len file - BLOCK) = ftr).
  { unfold file. replace (hdr ++ ct ++ ftr) with ((hdr ++ ct) ++ ftr) by (now rewrite <- app_assoc).
    apply dropz_app_n. rewrite !len_app, Hl, Hfl. lia. }
  assert (Hdata : takez (dropz file BLOCK) (len file - 2 * BLOCK) = ct).
  { rewrite Hlen. unfold file. rewrite dropz_app_n by (now rewrite Hl).
    apply takez_app_n. lia. }
  destruct (aead_footer_fields tag Ht) as (Hfv & Hfs & Hfd). fold ftr in Hfv, Hfs, Hfd.
  unfold env_open. cbv zeta. rewrite Hfb, Hdata, Hhb, Hl.
  change (BLOCK <? HDR) with false. cbv iota.
  rewrite Hm, beq_refl. cbn [negb]. rewrite Hv. cbn [of_option bind].
  rewrite Z.eqb_refl. cbn [negb]. rewrite Hr. cbn [bind].
  rewrite required_names. unfold has_all. cbn [forallb]. rewrite Hki, Hcn, Hkh. cbn [andb negb].
  cbn [of_option bind]. rewrite Hcnv, beq_refl. cbn [negb].
  rewrite Hlen. destruct (Z.ltb_spec (2 * BLOCK + len ct) BLOCK) as [Hc|_]; [change BLOCK with 4096 in Hc; lia|].
  rewrite Hfv, Hfs, Hfd. cbn [of_option bind]. rewrite Z.eqb_refl. cbn [negb].
  rewrite Hia, Hkhv, Hiav. rewrite takez_app_exact.
  replace (2 * BLOCK + len ct - 2 * BLOCK) with (len ct) by lia. reflexivity.
Qed.

(* ================================================================== decrypt (seal ...) = payload *)
Section RoundTrip.
  Variable sha : list Z -> list Z.
  Variable gcm_enc gcm_dec : list Z -> list Z -> list Z -> list Z.
  Variable gcm_tag : list Z -> list Z -> list Z -> list Z -> list Z.
  Variable gcm_ok : list Z -> list Z -> list Z -> list Z -> list Z -> bool.
  Hypothesis dec_enc : forall k iv p, gcm_dec k iv (gcm_enc k iv p) = p.
  Hypothesis ok_tag : forall k iv a c, gcm_ok k iv a c (gcm_tag k iv a c) = true.
  Hypothesis tag_len : forall k iv a c, len (gcm_tag k iv a c) <= 4056.

  Lemma decrypt_roundtrip_hdr hdr attrs key iv aad payload padbytes fill :
    header_opens hdr attrs -> sealed_attrs sha attrs key iv ->
    key_len_ok key = true -> iv <> [] ->
    len fill = STRIP - TAIL -> len padbytes < 2 ^ 32 ->
    open_decrypt sha gcm_dec gcm_ok true (seal gcm_enc gcm_tag hdr key iv aad payload padbytes fill) key aad
    = Ok payload.
  Proof.
    intros Ho Hs Hk Hiv Hf Hp. unfold open_decrypt, seal.
    rewrite (env_open_sealed sha hdr attrs key iv _ _ Ho Hs (tag_len _ _ _ _)). cbn [bind].
    unfold decrypt, sha_input, iv_of, aad_of. cbn [e_cipher e_key_hash e_iv e_size e_data e_hdr e_digest].
    cbn [hash_matches]. rewrite beq_refl. cbn [negb].
    destruct iv as [|b r]; [contradiction|]. rewrite Hk. cbn [negb].
    set (ct := gcm_enc key (b :: r) (plaintext payload padbytes fill)).
    destruct (Z.ltb_spec (len ct) 0) as [Hc|_]; [pose proof (len_nonneg ct); lia|].
    destruct (read_chunks_concat (S (List.length ct)) ct ltac:(lia)) as (cs & Hcs & Hcat).
    rewrite Hcs. cbn [bind]. rewrite Hcat. unfold ct at 1. rewrite dec_enc.
    rewrite (strip_exact payload padbytes fill Hf Hp). cbn [bind].
    rewrite ok_tag. reflexivity.
  Qed.

  (* decrypt_roundtrip for the header the packer writes: every well-formed attribute set that fits the
     block (all 12 types, any order and count), every payload, padding, IV and associated data *)
  Theorem decrypt_roundtrip attrs key iv aad payload padbytes fill :
    wf_attrs attrs -> fits attrs -> sealed_attrs sha attrs key iv ->
    key_len_ok key = true -> iv <> [] ->
    len fill = STRIP - TAIL -> len padbytes < 2 ^ 32 ->
    exists hdr, pack_header attrs Gen.EnvelopeTables.envelope_header_version = Ok hdr /\
      open_decrypt sha gcm_dec gcm_ok true (seal gcm_enc gcm_tag hdr key iv aad payload padbytes fill) key aad
      = Ok payload.
  Proof.
    intros Hwf Hfit Hs Hk Hiv Hf Hp.
    destruct Hfit as (packed & Hpk & Hsz).
    eexists. split; [apply (pack_header_shape attrs _ packed Hpk Hsz)|].
    apply decrypt_roundtrip_hdr with (attrs := attrs); try assumption.
    eapply pack_header_opens; [exact Hwf | exists packed; split; eassumption | reflexivity |].
    apply (pack_header_shape attrs _ packed Hpk Hsz).
  Qed.
End RoundTrip.

(* ================================================================== what an accepted decryption implies *)
Lemma env_open_inv file e :
  env_open file = Ok e ->
  e_hdr e = stored_header file /\ e_data e = stored_ct file /\ e_size e = len file - 2 * BLOCK /\
  e_cipher e = CIPHER /\ stored_tag file = Some (e_digest e) /\ BLOCK <= len file /\
  read_attributes (dropz (stored_header file) HDR) = Ok (e_attrs e) /\
  (exists kh, dict_get (e_attrs e) N_keyHash = Some kh /\ e_key_hash e = a_val kh) /\
  e_iv e = option_map a_val (dict_get (e_attrs e) N_iv).
Proof.
  intros H. unfold env_open in H. cbv zeta in H.
  destruct (len (takez file BLOCK) <? HDR); [discriminate|].
  destruct (negb (beq (takez (takez file BLOCK) (len MAGIC)) MAGIC)); [discriminate|].
  destruct (get_uint false hdr_layout (takez file BLOCK) "version") as [version|]; cbn [of_option bind] in H; [|discriminate].
  destruct (negb (version =? Gen.EnvelopeTables.envelope_header_version)); [discriminate|].
  destruct (read_attributes (dropz (takez file BLOCK) HDR)) as [attrs| |] eqn:Hr; cbn [bind] in H; try discriminate.
  destruct (negb (has_all attrs Gen.EnvelopeTables.envelope_required_attributes)); [discriminate|].
  destruct (dict_get attrs N_cipherName) as [cn|]; cbn [of_option bind] in H; [|discriminate].
  destruct (dict_get attrs N_keyHash) as [kh|] eqn:Hkh; cbn [of_option bind] in H; [|discriminate].
  destruct (a_val cn) as [| | |c|]; try discriminate.
  destruct (negb (beq c CIPHER)) eqn:Hc; [discriminate|].
  destruct (Z.ltb_spec (len file) BLOCK) as [|Hlen]; [discriminate|].
  destruct (get_uint false aead_layout (dropz file (len file - BLOCK)) "version") as [fver|] eqn:Hfv;
    cbn [of_option bind] in H; [|discriminate].
  destruct (get_uint false aead_layout (dropz file (len file - BLOCK)) "size") as [fsize|] eqn:Hfs;
    cbn [of_option bind] in H; [|discriminate].
  destruct (get_bytes aead_layout (dropz file (len file - BLOCK)) "data") as [fdata|] eqn:Hfd;
    cbn [of_option bind] in H; [|discriminate].
  destruct (negb (fver =? Gen.EnvelopeTables.envelope_aead_footer_version)); [discriminate|].
  injection H as <-. cbn [e_hdr e_data e_size e_cipher e_digest e_attrs e_key_hash e_iv].
  apply negb_false_iff, beq_eq in Hc. subst c.
  unfold stored_header, stored_ct, stored_tag. cbv zeta. rewrite Hfd, Hfs.
  split; [reflexivity|]. split; [reflexivity|]. split; [reflexivity|]. split; [reflexivity|].
  split; [reflexivity|]. split; [assumption|]. split; [assumption|]. split.
  - exists kh. now split.
  - destruct (dict_get attrs N_iv); reflexivity.
Qed.

(* decrypt_sound: plaintext is returned only if the key hash matched and GCM verification accepted exactly
   (stored header block ‖ aad, stored ciphertext, stored tag); the bytes returned are the stripped decryption *)
Theorem decrypt_sound sha gcm_dec gcm_ok file key aad p :
  open_decrypt sha gcm_dec gcm_ok true file key aad = Ok p ->
  exists e iv tag,
    env_open file = Ok e /\ iv_of e = Some iv /\ stored_tag file = Some tag /\
    hash_matches (sha (CIPHER ++ key)) (e_key_hash e) = true /\
    gcm_ok key iv (stored_header file ++ aad) (stored_ct file) tag = true /\
    strip (gcm_dec key iv (stored_ct file)) = Ok p.
Proof.
  unfold open_decrypt. destruct (env_open file) as [e| |] eqn:He; cbn [bind]; try discriminate.
  destruct (env_open_inv file e He) as (Hh & Hd & _ & Hc & Ht & _).
  unfold decrypt, sha_input, aad_of. rewrite Hc, Hh.
  destruct (hash_matches (sha (CIPHER ++ key)) (e_key_hash e)) eqn:Hm; cbn [negb]; [|discriminate].
  destruct (iv_of e) as [iv|] eqn:Hiv; [|discriminate].
  destruct (negb (key_len_ok key)); [discriminate|].
  destruct (e_size e <? 0); [discriminate|].
  destruct (read_chunks_concat (S (List.length (e_data e))) (e_data e) ltac:(lia)) as (cs & Hcs & Hcat).
  rewrite Hcs. cbn [bind]. rewrite Hcat, Hd.
  destruct (strip (gcm_dec key iv (stored_ct file))) as [out| |] eqn:Hs; cbn [bind]; try discriminate.
  cbn [andb]. destruct (gcm_ok key iv (stored_header file ++ aad) (stored_ct file) (e_digest e)) eqn:Hok;
    cbn [negb]; [|discriminate].
  intros [= <-]. exists e, iv, (e_digest e). repeat split; assumption.
Qed.

(* ================================================================== progress: the model never runs out of fuel *)
Lemma read_value_no_fuel ty buf : read_value ty buf <> Fuel.
Proof.
  unfold read_value. destruct (assoc_z type_map ty) as [[cls w]|]; [|discriminate].
  destruct (ty =? T_String).
  { destruct (cstring buf) as [[s r]|]; [destruct (utf8_valid s)|]; discriminate. }
  destruct (ty =? T_Bytes).
  { destruct (take 8 buf) as [[lb r]|]; [destruct (le_uint lb >? 9223372036854775807)|]; discriminate. }
  destruct (cls =? 0); [discriminate|]. destruct (take w buf) as [[vb r]|]; discriminate.
Qed.

Lemma cstring_length buf s r : cstring buf = Some (s, r) -> (List.length r < List.length buf)%nat.
Proof.
  revert s r; induction buf as [|b buf IH]; intros s r; cbn [cstring]; [discriminate|].
  destruct (b =? 0).
  - intros [= <- <-]. cbn [List.length]. lia.
  - destruct (cstring buf) as [[s' r']|]; [|discriminate]. intros [= <- <-].
    specialize (IH _ _ eq_refl). cbn [List.length]. lia.
Qed.

Lemma take_length n buf x r : take n buf = Some (x, r) -> (List.length r <= List.length buf)%nat.
Proof.
  unfold take. destruct (len buf <? n); [discriminate|]. intros [= <- <-].
  rewrite dropz_skipn, skipn_length. lia.
Qed.

Lemma read_value_length ty buf v r :
  read_value ty buf = Ok (Some (v, r)) -> (List.length r <= List.length buf)%nat.
Proof.
  unfold read_value. destruct (assoc_z type_map ty) as [[cls w]|]; [|discriminate].
  destruct (ty =? T_String).
  { destruct (cstring buf) as [[s r']|] eqn:Hc; [|discriminate]. destruct (utf8_valid s); [|discriminate].
    intros [= <- <-]. apply cstring_length in Hc. lia. }
  destruct (ty =? T_Bytes).
  { destruct (take 8 buf) as [[lb r']|] eqn:Ht; [|discriminate].
    destruct (le_uint lb >? 9223372036854775807); [discriminate|]. intros [= <- <-].
    apply take_length in Ht. rewrite dropz_skipn, skipn_length. lia. }
  destruct (cls =? 0); [discriminate|]. destruct (take w buf) as [[vb r']|] eqn:Ht; [|discriminate].
  intros [= <- <-]. now apply take_length in Ht.
Qed.

Lemma read_attrs_no_fuel fuel : forall buf acc, (List.length buf < fuel)%nat -> read_attrs fuel buf acc <> Fuel.
Proof.
  induction fuel as [|f IH]; intros buf acc Hf; [lia|]. cbn [read_attrs].
  destruct buf as [|ty r1]; [discriminate|]. destruct (ty =? T_Invalid); [discriminate|].
  destruct r1 as [|flag r2]; [discriminate|].
  destruct (cstring (dropz r2 2)) as [[name r4]|] eqn:Hc; [|discriminate].
  destruct (negb (utf8_valid name)); [discriminate|].
  destruct (read_value ty r4) as [[[v r5]|]| |] eqn:Hv; try discriminate.
  - apply IH. apply cstring_length in Hc. apply read_value_length in Hv.
    rewrite dropz_skipn, skipn_length in Hc. cbn [List.length] in Hf. lia.
  - now apply read_value_no_fuel in Hv.
Qed.

Theorem env_open_no_fuel file : env_open file <> Fuel.
Proof.
  unfold env_open. cbv zeta.
  destruct (len (takez file BLOCK) <? HDR); [discriminate|].
  destruct (negb (beq (takez (takez file BLOCK) (len MAGIC)) MAGIC)); [discriminate|].
  destruct (get_uint false hdr_layout (takez file BLOCK) "version") as [version|]; cbn [of_option bind]; [|discriminate].
  destruct (negb (version =? Gen.EnvelopeTables.envelope_header_version)); [discriminate|].
  destruct (read_attributes (dropz (takez file BLOCK) HDR)) as [attrs| |] eqn:Hr; cbn [bind]; try discriminate.
  2:{ unfold read_attributes in Hr. apply read_attrs_no_fuel in Hr; [contradiction|lia]. }
  destruct (negb (has_all attrs Gen.EnvelopeTables.envelope_required_attributes)); [discriminate|].
  destruct (dict_get attrs N_cipherName) as [cn|]; cbn [of_option bind]; [|discriminate].
  destruct (dict_get attrs N_keyHash) as [kh|]; cbn [of_option bind]; [|discriminate].
  destruct (a_val cn) as [| | |c|]; try discriminate.
  destruct (negb (beq c CIPHER)); [discriminate|].
  destruct (len file <? BLOCK); [discriminate|].
  destruct (get_uint false aead_layout (dropz file (len file - BLOCK)) "version"); cbn [of_option bind]; [|discriminate].
  destruct (get_uint false aead_layout (dropz file (len file - BLOCK)) "size"); cbn [of_option bind]; [|discriminate].
  destruct (get_bytes aead_layout (dropz file (len file - BLOCK)) "data"); cbn [of_option bind]; [|discriminate].
  destruct (negb (_ =? _)); discriminate.
Qed.

Theorem decrypt_no_fuel sha gcm_dec gcm_ok verify e key aad : decrypt sha gcm_dec gcm_ok verify e key aad <> Fuel.
Proof.
  unfold decrypt. destruct (negb (hash_matches _ _)); [discriminate|].
  destruct (iv_of e); [|discriminate]. destruct (negb (key_len_ok key)); [discriminate|].
  destruct (e_size e <? 0); [discriminate|].
  destruct (read_chunks_concat (S (List.length (e_data e))) (e_data e) ltac:(lia)) as (cs & -> & _). cbn [bind].
  unfold strip. destruct (get_uint _ _ _ _); cbn [of_option bind]; [|discriminate].
  destruct (_ && _); discriminate.
Qed.

Theorem open_decrypt_no_fuel sha gcm_dec gcm_ok verify file key aad :
  open_decrypt sha gcm_dec gcm_ok verify file key aad <> Fuel.
Proof.
  unfold open_decrypt. destruct (env_open file) eqn:He; cbn [bind]; try discriminate.
  - apply decrypt_no_fuel.
  - now apply env_open_no_fuel in He.
Qed.

(* ================================================================== the command-line tool *)
Theorem cli_writes_exactly sha gcm_dec gcm_ok file key aad :
  match open_decrypt sha gcm_dec gcm_ok true file key aad with
  | Ok p => cli sha gcm_dec gcm_ok file (Ok key) aad = (Ok tt, Written p)
  | _ => fst (cli sha gcm_dec gcm_ok file (Ok key) aad) <> Ok tt /\
         (snd (cli sha gcm_dec gcm_ok file (Ok key) aad) = Absent \/
          snd (cli sha gcm_dec gcm_ok file (Ok key) aad) = Written [])
  end.
Proof.
  unfold open_decrypt, cli. destruct (env_open file) as [e| |]; cbn [bind].
  - destruct (decrypt sha gcm_dec gcm_ok true e key aad); cbn [fst snd];
      [reflexivity | split; [discriminate|now right] | split; [discriminate|now left]].
  - cbn [fst snd]. split; [discriminate|now left].
  - cbn [fst snd]. split; [discriminate|now left].
Qed.

Theorem cli_no_key_no_output sha gcm_dec gcm_ok file aad :
  cli sha gcm_dec gcm_ok file Err aad = (Err, Absent) \/ cli sha gcm_dec gcm_ok file Err aad = (Fuel, Absent).
Proof. unfold cli. destruct (env_open file); auto. Qed.

(* ================================================================== concrete objects (non-vacuity, refutation) *)
Definition ex_key : list Z := repz 7 32.
Definition ex_iv : list Z := [1; 2; 3; 4; 5; 6; 7; 8; 9; 10; 11; 12].
Definition ex_sha (x : list Z) : list Z := takez (x ++ repz 0 32) 32.    (* any function will do *)
Definition nm (k : Z) : list Z := [120; 46; 65 + k].                     (* "x.A", "x.B", ... *)

(* the four attributes a writer stores + one attribute of every one of the 12 types, required ones not first *)
Definition ex_attrs : list attr := [
  mk_attr (nm 1) 1 0 (VInt 255); mk_attr (nm 2) 2 1 (VInt 65535);
  mk_attr N_keyHash 12 0 (VBytes (ex_sha (CIPHER ++ ex_key)));
  mk_attr (nm 3) 3 2 (VInt 4294967295); mk_attr (nm 4) 4 0 (VInt 18446744073709551615);
  mk_attr N_iv 12 0 (VBytes ex_iv);
  mk_attr (nm 5) 5 128 (VInt (-128)); mk_attr (nm 6) 6 255 (VInt (-1)); mk_attr (nm 7) 7 0 (VInt (-2147483648));
  mk_attr (nm 8) 8 0 (VInt 9223372036854775807);
  mk_attr N_cipherName 11 0 (VStr CIPHER);
  mk_attr (nm 9) 9 0 (VF32 2143289345) (* a quiet NaN with payload *); mk_attr (nm 10) 10 0 (VF64 9218868437227405313) (* a signalling NaN *);
  mk_attr [195; 169] 11 0 (VStr [230; 151; 165; 0 + 230; 156; 172]) (* UTF-8 name and value *);
  mk_attr (nm 12) 12 7 (VBytes [0; 0; 255]);
  mk_attr N_keyInfo 11 0 (VStr [55; 101])
].

Lemma nonul_dec s : forallb (fun c => negb (c =? 0)) s = true -> nonul s.
Proof.
  intros H. apply Forall_forall. intros c Hc. rewrite forallb_forall in H. specialize (H c Hc).
  apply negb_true_iff, Z.eqb_neq in H. exact H.
Qed.

Fixpoint nodupb (l : list (list Z)) : bool :=
  match l with [] => true | x :: r => negb (existsb (beq x) r) && nodupb r end.

Lemma nodupb_sound l : nodupb l = true -> NoDup l.
Proof.
  induction l as [|x r IH]; cbn [nodupb]; intros H; constructor.
  - apply andb_true_iff in H as [H _]. apply negb_true_iff in H. intros Hin.
    assert (existsb (beq x) r = true) by (apply existsb_exists; exists x; split; [exact Hin|apply beq_refl]).
    congruence.
  - apply IH. now apply andb_true_iff in H as [_ H].
Qed.

Ltac wf_name := split; [apply nonul_dec; reflexivity | split; [reflexivity | cbn [wf_val a_type a_val]]].
Ltac wf_int := wf_name; cbn; lia.
Ltac wf_bytes := wf_name; split; [reflexivity | vm_compute; reflexivity].
Ltac wf_str := wf_name; split; [reflexivity | split; [apply nonul_dec; reflexivity | reflexivity]].
Ltac wf_f32 := wf_name; split; [reflexivity | split; [cbn; lia | reflexivity]].
Ltac wf_f64 := wf_name; split; [reflexivity | cbn; lia].

Lemma ex_attrs_wf : wf_attrs ex_attrs.
Proof.
  split.
  - unfold ex_attrs.
    apply Forall_cons; [wf_int|]. apply Forall_cons; [wf_int|]. apply Forall_cons; [wf_bytes|].
    apply Forall_cons; [wf_int|]. apply Forall_cons; [wf_int|]. apply Forall_cons; [wf_bytes|].
    apply Forall_cons; [wf_int|]. apply Forall_cons; [wf_int|]. apply Forall_cons; [wf_int|].
    apply Forall_cons; [wf_int|]. apply Forall_cons; [wf_str|]. apply Forall_cons; [wf_f32|].
    apply Forall_cons; [wf_f64|]. apply Forall_cons; [wf_str|]. apply Forall_cons; [wf_bytes|].
    apply Forall_cons; [wf_str|]. apply Forall_nil.
  - apply nodupb_sound. reflexivity.
Qed.

Lemma ex_attrs_fits : fits ex_attrs.
Proof.
  destruct (pack_attr_list ex_attrs) as [p| |] eqn:E; try (vm_compute in E; discriminate).
  exists p. split; [exact E|]. vm_compute in E. injection E as <-. vm_compute. discriminate.
Qed.

Lemma ex_attrs_sealed : sealed_attrs ex_sha ex_attrs ex_key ex_iv.
Proof. repeat split; eexists; split; reflexivity || (vm_compute; reflexivity). Qed.

(* a stored header holding a Float attribute with a signalling-NaN pattern: the reader opens it, but
   _pack_envelope_header does NOT reproduce it (bit 22 gets set) — why the stored block, not its
   re-serialisation, has to be the associated data *)
Definition ex_snan_attr_bytes : list Z := [9; 0; 0; 0; 102; 0; 1; 0; 128; 127].   (* Float "f" = 0x7F800001 *)
Definition ex_snan_hdr : list Z :=
  let body := ex_snan_attr_bytes ++ match pack_attrs ex_attrs with Ok p => p | _ => [] end in
  header_struct (BLOCK - HDR) 2 ++ body ++ repz 0 (BLOCK - HDR - len body).

Lemma ex_snan_repack_differs :
  exists attrs hdr', header_opens ex_snan_hdr attrs /\ pack_header attrs 2 = Ok hdr' /\
                     len hdr' = len ex_snan_hdr /\ beq hdr' ex_snan_hdr = false.
Proof.
  destruct (read_attributes (dropz ex_snan_hdr HDR)) as [attrs| |] eqn:E; try (vm_compute in E; discriminate).
  destruct (pack_header attrs 2) as [h| |] eqn:P;
    try (vm_compute in E; injection E as <-; vm_compute in P; discriminate).
  exists attrs, h. split; [|split; [exact P|]].
  - unfold header_opens. split; [vm_compute; reflexivity|]. split; [vm_compute; reflexivity|].
    split; [vm_compute; reflexivity|exact E].
  - vm_compute in E. injection E as <-. vm_compute in P. injection P as <-. split; vm_compute; reflexivity.
Qed.

(* ================================================================== every alteration is refused, for an ideal MAC / hash
   (the hypotheses are idealisations stated in the theorem: a tag determines what was authenticated, the
   hash is injective; nothing of the kind is assumed anywhere else) *)
Lemma app_eq_len (a a' b b' : list Z) : len a = len a' -> a ++ b = a' ++ b' -> a = a' /\ b = b'.
Proof.
  revert a'; induction a as [|x a IH]; intros [|y a'] Hl H; cbn [app] in *.
  - now split.
  - rewrite len_nil, len_cons in Hl. pose proof (len_nonneg a'). lia.
  - rewrite len_nil, len_cons in Hl. pose proof (len_nonneg a). lia.
  - injection H as -> H. rewrite !len_cons in Hl. destruct (IH a' ltac:(lia) H) as [-> ->]. now split.
Qed.

Section Ideal.
  Variable sha : list Z -> list Z.
  Variable gcm_dec : list Z -> list Z -> list Z -> list Z.
  Variable gcm_tag : list Z -> list Z -> list Z -> list Z -> list Z.
  Variable gcm_ok : list Z -> list Z -> list Z -> list Z -> list Z -> bool.
  Hypothesis mac_sound : forall k iv a c t, gcm_ok k iv a c t = true -> t = gcm_tag k iv a c.
  Hypothesis mac_inj : forall k iv a c k' iv' a' c',
    gcm_tag k iv a c = gcm_tag k' iv' a' c' -> k = k' /\ iv = iv' /\ a = a' /\ c = c'.
  Hypothesis sha_inj : forall x y, sha x = sha y -> x = y.

  Theorem tamper_rejected hdr attrs key iv aad ct file' key' aad' p :
    header_opens hdr attrs -> sealed_attrs sha attrs key iv -> iv <> [] ->
    open_decrypt sha gcm_dec gcm_ok true file' key' aad' = Ok p ->
    let tag := gcm_tag key iv (hdr ++ aad) ct in
    (* the stored tag is the original one: then header block, ciphertext, AAD and key are the original ones *)
    (stored_tag file' = Some tag ->
       stored_header file' = hdr /\ stored_ct file' = ct /\ aad' = aad /\ key' = key) /\
    (* the header block is the original one: then the key is, and if ciphertext and AAD are too, so is the tag *)
    (stored_header file' = hdr ->
       key' = key /\ (stored_ct file' = ct -> aad' = aad -> stored_tag file' = Some tag)).
  Proof.
    intros (Hl & _ & _ & Hr) (_ & _ & (kh & Hkh & Hkhv) & (ia & Hia & Hiav)) Hiv Hd tag.
    destruct (decrypt_sound _ _ _ _ _ _ _ Hd) as (e & iv' & tag' & He & Hiv' & Ht' & Hm & Hok & _).
    destruct (env_open_inv _ _ He) as (_ & _ & _ & _ & _ & Hlen & Hra & (kh' & Hkh' & Hkhv') & Heiv).
    apply mac_sound in Hok.
    assert (Hsl : len (stored_header file') = len hdr).
    { rewrite Hl. unfold stored_header. apply len_takez. change BLOCK with 4096 in *. lia. }
    split.
    - intros Ht. rewrite Ht in Ht'. injection Ht' as <-. unfold tag in Hok.
      apply mac_inj in Hok as (Hk & _ & Ha & Hc).
      symmetry in Hsl. destruct (app_eq_len _ _ _ _ Hsl Ha) as [H1 H2]. repeat split; congruence.
    - intros Hh. rewrite Hh, Hr in Hra. injection Hra as Hat. rewrite <- Hat in Hkh', Heiv.
      rewrite Hkh in Hkh'. injection Hkh' as <-. rewrite Hkhv', Hkhv in Hm. cbn [hash_matches] in Hm.
      apply beq_eq, sha_inj, app_inv_head in Hm. split; [exact Hm|].
      intros Hc Ha. subst key' aad'. rewrite Hia in Heiv. cbn [option_map] in Heiv. rewrite Hiav in Heiv.
      unfold iv_of in Hiv'. rewrite Heiv in Hiv'. destruct iv as [|b r]; [contradiction|]. injection Hiv' as <-.
      rewrite Ht'. f_equal. rewrite Hok, Hh, Hc. reflexivity.
  Qed.
End Ideal.
