(* Proofs/MetaText.v — the executable text codecs of Model/MetaCodec.v satisfy the round-trip
   hypotheses under which the C14 theorems are stated (so those hypotheses are not vacuous):
   UTF-16-LE and UTF-8 decode (encode s) = s for every string of Unicode scalar values. *)
From Coq Require Import ZArith List Bool Lia.
From DH Require Import Base.Plan Model.MetaCodec.
Import ListNotations.
Open Scope list_scope.
Open Scope Z_scope.

Ltac zdm := Z.div_mod_to_equations; lia.

Lemma scalar_range c : scalar c = true -> (0 <= c < 55296 \/ 57344 <= c < 1114112).
Proof. unfold scalar. intros H. apply orb_prop in H as [H|H]; apply andb_prop in H as [H1 H2]; lia. Qed.

(* ---------- UTF-16-LE ---------- *)
Definition units_of (c : Z) : list Z :=
  if c <? 65536 then [c] else [55296 + (c - 65536) / 1024; 56320 + (c - 65536) mod 1024].

Lemma unit_bytes u r : 0 <= u < 65536 ->
  utf16_units (u mod 256 :: u / 256 :: r) = option_map (cons u) (utf16_units r).
Proof. intros H. cbn [utf16_units]. replace (u mod 256 + 256 * (u / 256)) with u by zdm. reflexivity. Qed.

Lemma utf16_units_encode s :
  Forall (fun c => scalar c = true) s -> utf16_units (utf16le_encode s) = Some (flat_map units_of s).
Proof.
  induction 1 as [|c s Hc Hs IH]; [reflexivity|].
  apply scalar_range in Hc. unfold utf16le_encode in *. cbn [flat_map].
  set (t := flat_map utf16_enc1 s) in *. set (u := flat_map units_of s) in *. unfold utf16_enc1, units_of.
  destruct (Z.ltb_spec c 65536) as [Hlt|Hge].
  - cbn [app]. rewrite unit_bytes by lia. rewrite IH. reflexivity.
  - cbn [app]. cbv zeta.
    rewrite unit_bytes by zdm. rewrite unit_bytes by zdm. rewrite IH. reflexivity.
Qed.

Lemma utf16_join_units s :
  Forall (fun c => scalar c = true) s -> utf16_join (flat_map units_of s) = Some s.
Proof.
  induction 1 as [|c s Hc Hs IH]; [reflexivity|].
  apply scalar_range in Hc. cbn [flat_map]. set (u := flat_map units_of s) in *. unfold units_of.
  destruct (Z.ltb_spec c 65536) as [Hlt|Hge]; cbn [app utf16_join].
  - replace ((c <? 55296) || (57344 <=? c)) with true
      by (symmetry; apply orb_true_iff; destruct Hc; [left; apply Z.ltb_lt|right; apply Z.leb_le]; lia).
    rewrite IH. reflexivity.
  - set (h := 55296 + (c - 65536) / 1024). set (l := 56320 + (c - 65536) mod 1024).
    assert (Hh : 55296 <= h < 56320) by (unfold h; zdm).
    assert (Hl : 56320 <= l < 57344) by (unfold l; zdm).
    replace ((h <? 55296) || (57344 <=? h)) with false
      by (symmetry; apply orb_false_iff; split; [apply Z.ltb_ge|apply Z.leb_gt]; lia).
    replace (h <? 56320) with true by (symmetry; apply Z.ltb_lt; lia).
    replace ((56320 <=? l) && (l <? 57344)) with true
      by (symmetry; apply andb_true_iff; split; [apply Z.leb_le|apply Z.ltb_lt]; lia).
    rewrite IH. cbn [option_map]. f_equal. f_equal. unfold h, l. zdm.
Qed.

Theorem utf16le_roundtrip s :
  Forall (fun c => scalar c = true) s -> utf16le_decode (utf16le_encode s) = Some s.
Proof.
  intros H. unfold utf16le_decode. rewrite (utf16_units_encode s H). now apply utf16_join_units.
Qed.

(* ---------- UTF-8 ---------- *)
Lemma utf8_step c r :
  scalar c = true -> utf8_decode (utf8_enc1 c ++ r) = option_map (cons c) (utf8_decode r).
Proof.
  intros Hc. apply scalar_range in Hc. unfold utf8_enc1.
  destruct (Z.ltb_spec c 128) as [H1|H1].
  - cbn [app utf8_decode]. replace (c <? 128) with true by (symmetry; apply Z.ltb_lt; lia). reflexivity.
  - destruct (Z.ltb_spec c 2048) as [H2|H2].
    + cbn [app utf8_decode]. set (b0 := 192 + c / 64). set (b1 := 128 + c mod 64).
      assert (194 <= b0 < 224) by (unfold b0; zdm). assert (128 <= b1 < 192) by (unfold b1; zdm).
      replace (b0 <? 128) with false by (symmetry; apply Z.ltb_ge; lia).
      replace (b0 <? 194) with false by (symmetry; apply Z.ltb_ge; lia).
      replace (b0 <? 224) with true by (symmetry; apply Z.ltb_lt; lia).
      unfold cont. replace ((128 <=? b1) && (b1 <? 192)) with true
        by (symmetry; apply andb_true_iff; split; [apply Z.leb_le|apply Z.ltb_lt]; lia).
      replace ((b0 - 192) * 64 + (b1 - 128)) with c by (unfold b0, b1; zdm). reflexivity.
    + destruct (Z.ltb_spec c 65536) as [H3|H3].
      * cbn [app utf8_decode].
        set (b0 := 224 + c / 4096). set (b1 := 128 + (c / 64) mod 64). set (b2 := 128 + c mod 64).
        assert (224 <= b0 < 240) by (unfold b0; zdm).
        assert (128 <= b1 < 192) by (unfold b1; zdm). assert (128 <= b2 < 192) by (unfold b2; zdm).
        replace (b0 <? 128) with false by (symmetry; apply Z.ltb_ge; lia).
        replace (b0 <? 194) with false by (symmetry; apply Z.ltb_ge; lia).
        replace (b0 <? 224) with false by (symmetry; apply Z.ltb_ge; lia).
        replace (b0 <? 240) with true by (symmetry; apply Z.ltb_lt; lia).
        assert (Hlo : (if b0 =? 224 then 160 else 128) <= b1).
        { destruct (Z.eqb_spec b0 224) as [E|E]; [|lia]. unfold b0, b1 in *. zdm. }
        assert (Hhi : b1 < (if b0 =? 237 then 160 else 192)).
        { destruct (Z.eqb_spec b0 237) as [E|E]; [|lia]. unfold b0, b1 in *. destruct Hc; zdm. }
        replace ((if b0 =? 224 then 160 else 128) <=? b1) with true by (symmetry; apply Z.leb_le; exact Hlo).
        replace (b1 <? (if b0 =? 237 then 160 else 192)) with true by (symmetry; apply Z.ltb_lt; exact Hhi).
        unfold cont. replace ((128 <=? b2) && (b2 <? 192)) with true
          by (symmetry; apply andb_true_iff; split; [apply Z.leb_le|apply Z.ltb_lt]; lia).
        cbn [andb].
        replace ((b0 - 224) * 4096 + (b1 - 128) * 64 + (b2 - 128)) with c by (unfold b0, b1, b2; zdm).
        reflexivity.
      * cbn [app utf8_decode].
        set (b0 := 240 + c / 262144). set (b1 := 128 + (c / 4096) mod 64).
        set (b2 := 128 + (c / 64) mod 64). set (b3 := 128 + c mod 64).
        assert (240 <= b0 < 245) by (unfold b0; zdm).
        assert (128 <= b1 < 192) by (unfold b1; zdm). assert (128 <= b2 < 192) by (unfold b2; zdm).
        assert (128 <= b3 < 192) by (unfold b3; zdm).
        replace (b0 <? 128) with false by (symmetry; apply Z.ltb_ge; lia).
        replace (b0 <? 194) with false by (symmetry; apply Z.ltb_ge; lia).
        replace (b0 <? 224) with false by (symmetry; apply Z.ltb_ge; lia).
        replace (b0 <? 240) with false by (symmetry; apply Z.ltb_ge; lia).
        replace (b0 <? 245) with true by (symmetry; apply Z.ltb_lt; lia).
        assert (Hlo : (if b0 =? 240 then 144 else 128) <= b1).
        { destruct (Z.eqb_spec b0 240) as [E|E]; [|lia]. unfold b0, b1 in *. zdm. }
        assert (Hhi : b1 < (if b0 =? 244 then 144 else 192)).
        { destruct (Z.eqb_spec b0 244) as [E|E]; [|lia]. unfold b0, b1 in *. zdm. }
        replace ((if b0 =? 240 then 144 else 128) <=? b1) with true by (symmetry; apply Z.leb_le; exact Hlo).
        replace (b1 <? (if b0 =? 244 then 144 else 192)) with true by (symmetry; apply Z.ltb_lt; exact Hhi).
        unfold cont.
        replace ((128 <=? b2) && (b2 <? 192)) with true
          by (symmetry; apply andb_true_iff; split; [apply Z.leb_le|apply Z.ltb_lt]; lia).
        replace ((128 <=? b3) && (b3 <? 192)) with true
          by (symmetry; apply andb_true_iff; split; [apply Z.leb_le|apply Z.ltb_lt]; lia).
        cbn [andb].
        replace ((b0 - 240) * 262144 + (b1 - 128) * 4096 + (b2 - 128) * 64 + (b3 - 128)) with c
          by (unfold b0, b1, b2, b3; zdm).
        reflexivity.
Qed.

Theorem utf8_roundtrip s :
  Forall (fun c => scalar c = true) s -> utf8_decode (utf8_encode s) = Some s.
Proof.
  induction 1 as [|c s Hc Hs IH]; [reflexivity|].
  unfold utf8_encode in *. cbn [flat_map]. rewrite (utf8_step c _ Hc), IH. reflexivity.
Qed.
