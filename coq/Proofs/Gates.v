(* Proofs/Gates.v — accepted implies inside the supported set; and the source's raise
   inventory is the one the gate models were written from. *)
From Coq Require Import ZArith List Bool String Lia.
From DH Require Import Base.Plan Model.Gates.
From DH Require Gen.Consts Gen.Gates.
Import ListNotations.
Open Scope Z_scope.

Lemma gate_ok b : gate b = Ok tt -> b = false.
Proof. destruct b; [discriminate|reflexivity]. Qed.

Ltac step H :=
  match type of H with
  | bind (gate ?b) _ = Ok tt =>
      let E := fresh "G" in destruct b eqn:E; cbn [gate bind] in H; [discriminate|]
  end.

Lemma zlist_eqb_eq a : forall b, zlist_eqb a b = true -> a = b.
Proof.
  induction a as [|x a IH]; intros [|y b]; cbn; try discriminate; [reflexivity|].
  intros H. apply andb_true_iff in H. destruct H as [H1 H2]. apply Z.eqb_eq in H1. f_equal; auto.
Qed.

Theorem qcow2_accepts h : qcow2_gate h = Ok tt ->
  q_magic h = 1363560955 /\ 2 <= q_version h <= 3 /\ 9 <= q_cluster_bits h <= 21 /\ q_crypt h = 0 /\
  512 <= qcow2_subcluster_size h /\
  (q_compression h = 1 -> q_has_zstd h = true) /\
  Z.land (q_incompat h) (Z.lnot 31) = 0 /\
  (Z.land (q_incompat h) 4 <> 0 -> q_data_file_given h = true) /\
  (q_backing_offset h <> 0 -> q_backing_given h = true).
Proof.
  unfold qcow2_gate. intros H.
  change Gen.Consts.qcow2_QCOW2_MAGIC with 1363560955 in *.
  change Gen.Consts.qcow2_MIN_CLUSTER_BITS with 9 in *. change Gen.Consts.qcow2_MAX_CLUSTER_BITS with 21 in *.
  change Gen.Consts.qcow2_QCOW2_COMPRESSION_TYPE_ZSTD with 1 in *.
  change Gen.Consts.qcow2_QCOW2_INCOMPAT_DATA_FILE with 4 in *.
  change Gen.Consts.qcow2_QCOW2_INCOMPAT_MASK with 31 in *.
  destruct (Z.eqb_spec (q_magic h) 1363560955) as [Em|Em]; cbn [negb gate bind] in H; [|discriminate].
  destruct (Z.ltb_spec (q_version h) 2) as [Ev1|Ev1]; cbn [orb gate bind] in H; [discriminate|].
  destruct (Z.ltb_spec 3 (q_version h)) as [Ev2|Ev2]; cbn [gate bind] in H; [discriminate|].
  destruct (Z.ltb_spec (q_cluster_bits h) 9) as [Ec1|Ec1]; cbn [orb gate bind] in H; [discriminate|].
  destruct (Z.ltb_spec 21 (q_cluster_bits h)) as [Ec2|Ec2]; cbn [gate bind] in H; [discriminate|].
  destruct ((q_compression h =? 1) && negb (q_has_zstd h)) eqn:Ez; cbn [gate bind] in H; [discriminate|].
  destruct (Z.ltb_spec (qcow2_subcluster_size h) (2 ^ 9)) as [Es|Es]; cbn [gate bind] in H; [discriminate|].
  destruct (Z.eqb_spec (q_crypt h) 0) as [Ecr|Ecr]; cbn [negb gate bind] in H; [|discriminate].
  destruct (Z.eqb_spec (Z.land (q_incompat h) (Z.lnot 31)) 0) as [Eu|Eu]; cbn [negb gate bind] in H; [|discriminate].
  destruct (negb (Z.land (q_incompat h) 4 =? 0) && negb (q_data_file_given h)) eqn:Ed; cbn [gate bind] in H; [discriminate|].
  destruct (negb (q_backing_offset h =? 0) && negb (q_backing_given h)) eqn:Eb; cbn [gate bind] in H; [discriminate|].
  change (2 ^ 9) with 512 in Es.
  repeat split; try lia; try assumption.
  - intros E. rewrite E in Ez. cbn in Ez. now destruct (q_has_zstd h).
  - intros E. apply Z.eqb_neq in E. rewrite E in Ed. cbn in Ed. now destruct (q_data_file_given h).
  - intros E. apply Z.eqb_neq in E. rewrite E in Eb. cbn in Eb. now destruct (q_backing_given h).
Qed.

Theorem vhdx_accepts h : vhdx_gate h = Ok tt ->
  xf_sig h = SIG_vhdxfile /\ vhdx_active_sig h = SIG_head /\ xrt1_sig h = SIG_regi /\ xrt2_sig h = SIG_regi /\
  xm_sig h = SIG_metadata /\ x_has_meta_region h = true /\ x_has_bat_region h = true /\
  x_items_known h = true /\ x_has_size h = true /\ x_has_fp h = true /\ x_has_lss h = true /\ x_has_id h = true /\
  (x_hp h = true -> x_has_locator h = true /\ x_loc_type_ok h = true /\ x_parent_opens h = true).
Proof.
  unfold vhdx_gate. intros H.
  destruct (zlist_eqb (xf_sig h) SIG_vhdxfile) eqn:E1; cbn [negb gate bind] in H; [|discriminate].
  destruct (zlist_eqb (vhdx_active_sig h) SIG_head) eqn:E2; cbn [negb gate bind] in H; [|discriminate].
  destruct (zlist_eqb (xrt1_sig h) SIG_regi) eqn:E3; cbn [negb gate bind] in H; [|discriminate].
  destruct (zlist_eqb (xrt2_sig h) SIG_regi) eqn:E4; cbn [negb gate bind] in H; [|discriminate].
  destruct (x_has_meta_region h) eqn:E5; cbn [negb gate bind] in H; [|discriminate].
  destruct (zlist_eqb (xm_sig h) SIG_metadata) eqn:E6; cbn [negb gate bind] in H; [|discriminate].
  destruct (x_items_known h) eqn:E7; cbn [negb gate bind] in H; [|discriminate].
  destruct (x_has_size h) eqn:E8; cbn [negb gate bind] in H; [|discriminate].
  destruct (x_has_fp h) eqn:E9; cbn [negb gate bind] in H; [|discriminate].
  destruct (x_has_lss h) eqn:E10; cbn [negb gate bind] in H; [|discriminate].
  destruct (x_has_id h) eqn:E11; cbn [negb gate bind] in H; [|discriminate].
  destruct (x_hp h && negb (x_has_locator h)) eqn:E12; cbn [gate bind] in H; [discriminate|].
  destruct (x_hp h && negb (x_loc_type_ok h)) eqn:E13; cbn [gate bind] in H; [discriminate|].
  destruct (x_hp h && negb (x_parent_opens h)) eqn:E14; cbn [gate bind] in H; [discriminate|].
  destruct (x_has_bat_region h) eqn:E15; cbn [negb gate bind] in H; [|discriminate].
  apply zlist_eqb_eq in E1, E2, E3, E4, E6.
  repeat (split; [assumption || reflexivity|]).
  intros Ehp. rewrite Ehp in *. cbn in *.
  apply negb_false_iff in E12, E13, E14. auto.
Qed.

Theorem vdi_accepts s : vdi_gate s = Ok tt -> s = 3201962111.
Proof. unfold vdi_gate. intros H. apply gate_ok, negb_false_iff, Z.eqb_eq in H. exact H. Qed.

Theorem hds_accepts s : hds_gate s = Ok tt ->
  s = Gen.Consts.hdd_SIGNATURE_STRUCTURED_DISK_V1 \/ s = Gen.Consts.hdd_SIGNATURE_STRUCTURED_DISK_V2.
Proof.
  unfold hds_gate. intros H. apply gate_ok, negb_false_iff, orb_true_iff in H.
  destruct H as [H|H]; [left|right]; now apply zlist_eqb_eq.
Qed.

Theorem hdd_accepts d ts : hdd_gate d ts = Ok tt -> d = true /\ Forall (fun t => t = 0 \/ t = 1) ts.
Proof.
  unfold hdd_gate. intros H. step H. apply gate_ok in H. apply negb_false_iff in G. split; [exact G|].
  apply Forall_forall. intros t Hin.
  assert (Hf : negb ((t =? 0) || (t =? 1)) = false).
  { destruct (negb ((t =? 0) || (t =? 1))) eqn:E; [|reflexivity].
    assert (existsb (fun t => negb ((t =? 0) || (t =? 1))) ts = true) by (apply existsb_exists; eauto). congruence. }
  apply negb_false_iff, orb_true_iff in Hf. destruct Hf as [Hf|Hf]; apply Z.eqb_eq in Hf; auto.
Qed.

Theorem vmdk_sparse_accepts m : vmdk_sparse_gate m = Ok tt ->
  m = Gen.Consts.vmdk_VMDK_MAGIC \/ m = Gen.Consts.vmdk_SESPARSE_MAGIC \/ m = Gen.Consts.vmdk_COWD_MAGIC.
Proof.
  unfold vmdk_sparse_gate. intros H. apply gate_ok, negb_false_iff in H.
  apply orb_true_iff in H. destruct H as [H|H]; [apply orb_true_iff in H; destruct H as [H|H]|].
  - left. now apply zlist_eqb_eq.
  - right; left. now apply zlist_eqb_eq.
  - right; right. now apply zlist_eqb_eq.
Qed.

Theorem vmdk_layout_accepts m m64 : vmdk_layout_gate m m64 = Ok tt ->
  m = Gen.Consts.vmdk_VMDK_MAGIC \/ m = Gen.Consts.vmdk_COWD_MAGIC \/
  (m = Gen.Consts.vmdk_SESPARSE_MAGIC /\ m64 = Gen.Consts.vmdk_SESPARSE_CONST_HEADER_MAGIC).
Proof.
  unfold vmdk_layout_gate. intros H.
  destruct (vmdk_sparse_gate m) as [[]| |] eqn:E1; try discriminate. cbn [bind] in H.
  apply vmdk_sparse_accepts in E1.
  destruct (zlist_eqb m Gen.Consts.vmdk_VMDK_MAGIC) eqn:Ev; [left; now apply zlist_eqb_eq|].
  destruct (zlist_eqb m Gen.Consts.vmdk_COWD_MAGIC) eqn:Ec; [right; left; now apply zlist_eqb_eq|].
  cbn [orb] in H. apply gate_ok, negb_false_iff, Z.eqb_eq in H.
  destruct E1 as [E|[E|E]]; subst m; [discriminate Ev|right; right; split; [reflexivity|exact H]|discriminate Ec].
Qed.

Theorem vmdk_footer_accepts hm uf fm : vmdk_footer_gate hm uf fm = Ok tt ->
  (hm = Gen.Consts.vmdk_VMDK_MAGIC \/ hm = Gen.Consts.vmdk_SESPARSE_MAGIC \/ hm = Gen.Consts.vmdk_COWD_MAGIC) /\
  (uf = true -> fm = Gen.Consts.vmdk_VMDK_MAGIC \/ fm = Gen.Consts.vmdk_COWD_MAGIC).
Proof.
  unfold vmdk_footer_gate. intros H.
  destruct (vmdk_sparse_gate hm) as [[]| |] eqn:E1; try discriminate. cbn [bind] in H.
  split; [now apply vmdk_sparse_accepts|]. intros ->.
  apply gate_ok, negb_false_iff, orb_true_iff in H.
  destruct H as [H|H]; [left|right]; now apply zlist_eqb_eq.
Qed.

Lemma existsb_false_forall {A} (f : A -> bool) l : existsb f l = false -> forall x, In x l -> f x = false.
Proof.
  intros H x Hin. destruct (f x) eqn:E; [|reflexivity].
  assert (existsb f l = true) by (apply existsb_exists; eauto). congruence.
Qed.

Theorem hyperv_accepts h : hyperv_gate h = Ok tt ->
  (if hv2_seq h <? hv1_seq h then hv1_sig h else hv2_sig h) = 19406868 /\
  (if hv2_seq h <? hv1_seq h then hv1_ver h else hv2_ver h) = 1024 /\
  hv_replay_sig h = 17891331 /\
  (forall s, In s (hv_objtab_sigs h) -> s = 17891329) /\ (forall s, In s (hv_keytab_sigs h) -> s = 2).
Proof.
  unfold hyperv_gate. cbv zeta. intros H. repeat step H. clear H.
  apply negb_false_iff, Z.eqb_eq in G. apply negb_false_iff, Z.eqb_eq in G0. apply negb_false_iff, Z.eqb_eq in G1.
  repeat split; try assumption.
  - intros s Hin. pose proof (existsb_false_forall _ _ G2 s Hin) as E. apply negb_false_iff, Z.eqb_eq in E. exact E.
  - intros s Hin. pose proof (existsb_false_forall _ _ G3 s Hin) as E. apply negb_false_iff, Z.eqb_eq in E. exact E.
Qed.

Theorem envelope_accepts h : envelope_gate h = Ok tt ->
  e_magic h = Gen.Consts.envelope_FILE_HEADER_MAGIC /\ e_version h = 2 /\ e_has_keyinfo h = true /\
  e_has_cipher h = true /\ e_has_keyhash h = true /\ e_cipher_is_gcm h = true /\ e_footer_version h = 1.
Proof.
  unfold envelope_gate. intros H. repeat step H. clear H.
  repeat match goal with G : negb _ = false |- _ => apply negb_false_iff in G end.
  apply Z.eqb_eq in G0. apply Z.eqb_eq in G5.
  repeat split; try assumption. now apply zlist_eqb_eq.
Qed.

Theorem keystore_accepts m : keystore_gate m = Ok tt -> m = 1.
Proof. unfold keystore_gate. intros H. apply gate_ok, negb_false_iff, Z.eqb_eq in H. exact H. Qed.

Theorem keysafe_accepts i k : keysafe_gate i k = Ok tt -> i = true /\ k = true.
Proof.
  unfold keysafe_gate. intros H. step H. apply gate_ok in H.
  apply negb_false_iff in G. apply negb_false_iff in H. auto.
Qed.

(* ---------- the raise inventory of the current source is the one modelled ---------- *)
Open Scope string_scope.
Lemma raises_pinned :
  Gen.Gates.qcow2_QCow2_init_raises =
    [("(self.header.magic != QCOW2_MAGIC)", "InvalidHeaderError");
     ("(outside(self.header.version, 2, 3))", "InvalidHeaderError");
     ("(outside(self.header.cluster_bits, c_qcow2.MIN_CLUSTER_BITS, c_qcow2.MAX_CLUSTER_BITS))", "InvalidHeaderError");
     ("(self.compression_type == c_qcow2.QCOW2_COMPRESSION_TYPE_ZSTD and (not HAS_ZSTD))", "RuntimeError");
     ("(self.subcluster_size < 1 << c_qcow2.MIN_CLUSTER_BITS)", "InvalidHeaderError");
     ("(self.header.crypt_method)", "NotImplementedError");
     ("(self.header.incompatible_features & ~QCOW2_INCOMPAT_MASK)", "InvalidHeaderError");
     ("(self.header.incompatible_features & c_qcow2.QCOW2_INCOMPAT_DATA_FILE) and (data_file is None)", "Error");
     ("(self.header.backing_file_offset) and (backing_file is None)", "Error")] /\
  Gen.Gates.vhdx_VHDX_init_raises =
    [("(self.file_identifier.signature != b'vhdxfile')", "InvalidSignature");
     ("(self.header.signature != b'head')", "InvalidSignature");
     ("(self.has_parent) and (self.parent_locator.type != VHDX_PARENT_LOCATOR_GUID)", "ValueError")] /\
  Gen.Gates.vhdx_RegionTable_init_raises =
    [("(self.header.signature != b'regi')", "InvalidSignature")] /\
  Gen.Gates.vhdx_RegionTable_get_raises =
    [("(not L1 and required)", "InvalidVirtualDisk")] /\
  Gen.Gates.vhdx_MetadataTable_init_raises =
    [("(self.header.signature != b'metadata')", "InvalidSignature")] /\
  Gen.Gates.vhdx_MetadataTable_get_raises =
    [("(not L1 and required)", "InvalidVirtualDisk")] /\
  Gen.Gates.vdi_VDI_init_raises =
    [("(self.header.Signature != VDI_SIGNATURE)", "Error")] /\
  Gen.Gates.hdd_HDS_init_raises =
    [("(self.header.m_Sig not in (c_hdd.SIGNATURE_STRUCTURED_DISK_V1, c_hdd.SIGNATURE_STRUCTURED_DISK_V2))", "InvalidHeaderError")] /\
  Gen.Gates.hdd_HDD_init_raises =
    [("(not L1.exists())", "ValueError")] /\
  Gen.Gates.hdd_HDD_open_raises =
    [("loop and loop and (L1.type != 'Compressed') and (L1.type != 'Plain')", "ValueError")] /\
  Gen.Gates.hdd_XMLEntry_from_xml_raises =
    [("(element.tag != cls.__name__)", "ValueError")] /\
  Gen.Gates.vmdk_SparseExtentHeader_init_raises =
    [("(L1 != VMDK_MAGIC) and (L1 != SESPARSE_MAGIC) and (L1 != COWD_MAGIC)", "NotImplementedError")] /\
  Gen.Gates.hyperv_HyperVFile_init_raises =
    [("(self.header.signature != c_hyperv.SIGNATURE_STORAGE_HEADER)", "InvalidSignature");
     ("(self.header.version != 1024)", "NotImplementedError")] /\
  Gen.Gates.hyperv_HyperVStorageReplayLog_init_raises =
    [("(self.header.signature != c_hyperv.SIGNATURE_REPLAY_LOG_HEADER)", "InvalidSignature")] /\
  Gen.Gates.hyperv_HyperVStorageObjectTable_init_raises =
    [("(self.header.signature != c_hyperv.SIGNATURE_OBJECT_TABLE_HEADER)", "InvalidSignature")] /\
  Gen.Gates.hyperv_HyperVStorageKeyTable_init_raises =
    [("(self.header.signature != c_hyperv.SIGNATURE_KEY_TABLE_HEADER)", "InvalidSignature")] /\
  Gen.Gates.envelope_Envelope_init_raises =
    [("(self.header.magic != FILE_HEADER_MAGIC)", "ValueError");
     ("(self.header.version != 2)", "ValueError");
     ("loop[L1 in ('vmware.keyInfo', 'vmware.cipherName', 'vmware.keyHash')] and (L1 not in self.attributes)", "ValueError");
     ("(self.cipher_name == 'AES-256-GCM') and (L1.version != 1)", "ValueError");
     ("(self.cipher_name != 'AES-256-GCM')", "NotImplementedError")] /\
  Gen.Gates.envelope_KeyStore_init_raises =
    [("(not self.mode)", "ValueError");
     ("(self.mode != 'NONE')", "NotImplementedError")] /\
  Gen.Gates.vmx_KeySafe_from_text_raises =
    [("(L1 != 'vmware:key')", "ValueError");
     ("(not isinstance(L1, list) and (not all((isinstance(L2, Pair) for L2 in L1))))", "ValueError")] /\
  Gen.Gates.vmx__parse_key_locator_raises =
    [("True", "NotImplementedError")].
Proof. repeat split. Qed.

(* an accepted key safe: every pair in front of the one that opened names supported algorithms *)
Theorem vmx_pairs_accepts : forall ps, vmx_pairs_gate ps = Ok tt ->
  exists pre post, ps = (pre ++ (true, true) :: post)%list /\ Forall (fun q => fst q = true) pre.
Proof.
  induction ps as [|[sup op] rest IH]; intros H; cbn [vmx_pairs_gate] in H; [discriminate|].
  destruct sup; cbn [negb] in H; [|discriminate].
  destruct op.
  - exists [], rest. split; [reflexivity|constructor].
  - destruct (IH H) as (pre & post & -> & Hall).
    exists ((true, false) :: pre), post. split; [reflexivity|]. constructor; [reflexivity|exact Hall].
Qed.
