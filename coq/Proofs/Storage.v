(* Proofs/Storage.v — Parallels StorageStream (disk/hdd.py): a disk split over several storages,
   each covering the sector range [start, end), laid back to back.  A read at any sector, across
   any number of storage boundaries, returns for every byte the byte of the storage that holds
   its sector, at the storage-relative offset; the size is the end of the last storage. *)
From Coq Require Import ZArith List Bool Lia.
From DH Require Import Base.Arith Base.Plan Base.Table Model.Vmdk Model.VmdkDesc Proofs.VmdkDesc.
Import ListNotations.
Open Scope Z_scope.

(* storages sorted by start, each non-empty, each starting where the previous one ends *)
Fixpoint slaid (ss : list (Z * Z)) (s0 : Z) : Prop :=
  match ss with
  | [] => True
  | (st, en) :: ss' => st = s0 /\ st < en /\ slaid ss' en
  end.

Fixpoint s_end (ss : list (Z * Z)) (s0 : Z) : Z :=
  match ss with
  | [] => s0
  | (_, en) :: ss' => s_end ss' en
  end.

Lemma s_end_ge ss : forall s0, slaid ss s0 -> s0 <= s_end ss s0.
Proof.
  induction ss as [|[st en] ss IH]; intros s0 H; cbn [s_end slaid] in *; [lia|].
  destruct H as (-> & Hlt & Hl). pose proof (IH en Hl). lia.
Qed.

Lemma storage_size_spec ss : forall s0 a, ss <> [] ->
  fold_left (fun (_ : Z) (s : Z * Z) => snd s * 512) ss a = s_end ss s0 * 512.
Proof.
  induction ss as [|[st en] ss IH]; intros s0 a Hne; [congruence|].
  cbn [fold_left s_end snd]. destruct ss as [|x ss']; [reflexivity|].
  apply IH. discriminate.
Qed.

(* C10 (Parallels): the stream's size is the end of the last storage *)
Theorem storage_size_is_end ss s0 : ss <> [] -> storage_size ss = s_end ss s0 * 512.
Proof. intros H. unfold storage_size. now apply storage_size_spec. Qed.

Lemma storage_src_cons st en ss idx o :
  storage_src ((st, en) :: ss) idx o =
  if o / 512 <? en then (idx, File (o - st * 512)) else storage_src ss (idx + 1) o.
Proof. reflexivity. Qed.

(* the loop of StorageStream._read *)
Theorem storage_loop_correct ss : forall idx sector count,
  match ss with
  | [] => True
  | (st, en) :: _ => slaid ss st /\ st <= sector < en
  end ->
  0 <= count -> (0 < count -> sector + count <= s_end ss sector) ->
  xsrcs_of (storage_loop ss idx sector count) = map (storage_src ss idx) (zseq (sector * 512) (count * 512)).
Proof.
  induction ss as [|[st en] ss IH]; intros idx sector count Hpos Hc Hend.
  - cbn [s_end] in Hend. assert (count = 0) by lia. subst count.
    cbn [storage_loop]. reflexivity.
  - cbn [storage_loop].
    destruct (Z.leb_spec count 0) as [Hz|Hz].
    { rewrite zseq_nonpos by lia. reflexivity. }
    destruct Hpos as [Hlaid Hin]. cbn [slaid] in Hlaid. destruct Hlaid as (_ & Hlt & Hl').
    specialize (Hend Hz). cbn [s_end] in Hend.
    set (n := Z.min (en - sector) count) in *.
    assert (Hn : 0 < n <= count /\ sector + n <= en) by (subst n; lia).
    change (xsrcs_of ((idx, SFile ((sector - st) * 512) (n * 512)) :: storage_loop ss (idx + 1) (sector + n) (count - n)))
      with (map (fun s => (idx, s)) (srcs_of_seg (SFile ((sector - st) * 512) (n * 512))) ++
            xsrcs_of (storage_loop ss (idx + 1) (sector + n) (count - n))).
    replace (count * 512) with (n * 512 + (count - n) * 512) by lia.
    rewrite zseq_app by lia. rewrite map_app. f_equal.
    + cbn [srcs_of_seg]. rewrite map_map.
      rewrite (zseq_rel _ ((sector - st) * 512)), (zseq_rel _ (sector * 512)).
      apply map_ext_zseq. intros j Hj. rewrite storage_src_cons.
      assert (Hdiv : (sector * 512 + j) / 512 < en) by (apply Z.div_lt_upper_bound; lia).
      destruct (Z.ltb_spec ((sector * 512 + j) / 512) en); [|lia].
      f_equal. f_equal. lia.
    + destruct (Z.leb_spec (count - n) 0) as [Hr|Hr].
      { rewrite zseq_nonpos by lia.
        destruct ss as [|[a b] ss']; cbn [storage_loop]; [destruct (count - n <=? 0); reflexivity|].
        destruct (Z.leb_spec (count - n) 0); [reflexivity|lia]. }
      assert (Hfull : sector + n = en) by lia.
      replace (sector * 512 + n * 512) with ((sector + n) * 512) by lia.
      assert (Hskip : forall o, (sector + n) * 512 <= o ->
                storage_src ((st, en) :: ss) idx o = storage_src ss (idx + 1) o).
      { intros o Ho. rewrite storage_src_cons.
        assert (en <= o / 512) by (apply Z.div_le_lower_bound; lia).
        destruct (Z.ltb_spec (o / 512) en); [lia|reflexivity]. }
      rewrite (map_ext_zseq (storage_src ((st, en) :: ss) idx) (storage_src ss (idx + 1)))
        by (intros; apply Hskip; lia).
      apply (IH (idx + 1) (sector + n) (count - n)); [|lia|].
      * destruct ss as [|[st' en'] ss']; [exact I|].
        cbn [slaid] in Hl'. destruct Hl' as (Hs' & Hlt' & Hl''). subst st'.
        split; [cbn [slaid]; repeat split; assumption|lia].
      * intros _. rewrite Hfull.
        destruct ss as [|[st' en'] ss']; cbn [s_end] in *; lia.
Qed.

(* the bisect lookup over the storages' start sectors *)
Lemma sbisect ss : forall s0 sector,
  slaid ss s0 -> s0 <= sector < s_end ss s0 ->
  let i := (bisect_right (map fst ss) sector - 1)%nat in
  match skipn i ss with
  | (st, en) :: rest =>
      slaid ((st, en) :: rest) st /\ s0 <= st <= sector /\ sector < en /\ s_end rest en = s_end ss s0 /\
      (forall idx o, st * 512 <= o -> storage_src ss idx o = storage_src ((st, en) :: rest) (idx + Z.of_nat i) o)
  | [] => False
  end.
Proof.
  induction ss as [|[st en] ss IH]; intros s0 sector Hl Hin.
  - cbn [s_end] in Hin. lia.
  - cbn [slaid] in Hl. destruct Hl as (-> & Hlt & Hl'). cbn [s_end] in Hin.
    cbn [map fst bisect_right].
    destruct (Z.leb_spec s0 sector) as [_|]; [|lia].
    cbn zeta. rewrite Nat.sub_succ, Nat.sub_0_r.
    destruct ss as [|[st' en'] ss'].
    + cbn [map bisect_right skipn s_end] in *.
      split; [cbn [slaid]; repeat split; assumption|]. split; [lia|]. split; [lia|]. split; [reflexivity|].
      intros idx o _. replace (idx + Z.of_nat 0) with idx by lia. reflexivity.
    + pose proof Hl' as Hl2. cbn [slaid] in Hl2. destruct Hl2 as (-> & Hlt' & Hl'').
      cbn [map fst bisect_right].
      destruct (Z.leb_spec en sector) as [Hge|Hltx].
      * assert (Hin' : en <= sector < s_end ((en, en') :: ss') en) by lia.
        specialize (IH en sector Hl' Hin'). cbn zeta in IH.
        cbn [map fst bisect_right] in IH.
        destruct (Z.leb_spec en sector) as [_|]; [|lia].
        rewrite Nat.sub_succ, Nat.sub_0_r in IH.
        set (k := bisect_right (map fst ss') sector) in *.
        cbn [skipn].
        destruct (skipn k ((en, en') :: ss')) as [|[a b] rest] eqn:Hsk; [contradiction|].
        destruct IH as (H1 & H2 & H2' & H3 & H4). split; [exact H1|]. split; [lia|]. split; [exact H2'|]. split; [exact H3|].
        intros idx o Ho. rewrite (storage_src_cons s0 en).
        assert (en <= o / 512) by (apply Z.div_le_lower_bound; lia).
        destruct (Z.ltb_spec (o / 512) en); [lia|].
        rewrite (H4 (idx + 1) o Ho). rewrite Nat2Z.inj_succ. f_equal. unfold Z.succ. lia.
      * cbn [skipn]. split; [cbn [slaid]; repeat split; assumption|]. split; [lia|]. split; [lia|]. split; [reflexivity|].
        intros idx o _. replace (idx + Z.of_nat 0) with idx by lia. reflexivity.
Qed.

(* C10 (Parallels): StorageStream._read at any sector, across any number of storages *)
Theorem storage_read_correct ss s0 sector count :
  slaid ss s0 -> s0 <= sector -> 0 <= count -> sector + count <= s_end ss s0 ->
  xsrcs_of (storage_read ss (sector * 512) (count * 512)) =
  map (storage_src ss 0) (zseq (sector * 512) (count * 512)).
Proof.
  intros Hl Hs Hc Hend. unfold storage_read.
  replace (sector * 512 / 512) with sector by (rewrite Z.div_mul; lia).
  assert (Hcnt : (count * 512 + 512 - 1) / 512 = count).
  { replace (count * 512 + 512 - 1) with (511 + count * 512) by lia.
    rewrite Z.div_add by lia. reflexivity. }
  rewrite Hcnt.
  destruct (Z.eq_dec count 0) as [->|Hnz].
  { rewrite zseq_nonpos by lia.
    destruct (skipn _ ss) as [|[a b] r]; cbn [storage_loop]; reflexivity. }
  pose proof (sbisect ss s0 sector Hl ltac:(lia)) as Hb. cbn zeta in Hb.
  set (i := (bisect_right (map fst ss) sector - 1)%nat) in *.
  destruct (skipn i ss) as [|[st en] rest] eqn:Hsk; [contradiction|].
  destruct Hb as (H1 & H2 & H2' & H3 & H4).
  rewrite (storage_loop_correct ((st, en) :: rest) (Z.of_nat i) sector count (conj H1 (conj (proj2 H2) H2')) Hc).
  - apply map_ext_zseq. intros o Ho.
    assert (Hge : st * 512 <= o) by lia.
    rewrite (H4 0 o Hge). reflexivity.
  - intros _. cbn [s_end]. lia.
Qed.

(* non-vacuity: three storages, a read across both boundaries *)
Example ex_storage : slaid [(0, 7); (7, 9); (9, 20)] 0 /\ s_end [(0, 7); (7, 9); (9, 20)] 0 = 20.
Proof. cbn [slaid s_end]. repeat split; lia. Qed.
Example ex_storage_read :
  storage_read [(0, 7); (7, 9); (9, 20)] (5 * 512) (6 * 512) =
  [(0, SFile (5 * 512) (2 * 512)); (1, SFile 0 (2 * 512)); (2, SFile 0 (2 * 512))].
Proof. vm_compute. reflexivity. Qed.
