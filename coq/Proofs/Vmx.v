(* Proofs/Vmx.v — VMX dictionaries and VMX.disks: the model refines the specification. *)
From Coq Require Import ZArith List Bool Lia Permutation Sorted.
Import ListNotations.
Open Scope Z_scope.
From DH Require Import Model.Text Model.XmlTree Gen.DescTables Model.Vmx Proofs.Text.

(* ---------- the generated constants are what the specification expects ----------
   (each is a kernel check of the CURRENT source: a changed separator, class
   list, property name or marker makes the corresponding line fail) *)
Lemma pin_line_sep : vmx_line_sep = 10. Proof. reflexivity. Qed.
Lemma pin_comment : vmx_comment_prefix = [35]. Proof. reflexivity. Qed.
Lemma pin_kv_sep : vmx_kv_sep = 61. Proof. reflexivity. Qed.
Lemma pin_value_strip : vmx_value_strip = [32; 34]. Proof. reflexivity. Qed.
Lemma pin_classes : vmx_dev_classes = spec_classes. Proof. reflexivity. Qed.
Lemma pin_dev_sep : vmx_dev_sep = c_dot. Proof. reflexivity. Qed.
Lemma pin_filename : vmx_key_filename = s_filename. Proof. reflexivity. Qed.
Lemma pin_devicetype : vmx_key_devicetype = s_devicetype. Proof. reflexivity. Qed.
Lemma pin_marker : vmx_disk_marker = s_disk. Proof. reflexivity. Qed.

(* ---------- facts about the class names, by computation on the list ---------- *)
Lemma classes_no_dot c : In c spec_classes -> ~ In c_dot c.
Proof.
  intros H Hd. apply memz_In in Hd.
  assert (F : forallb (fun c => negb (memz c c_dot)) spec_classes = true) by reflexivity.
  rewrite forallb_forall in F. specialize (F c H). rewrite Hd in F. discriminate.
Qed.

Lemma classes_no_digit c ch : In c spec_classes -> is_digit ch = true -> memz c ch = false.
Proof.
  intros H Hd.
  assert (F : forallb (fun c => forallb (fun x => negb (is_digit x)) c) spec_classes = true) by reflexivity.
  rewrite forallb_forall in F. specialize (F c H). rewrite forallb_forall in F.
  destruct (memz c ch) eqn:E; [|reflexivity]. apply memz_In in E. specialize (F ch E).
  rewrite Hd in F. discriminate.
Qed.

Lemma classes_prefix_free c c' :
  In c spec_classes -> In c' spec_classes -> startswith c c' = true -> c = c'.
Proof.
  intros H H' Hs.
  assert (F : forallb (fun a => forallb (fun b => implb (startswith a b) (str_eqb a b)) spec_classes)
                      spec_classes = true) by reflexivity.
  rewrite forallb_forall in F. specialize (F c H). rewrite forallb_forall in F. specialize (F c' H').
  rewrite Hs in F. simpl in F. now apply str_eqb_eq.
Qed.

Lemma find_class_unique c k :
  In c spec_classes -> startswith c k = true ->
  find (fun c => startswith c k) spec_classes = Some c.
Proof.
  intros Hin Hs.
  destruct (find (fun c0 => startswith c0 k) spec_classes) as [c'|] eqn:E.
  - apply find_some in E as [Hin' Hs']. f_equal.
    destruct (Nat.le_ge_cases (length c') (length c)) as [Hl|Hl].
    + apply (classes_prefix_free c' c Hin' Hin). now apply (startswith_both c' c k).
    + symmetry. apply (classes_prefix_free c c' Hin Hin'). now apply (startswith_both c c' k).
  - exfalso. pose proof (find_none _ _ E c Hin) as Hn. simpl in Hn. congruence.
Qed.

(* a prefix without the separator lies inside the part before the separator *)
Lemma startswith_before_sep c a sep b :
  ~ In sep c -> startswith c (a ++ sep :: b) = true -> startswith c a = true.
Proof.
  revert a; induction c as [|x c IH]; intros a Hn H; simpl; [reflexivity|].
  destruct a as [|y a]; simpl in H.
  - apply andb_true_iff in H as [H _]. apply Z.eqb_eq in H. subst. exfalso. apply Hn. now left.
  - apply andb_true_iff in H as [H1 H2]. rewrite H1. simpl. apply IH; [|assumption].
    intros Hin. apply Hn. now right.
Qed.

(* ---------- strict ids ---------- *)
Lemma all_digits_spec s : all_digits s = true -> s <> [] /\ forall ch, In ch s -> is_digit ch = true.
Proof.
  unfold all_digits. intros H. apply andb_true_iff in H as [H1 H2]. split.
  - destruct s; [discriminate|discriminate].
  - now apply forallb_forall.
Qed.

Lemma is_digit_not c : is_digit c = true -> c <> c_dot /\ c <> c_colon.
Proof. unfold is_digit, c_dot, c_colon. intros H. apply andb_true_iff in H as [H1 H2]. lia. Qed.

Lemma strict_id_shape id :
  strict_id id = true ->
  exists b u, id = b ++ c_colon :: u /\ all_digits b = true /\ all_digits u = true.
Proof.
  unfold strict_id. destruct (partition c_colon id) as [[b f] u] eqn:E.
  intros H. apply andb_true_iff in H as [H Hu]. apply andb_true_iff in H as [Hf Hb]. subst f.
  destruct (partition_spec _ _ _ _ _ E) as (_ & H2 & _). exists b, u. auto.
Qed.

Lemma strict_id_no_dot id : strict_id id = true -> ~ In c_dot id.
Proof.
  intros H. destruct (strict_id_shape id H) as (b & u & -> & Hb & Hu).
  destruct (all_digits_spec _ Hb) as [_ Hb']. destruct (all_digits_spec _ Hu) as [_ Hu'].
  rewrite in_app_iff. simpl. intros [Hi|[Hi|Hi]].
  - apply Hb' in Hi. now apply is_digit_not in Hi.
  - unfold c_colon, c_dot in Hi. discriminate.
  - apply Hu' in Hi. now apply is_digit_not in Hi.
Qed.

Lemma strict_id_head c id : In c spec_classes -> strict_id id = true -> head_not (memz c) id = true.
Proof.
  intros Hc H. destruct (strict_id_shape id H) as (b & u & -> & Hb & _).
  destruct (all_digits_spec _ Hb) as [Hne Hd]. destruct b as [|x b]; [contradiction|].
  simpl. apply negb_true_iff. apply classes_no_digit; [assumption|]. apply Hd. now left.
Qed.

(* ---------- classify ---------- *)
Definition key3 (c id p : str) : str := c ++ id ++ c_dot :: p.

Lemma strip_id_ok c id : head_not (memz c) id = true -> strip_id c (c ++ id) = id.
Proof.
  intros H. unfold strip_id. destruct vmx_strip_is_charset.
  - now apply lstrip_class_is_prefix_removal.
  - unfold removeprefix. rewrite startswith_app. apply skipn_app_exact.
Qed.

(* what wf_entry gives for a key the implementation files under a device *)
Lemma classify_wf k v c id p :
  wf_entry (k, v) = true -> classify k = Some (c, id, p) ->
  k = key3 c id p /\ In c spec_classes /\ ~ In c_dot id /\ head_not (memz c) id = true /\
  (p = s_filename -> v <> [] -> strict_id id = true).
Proof.
  unfold wf_entry, classify. simpl fst; simpl snd. rewrite pin_classes, pin_dev_sep.
  destruct (find (fun c0 => startswith c0 k) spec_classes) as [c0|] eqn:Ef; [|discriminate].
  destruct (partition c_dot k) as [[device found] prop] eqn:Ep.
  destruct found; [|discriminate].
  intros Hwf Hc.
  apply find_some in Ef as [Hin Hs].
  destruct (partition_spec _ _ _ _ _ Ep) as (Hnd & Hk & _). specialize (Hk eq_refl).
  assert (Hsd : startswith c0 device = true).
  { rewrite Hk in Hs. eapply startswith_before_sep; [|exact Hs]. now apply classes_no_dot. }
  pose proof (startswith_inv _ _ Hsd) as Hdev.
  set (id0 := skipn (length c0) device) in *.
  apply andb_true_iff in Hwf as [Hh Hfn].
  assert (Hhead : head_not (memz c0) id0 = true).
  { unfold head_not. destruct id0; [reflexivity|exact Hh]. }
  rewrite Hdev in Hc. rewrite strip_id_ok in Hc by assumption.
  injection Hc as <- <- <-.
  split; [|split; [|split; [|split]]].
  - unfold key3. rewrite Hk, Hdev at 1. now rewrite <- app_assoc.
  - assumption.
  - intros Hi. apply Hnd. rewrite Hdev. apply in_or_app. now right.
  - assumption.
  - intros -> Hv. rewrite str_eqb_refl in Hfn. apply orb_true_iff in Hfn as [H|H]; [assumption|].
    destruct v; [contradiction|discriminate].
Qed.

Lemma classify_key3 c id p :
  In c spec_classes -> ~ In c_dot id -> head_not (memz c) id = true ->
  classify (key3 c id p) = Some (c, id, p).
Proof.
  intros Hc Hnd Hh. unfold classify, key3. rewrite pin_classes, pin_dev_sep.
  rewrite (find_class_unique c) by (assumption || apply startswith_app).
  rewrite app_assoc. rewrite partition_app.
  - now rewrite strip_id_ok.
  - rewrite in_app_iff. intros [H|H]; [now apply (classes_no_dot c)|contradiction].
Qed.

Lemma classify_strict c id p :
  In c spec_classes -> strict_id id = true -> classify (key3 c id p) = Some (c, id, p).
Proof.
  intros Hc Hs. apply classify_key3; [assumption|now apply strict_id_no_dot|now apply strict_id_head].
Qed.

(* for (c, id) as filed by the implementation, key3 is injective *)
Lemma key3_inj c id p c' id' p' :
  In c spec_classes -> In c' spec_classes -> ~ In c_dot id -> ~ In c_dot id' ->
  key3 c id p = key3 c' id' p' -> c = c' /\ id = id' /\ p = p'.
Proof.
  intros Hc Hc' Hd Hd' E.
  assert (c = c').
  { destruct (Nat.le_ge_cases (length c) (length c')) as [Hl|Hl].
    - apply classes_prefix_free; [assumption|assumption|].
      apply (startswith_both c c' (key3 c id p)); [apply startswith_app|rewrite E; apply startswith_app|assumption].
    - symmetry. apply classes_prefix_free; [assumption|assumption|].
      apply (startswith_both c' c (key3 c id p)); [rewrite E; apply startswith_app|apply startswith_app|assumption]. }
  subst c'. unfold key3 in E. apply app_inv_head in E.
  assert (P1 : partition c_dot (id ++ c_dot :: p) = (id, true, p)) by now apply partition_app.
  assert (P2 : partition c_dot (id' ++ c_dot :: p') = (id', true, p')) by now apply partition_app.
  rewrite E in P1. rewrite P1 in P2. injection P2 as -> ->. auto.
Qed.

(* ---------- the nested device dictionaries ---------- *)
Definition get2 (D : devices) (c id : str) : option (dict str) :=
  match dget c D with Some ids => dget id ids | None => None end.
Definition get3 (D : devices) (c id p : str) : option str :=
  match get2 D c id with Some props => dget p props | None => None end.

Lemma get3_upd3_same D c id p v : get3 (upd3 D c id p v) c id p = Some v.
Proof. unfold get3, get2, upd3. now rewrite !dget_dset_same. Qed.

Lemma get3_upd3_other D c id p v c' id' p' :
  (c, id, p) <> (c', id', p') -> get3 (upd3 D c id p v) c' id' p' = get3 D c' id' p'.
Proof.
  intros Hne. unfold get3, get2, upd3, sub.
  destruct (str_eq_dec c c') as [->|Hc].
  - rewrite dget_dset_same.
    destruct (str_eq_dec id id') as [->|Hi].
    + rewrite dget_dset_same.
      assert (Hp : p <> p') by congruence.
      rewrite dget_dset_other by assumption.
      destruct (dget c' D) as [ids|]; [|reflexivity].
      destruct (dget id' ids); reflexivity.
    + rewrite dget_dset_other by assumption.
      destruct (dget c' D); reflexivity.
  - rewrite dget_dset_other by assumption. reflexivity.
Qed.

Definition wfd (D : devices) : Prop :=
  NoDup (map fst D) /\ Forall (fun ci => NoDup (map fst (snd ci))) D.

Lemma Forall_dset {V} (Q : V -> Prop) k v (d : dict V) :
  Forall (fun kv => Q (snd kv)) d -> Q v -> Forall (fun kv => Q (snd kv)) (dset k v d).
Proof.
  intros H Hv. induction d as [|[k' v'] d IH]; simpl.
  - constructor; [exact Hv|constructor].
  - inversion H as [|? ? H1 H2]; subst. destruct (str_eqb k k'); constructor; auto.
Qed.

Lemma wfd_upd3 D c id p v : wfd D -> wfd (upd3 D c id p v).
Proof.
  intros [H1 H2]. unfold upd3. split.
  - now apply dset_nodup.
  - apply (Forall_dset (fun ids => NoDup (map fst ids))); [exact H2|].
    apply dset_nodup. unfold sub. destruct (dget c D) as [ids|] eqn:E; [|constructor].
    apply dget_In in E. rewrite Forall_forall in H2. exact (H2 _ E).
Qed.

Lemma wfd_nil : wfd [].
Proof. split; constructor. Qed.

Lemma wfd_collect_from A D : wfd D -> wfd (fold_left collect_step A D).
Proof.
  revert D; induction A as [|kv A IH]; intros D H; simpl; [assumption|].
  apply IH. unfold collect_step. destruct (classify (fst kv)) as [[[c id] p]|]; [now apply wfd_upd3|assumption].
Qed.

Lemma In_disk_files D f :
  wfd D -> (In f (disk_files D) <-> exists c id props, get2 D c id = Some props /\ In f (emit props)).
Proof.
  intros [H1 H2]. unfold disk_files. split.
  - intros H. apply in_flat_map in H as ([c ids] & Hci & H). apply in_flat_map in H as ([id props] & Hip & H).
    simpl in *. exists c, id, props. split; [|assumption].
    pose proof (In_dget c ids D H1 Hci) as E.
    unfold get2, devices, dict in *. rewrite E.
    rewrite Forall_forall in H2. apply In_dget; [exact (H2 _ Hci)|assumption].
  - intros (c & id & props & Hg & H). unfold get2 in Hg.
    destruct (dget c D) as [ids|] eqn:E; [|discriminate].
    apply in_flat_map. exists (c, ids). split; [now apply dget_In|].
    apply in_flat_map. exists (id, props). split; [now apply dget_In|assumption].
Qed.

(* ---------- what collect files under (c, id, p) ---------- *)
Lemma triple_dec (t t' : str * str * str) : {t = t'} + {t <> t'}.
Proof. repeat decide equality. Qed.

Lemma get3_collect_some A D c id p v :
  get3 (fold_left collect_step A D) c id p = Some v ->
  (exists k, In (k, v) A /\ classify k = Some (c, id, p)) \/ get3 D c id p = Some v.
Proof.
  revert D; induction A as [|[k0 v0] A IH]; intros D H; simpl in H; [now right|].
  destruct (IH _ H) as [(k & Hin & Hc)|Hd].
  - left. exists k. split; [now right|assumption].
  - unfold collect_step in Hd. simpl in Hd.
    destruct (classify k0) as [[[c0 id0] p0]|] eqn:E; [|now right].
    destruct (triple_dec (c0, id0, p0) (c, id, p)) as [Heq|Hne].
    + injection Heq as -> -> ->. rewrite get3_upd3_same in Hd. injection Hd as ->.
      left. exists k0. split; [now left|assumption].
    + rewrite get3_upd3_other in Hd by assumption. now right.
Qed.

Lemma get3_collect_stable A D c id p v :
  get3 D c id p = Some v ->
  (forall k' v', In (k', v') A -> classify k' = Some (c, id, p) -> v' = v) ->
  get3 (fold_left collect_step A D) c id p = Some v.
Proof.
  revert D; induction A as [|[k0 v0] A IH]; intros D H Hu; simpl; [assumption|].
  apply IH; [|intros k' v' Hin; apply Hu; now right].
  unfold collect_step. simpl.
  destruct (classify k0) as [[[c0 id0] p0]|] eqn:E; [|assumption].
  destruct (triple_dec (c0, id0, p0) (c, id, p)) as [Heq|Hne].
  - injection Heq as -> -> ->. rewrite get3_upd3_same. f_equal. apply (Hu k0 v0); [now left|assumption].
  - now rewrite get3_upd3_other.
Qed.

Lemma get3_collect_in A D k v c id p :
  In (k, v) A -> classify k = Some (c, id, p) ->
  (forall k' v', In (k', v') A -> classify k' = Some (c, id, p) -> v' = v) ->
  get3 (fold_left collect_step A D) c id p = Some v.
Proof.
  revert D; induction A as [|[k0 v0] A IH]; intros D Hin Hc Hu; [contradiction|].
  simpl. destruct Hin as [[= -> ->]|Hin].
  - apply get3_collect_stable; [|intros k' v' H; apply Hu; now right].
    unfold collect_step. simpl. rewrite Hc. apply get3_upd3_same.
  - apply IH; [assumption|assumption|intros k' v' H; apply Hu; now right].
Qed.

(* ---------- well-formed dictionaries ---------- *)
Lemma nodup_keys_NoDup {V} (d : dict V) : nodup_keys d = true -> NoDup (map fst d).
Proof.
  induction d as [|[k v] d IH]; simpl; intros H; [constructor|].
  apply andb_true_iff in H as [H1 H2]. constructor; [|now apply IH].
  intros Hin. apply negb_true_iff in H1.
  assert (existsb (fun kv => str_eqb k (fst kv)) d = true); [|congruence].
  apply in_map_iff in Hin as ([k' v'] & Hk & Hin). simpl in Hk. subst k'.
  apply existsb_exists. exists (k, v'). split; [assumption|apply str_eqb_refl].
Qed.

Section WF.
  Variable attr : dict str.
  Hypothesis Hwf : wf_vmx attr = true.

  Let Hnd : NoDup (map fst attr).
  Proof. unfold wf_vmx in Hwf. apply andb_true_iff in Hwf as [H _]. now apply nodup_keys_NoDup. Qed.

  Let Hent : forall k v, In (k, v) attr -> wf_entry (k, v) = true.
  Proof.
    unfold wf_vmx in Hwf. apply andb_true_iff in Hwf as [_ H]. rewrite forallb_forall in H.
    intros k v Hin. now apply H.
  Qed.

  Lemma filed_unique k v c id p :
    In (k, v) attr -> classify k = Some (c, id, p) ->
    forall k' v', In (k', v') attr -> classify k' = Some (c, id, p) -> v' = v.
  Proof.
    intros Hin Hc k' v' Hin' Hc'.
    destruct (classify_wf _ _ _ _ _ (Hent _ _ Hin) Hc) as (-> & _).
    destruct (classify_wf _ _ _ _ _ (Hent _ _ Hin') Hc') as (-> & _).
    pose proof (In_dget _ _ _ Hnd Hin) as E1. pose proof (In_dget _ _ _ Hnd Hin') as E2. congruence.
  Qed.

  (* on devices named <class><bus>:<unit> the nested dictionaries are the flat dictionary *)
  Lemma get3_strict c id p :
    In c spec_classes -> ~ In c_dot id -> head_not (memz c) id = true ->
    get3 (collect attr) c id p = dget (key3 c id p) attr.
  Proof.
    intros Hc Hd Hh. unfold collect.
    destruct (dget (key3 c id p) attr) as [v|] eqn:E.
    - apply dget_In in E. eapply get3_collect_in; [exact E|now apply classify_key3|].
      apply (filed_unique _ _ _ _ _ E). now apply classify_key3.
    - destruct (get3 (fold_left collect_step attr []) c id p) as [v|] eqn:G; [|reflexivity].
      apply get3_collect_some in G as [(k & Hin & Hcl)|G]; [|discriminate].
      destruct (classify_wf _ _ _ _ _ (Hent _ _ Hin) Hcl) as (-> & _).
      rewrite (In_dget _ _ _ Hnd Hin) in E. discriminate.
  Qed.
End WF.

(* ---------- emit / spec_entry in a common form ---------- *)
Definition type_ok (o : option str) : bool :=
  match o with None => true | Some t => negb (nonempty t) || contains s_disk (lower t) end.

Lemma In_emit f props :
  In f (emit props) <->
  dget s_filename props = Some f /\ nonempty f = true /\ type_ok (dget s_devicetype props) = true.
Proof.
  unfold emit, type_ok. rewrite pin_filename, pin_devicetype, pin_marker.
  destruct (dget s_filename props) as [g|]; [|simpl; split; [tauto|intros [H _]; discriminate]].
  destruct (nonempty g) eqn:Hg.
  - destruct (dget s_devicetype props) as [t|].
    + destruct (negb (nonempty t) || contains s_disk (lower t)) eqn:Ht; simpl.
      * split; [intros [<-|[]]; auto|intros ([= ->] & _); now left].
      * split; [tauto|intros (_ & _ & H); discriminate].
    + simpl. split; [intros [<-|[]]; auto|intros ([= ->] & _); now left].
  - simpl. split; [tauto|]. intros ([= ->] & H & _). congruence.
Qed.

Lemma filename_key_spec k dev :
  filename_key k = Some dev <->
  exists c id, In c spec_classes /\ strict_id id = true /\ dev = c ++ id /\ k = key3 c id s_filename.
Proof.
  unfold filename_key. split.
  - destruct (partition c_dot k) as [[d f] prop] eqn:E.
    destruct (f && str_eqb prop s_filename && strict_device d) eqn:H; [|discriminate].
    intros [= <-]. apply andb_true_iff in H as [H Hs]. apply andb_true_iff in H as [Hf Hp]. subst f.
    apply str_eqb_eq in Hp. subst prop.
    destruct (partition_spec _ _ _ _ _ E) as (_ & Hk & _). specialize (Hk eq_refl).
    unfold strict_device in Hs. apply existsb_exists in Hs as (c & Hc & Hs).
    apply andb_true_iff in Hs as [Hs1 Hs2]. apply startswith_inv in Hs1.
    exists c, (skipn (length c) d). repeat split; try assumption.
    unfold key3. rewrite Hk. rewrite Hs1 at 1. now rewrite <- app_assoc.
  - intros (c & id & Hc & Hs & -> & ->). unfold key3. rewrite app_assoc. rewrite partition_app.
    + rewrite str_eqb_refl. simpl.
      assert (strict_device (c ++ id) = true) as ->; [|reflexivity].
      unfold strict_device. apply existsb_exists. exists c. split; [assumption|].
      rewrite startswith_app, skipn_app_exact. exact Hs.
    + rewrite in_app_iff. intros [H|H]; [now apply (classes_no_dot c)|now apply (strict_id_no_dot id)].
Qed.

Lemma is_hard_disk_key3 attr c id :
  is_hard_disk attr (c ++ id) = type_ok (dget (key3 c id s_devicetype) attr).
Proof. unfold is_hard_disk, type_ok, key3. now rewrite <- app_assoc. Qed.

Lemma In_spec_files attr f :
  In f (flat_map (spec_entry attr) attr) <->
  exists c id, In c spec_classes /\ strict_id id = true /\ In (key3 c id s_filename, f) attr /\
               nonempty f = true /\ type_ok (dget (key3 c id s_devicetype) attr) = true.
Proof.
  split.
  - intros H. apply in_flat_map in H as ([k v] & Hin & H). unfold spec_entry in H. simpl in H.
    destruct (filename_key k) as [dev|] eqn:E; [|contradiction].
    apply filename_key_spec in E as (c & id & Hc & Hs & -> & ->).
    destruct (nonempty v && is_hard_disk attr (c ++ id)) eqn:Hb; [|contradiction].
    destruct H as [<-|[]]. apply andb_true_iff in Hb as [Hv Hh]. rewrite is_hard_disk_key3 in Hh.
    exists c, id. auto.
  - intros (c & id & Hc & Hs & Hin & Hv & Ht). apply in_flat_map. exists (key3 c id s_filename, f).
    split; [assumption|]. unfold spec_entry. simpl.
    assert (E : filename_key (key3 c id s_filename) = Some (c ++ id)).
    { apply filename_key_spec. exists c, id. auto. }
    rewrite E, Hv, is_hard_disk_key3, Ht. now left.
Qed.

(* ---------- the theorem ---------- *)
Theorem vmx_disks_exact attr f :
  wf_vmx attr = true -> (In f (vmx_disks attr) <-> In f (spec_disks attr)).
Proof.
  intros Hwf. unfold vmx_disks, spec_disks. rewrite !In_sort.
  assert (Hnd : NoDup (map fst attr)).
  { unfold wf_vmx in Hwf. apply andb_true_iff in Hwf as [H _]. now apply nodup_keys_NoDup. }
  assert (Hent : forall k v, In (k, v) attr -> wf_entry (k, v) = true).
  { unfold wf_vmx in Hwf. apply andb_true_iff in Hwf as [_ H]. rewrite forallb_forall in H.
    intros k v Hin. now apply H. }
  rewrite In_disk_files by (apply wfd_collect_from, wfd_nil). rewrite In_spec_files.
  split.
  - intros (c & id & props & Hg & He). apply In_emit in He as (Hf & Hv & Ht).
    assert (G : get3 (collect attr) c id s_filename = Some f) by (unfold get3; now rewrite Hg).
    pose proof G as G'. apply get3_collect_some in G' as [(k & Hin & Hcl)|G']; [|discriminate].
    destruct (classify_wf _ _ _ _ _ (Hent _ _ Hin) Hcl) as (-> & Hc & Hd & Hh & Hs).
    assert (Hstrict : strict_id id = true) by (apply Hs; [reflexivity|destruct f; [discriminate|discriminate]]).
    exists c, id. repeat split; try assumption.
    rewrite <- (get3_strict attr Hwf c id s_devicetype Hc Hd Hh). unfold get3. now rewrite Hg.
  - intros (c & id & Hc & Hs & Hin & Hv & Ht).
    pose proof (strict_id_no_dot _ Hs) as Hd. pose proof (strict_id_head _ _ Hc Hs) as Hh.
    pose proof (get3_strict attr Hwf c id s_filename Hc Hd Hh) as G1.
    pose proof (get3_strict attr Hwf c id s_devicetype Hc Hd Hh) as G2.
    rewrite (In_dget _ _ _ Hnd Hin) in G1.
    unfold get3 in G1, G2. destruct (get2 (collect attr) c id) as [props|] eqn:Hg; [|discriminate].
    exists c, id, props. split; [exact Hg|]. apply In_emit. rewrite G1, G2. auto.
Qed.

Theorem vmx_disks_sorted attr : StronglySorted sle (vmx_disks attr).
Proof. apply sort_sorted. Qed.

(* ====================================================================== *)
(* VMX dictionaries: case-insensitive keys, comments / blank lines ignored,
   the last assignment of a key wins                                        *)

(* what one line contributes *)
Definition assignment (raw : str) : option (str * str) :=
  let line := strip raw in
  if negb (nonempty line) || startswith [35] line then None
  else let '(k, _, v) := partition 61 line in Some (lower (strip k), strip_chars [32; 34] v).

Definition assignments (ls : list str) : list (str * str) :=
  flat_map (fun l => match assignment l with Some kv => [kv] | None => [] end) ls.

Definition dset_kv (d : dict str) (kv : str * str) : dict str := dset (fst kv) (snd kv) d.

Lemma parse_line_assignment d raw :
  parse_line d raw = match assignment raw with Some kv => dset_kv d kv | None => d end.
Proof.
  unfold parse_line, assignment. rewrite pin_comment, pin_kv_sep, pin_value_strip.
  destruct (negb (nonempty (strip raw)) || startswith [35] (strip raw)); [reflexivity|].
  destruct (partition 61 (strip raw)) as [[k f] v]. reflexivity.
Qed.

Lemma parse_lines_from ls d :
  fold_left parse_line ls d = fold_left dset_kv (assignments ls) d.
Proof.
  revert d; induction ls as [|l ls IH]; intros d; simpl; [reflexivity|].
  unfold assignments in *. rewrite fold_left_app, IH, parse_line_assignment.
  destruct (assignment l); reflexivity.
Qed.

Lemma fold_dset_last kvs d k :
  dget k (fold_left dset_kv kvs d) =
  match last_assoc k kvs with Some v => Some v | None => dget k d end.
Proof.
  revert d; induction kvs as [|[k' v] r IH]; intros d; simpl; [reflexivity|].
  rewrite IH. destruct (last_assoc k r); [reflexivity|].
  unfold dset_kv; simpl. destruct (str_eqb k k') eqn:E.
  - apply str_eqb_eq in E. subst. apply dget_dset_same.
  - apply str_eqb_neq in E. apply dget_dset_other. congruence.
Qed.

(* the last assignment of a (case-folded) key wins *)
Theorem dict_last_wins ls k : dget k (parse_lines ls) = last_assoc k (assignments ls).
Proof.
  unfold parse_lines. rewrite parse_lines_from, fold_dset_last. destruct (last_assoc k (assignments ls)); reflexivity.
Qed.

Theorem dict_keys_unique ls : NoDup (map fst (parse_lines ls)).
Proof.
  unfold parse_lines. rewrite parse_lines_from.
  assert (G : forall kvs d, NoDup (map fst d) -> NoDup (map fst (fold_left dset_kv kvs d))).
  { induction kvs as [|kv r IH]; intros d H; simpl; [assumption|]. apply IH. now apply dset_nodup. }
  apply G. constructor.
Qed.

(* blank lines and comment lines contribute nothing, wherever they stand *)
Theorem dict_comment_blank_ignored ls1 l ls2 :
  strip l = [] \/ startswith [35] (strip l) = true ->
  parse_lines (ls1 ++ l :: ls2) = parse_lines (ls1 ++ ls2).
Proof.
  intros H. unfold parse_lines. rewrite !fold_left_app. simpl. f_equal.
  rewrite parse_line_assignment. unfold assignment.
  destruct H as [-> | ->]; [reflexivity|]. now rewrite orb_true_r.
Qed.

(* the text is cut at line feeds only *)
Theorem parse_dictionary_lines ls :
  ls <> [] -> Forall (fun l => ~ In 10 l) ls ->
  parse_dictionary (join_on 10 ls) = parse_lines ls.
Proof. intros H1 H2. unfold parse_dictionary. rewrite pin_line_sep. now rewrite split_join. Qed.

(* ---------- a rendered assignment line: casing, quoting and white space ----------
   line =  ws key ws '=' pad value pad ws   with ws any Unicode white space, pad any mix of
   spaces and double quotes, key without '=' / surrounding white space / leading '#', value
   non-empty and not beginning or ending with a space, a quote or white space.
   It contributes exactly (lower key, value). *)
Theorem assignment_rendered w1 k w2 p3 v p4 w4 :
  forallb is_space w1 = true -> forallb is_space w2 = true -> forallb is_space w4 = true ->
  forallb (memz [32; 34]) p3 = true -> forallb (memz [32; 34]) p4 = true ->
  k <> [] -> ~ In 61 k -> head_not is_space k = true -> last_not is_space k = true ->
  head_not (Z.eqb 35) k = true ->
  v <> [] -> head_not (memz [32; 34]) v = true -> last_not (memz [32; 34]) v = true ->
  last_not is_space v = true ->
  assignment (w1 ++ k ++ w2 ++ 61 :: p3 ++ v ++ p4 ++ w4) = Some (lower k, v).
Proof.
  intros Hw1 Hw2 Hw4 Hp3 Hp4 Hk Hkeq Hkh Hkl Hkc Hv Hvh Hvl Hvs.
  set (R := p3 ++ v ++ rstrip_p is_space p4).
  assert (S1 : strip (w1 ++ k ++ w2 ++ 61 :: p3 ++ v ++ p4 ++ w4) = (k ++ w2) ++ 61 :: R).
  { unfold strip, strip_p, lstrip_p. rewrite dropwhile_app_all by assumption.
    rewrite dropwhile_stop by (destruct k; [contradiction|exact Hkh]).
    rewrite app_assoc. rewrite rstrip_p_keep by reflexivity. f_equal. f_equal.
    destruct (last_not_split is_space v Hv Hvs) as (v' & c & -> & Hc).
    replace (p3 ++ (v' ++ [c]) ++ p4 ++ w4) with (((p3 ++ v') ++ c :: p4) ++ w4)
      by (rewrite <- !app_assoc; reflexivity).
    rewrite rstrip_p_app_all by assumption. rewrite rstrip_p_keep by assumption.
    unfold R. rewrite <- !app_assoc. reflexivity. }
  unfold assignment. rewrite S1.
  assert (Hne : nonempty ((k ++ w2) ++ 61 :: R) = true) by (destruct k; [contradiction|reflexivity]).
  assert (Hnc : startswith [35] ((k ++ w2) ++ 61 :: R) = false).
  { destruct k as [|c0 k']; [contradiction|]. cbn [head_not] in Hkc. apply negb_true_iff in Hkc.
    cbn [app startswith]. now rewrite Hkc. }
  rewrite Hne, Hnc. simpl negb. cbn [orb].
  rewrite partition_app.
  - f_equal. f_equal.
    + f_equal. change (k ++ w2) with ([] ++ k ++ w2). unfold strip. now apply strip_p_core.
    + unfold strip_chars, R. apply strip_p_core; [assumption|now apply forallb_rstrip|assumption|assumption].
  - rewrite in_app_iff. intros [H|H]; [contradiction|].
    rewrite forallb_forall in Hw2. specialize (Hw2 _ H). discriminate.
Qed.
