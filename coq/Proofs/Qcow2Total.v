(* Proofs/Qcow2Total.v — on a specification-conformant image the reader raises no exception:
   every request inside the virtual disk yields a plan (which, by Proofs/Qcow2.v, is the right one). *)
From Coq Require Import ZArith List Bool Lia.
From DH Require Import Base.Arith Base.Plan Base.Table.
From DH Require Import Gen.Consts Gen.Enums Gen.Qcow2Fun.
From DH Require Import Spec.Qcow2 Model.Qcow2 Proofs.Qcow2Bits Proofs.Qcow2Class Proofs.Qcow2.
Import ListNotations.
Open Scope Z_scope.

(* what the classification needs of an extended entry pair *)
Definition entry_good (q : geom) (e bm : Z) : Prop :=
  g_has_subclusters q = true ->
  both_any bm = false /\ (get_cluster_type q e = 0 -> alloc_any bm = false).

Lemma gct_ext_cases q e : g_has_subclusters q = true ->
  get_cluster_type q e = 4 \/ get_cluster_type q e = 3 \/ get_cluster_type q e = 0.
Proof.
  intros Hx. rewrite gct_eq, Hx. rewrite andb_false_r.
  destruct (Z.testbit e 62); [auto|].
  destruct (field e 9 47 * 512 =? 0); [|auto].
  destruct (g_has_data_file q && Z.testbit e 63); auto.
Qed.

Lemma gst_total q e bm s : 0 <= s -> entry_good q e bm ->
  exists ty, get_subcluster_type q e bm s = Ok ty /\ valid_type ty.
Proof.
  intros Hs Hg. destruct (g_has_subclusters q) eqn:Hx.
  - destruct (Hg Hx) as [Hb Ha].
    rewrite gst_ext_eq by assumption. unfold gst_ext. cbv zeta.
    destruct (gct_ext_cases q e Hx) as [Hc | [Hc | Hc]]; rewrite Hc.
    + change (4 =? 4) with true. cbv iota. eexists. split; [reflexivity|vm_compute; split; discriminate].
    + change (3 =? 4) with false. change (3 =? 3) with true. cbv iota. rewrite Hb.
      destruct (Z.testbit bm (s + 32)); [eexists; split; [reflexivity|vm_compute; split; discriminate]|].
      destruct (Z.testbit bm s); eexists; (split; [reflexivity|vm_compute; split; discriminate]).
    + change (0 =? 4) with false. change (0 =? 3) with false. change (0 =? 0) with true. cbv iota.
      rewrite (Ha Hc).
      destruct (Z.testbit bm (s + 32)); eexists; (split; [reflexivity|vm_compute; split; discriminate]).
  - unfold get_subcluster_type. cbv zeta. rewrite Hx, gct_eq, Hx. rewrite andb_true_r.
    destruct (Z.testbit e 62); [eexists; split; [reflexivity|vm_compute; split; discriminate]|].
    destruct (Z.testbit e 0).
    { destruct (field e 9 47 * 512 =? 0); eexists; (split; [reflexivity|vm_compute; split; discriminate]). }
    destruct (field e 9 47 * 512 =? 0); [|eexists; split; [reflexivity|vm_compute; split; discriminate]].
    destruct (g_has_data_file q && Z.testbit e 63); eexists; (split; [reflexivity|vm_compute; split; discriminate]).
Qed.

Lemma grt_total q e bm s : 0 <= s -> entry_good q e bm ->
  exists r, get_subcluster_range_type q e bm s = Ok r.
Proof.
  intros Hs Hg. destruct (gst_total q e bm s Hs Hg) as (ty & Hty & Hv).
  unfold get_subcluster_range_type. rewrite Hty. cbn [bind].
  destruct (negb (g_has_subclusters q) || (ty =? qcow2_QCow2SubclusterType_QCOW2_SUBCLUSTER_COMPRESSED)) eqn:H5;
    [eauto|].
  cbv zeta.
  destruct (ty =? qcow2_QCow2SubclusterType_QCOW2_SUBCLUSTER_NORMAL) eqn:H4; [eauto|].
  destruct (existsb (Z.eqb ty) qcow2_ZERO_SUBCLUSTER_TYPES) eqn:Hz; [eauto|].
  destruct (existsb (Z.eqb ty) qcow2_UNALLOCATED_SUBCLUSTER_TYPES) eqn:Hu; [eauto|].
  exfalso. apply orb_false_iff in H5. destruct H5 as [_ H5].
  destruct Hv as [Hv1 Hv2].
  assert (Hcases : ty = 0 \/ ty = 1 \/ ty = 2 \/ ty = 3 \/ ty = 4 \/ ty = 5) by lia.
  destruct Hcases as [-> | [-> | [-> | [-> | [-> | ->]]]]];
    first [ vm_compute in Hu; discriminate Hu | vm_compute in Hz; discriminate Hz
          | vm_compute in H4; discriminate H4 | vm_compute in H5; discriminate H5 ].
Qed.

Section Total.
  Variables (q : geom) (t : Z -> option Z) (l2i : Z).

  (* entries l2i + j, lo <= j < hi, exist and are well formed *)
  Definition entries_good (lo hi : Z) : Prop :=
    forall j, lo <= j < hi -> exists e bm,
      l2_entry q t (l2i + j) = Ok e /\ l2_bitmap q t (l2i + j) = Ok bm /\ entry_good q e bm.

  Lemma ccs_loop_total k : forall i count ety eoff chk,
    entries_good i (i + Z.of_nat k) ->
    exists r, ccs_loop q t l2i k i count ety eoff chk = Ok r.
  Proof.
    induction k as [|k IH]; intros i count ety eoff chk Hg; cbn [ccs_loop]; [eauto|].
    destruct (Hg i ltac:(lia)) as (e & bm & -> & -> & Hgood). cbn [bind].
    destruct (grt_total q e bm 0 ltac:(lia) Hgood) as ([ty n] & ->). cbn [bind].
    destruct (negb (ty =? ety)); [eauto|].
    destruct (chk && _); [eauto|].
    destruct (0 + n <? g_subclusters_per_cluster q); [eauto|].
    apply IH. intros j Hj. apply Hg. lia.
  Qed.

  Lemma ccs_total nb sc : 0 <= sc -> entries_good 0 nb ->
    exists r, count_contiguous_subclusters q nb sc t l2i = Ok r.
  Proof.
    intros Hsc Hg. unfold count_contiguous_subclusters.
    destruct (Z.leb_spec nb 0); [eauto|].
    destruct (Hg 0 ltac:(lia)) as (e & bm & He & Hbm & Hgood).
    rewrite Z.add_0_r in He, Hbm. rewrite He, Hbm. cbn [bind].
    destruct (grt_total q e bm sc Hsc Hgood) as ([ty n] & ->). cbn [bind].
    destruct (ty =? T_COMPRESSED); [eauto|].
    destruct (sc + n <? g_subclusters_per_cluster q); [eauto|].
    apply ccs_loop_total. intros j Hj. apply Hg. rewrite Z2Nat.id in Hj by lia. lia.
  Qed.
End Total.

(* ---------- from Spec.conformant to the facts above ---------- *)
Lemma both_any_of_spec bm :
  0 <= bm < 2 ^ 64 ->
  (forall s, 0 <= s < 32 -> Z.testbit bm s = true -> Z.testbit bm (32 + s) = false) ->
  both_any bm = false.
Proof.
  intros Hbm H. unfold both_any. apply negb_false_iff, Z.eqb_eq. apply Z.bits_inj_0. intros n.
  destruct (Z.lt_ge_cases n 0) as [Hneg|Hn]; [apply Z.testbit_neg_r; assumption|].
  rewrite Z.land_spec, Z.shiftr_spec by assumption.
  destruct (Z.lt_ge_cases n 32) as [Hlt|Hge].
  - destruct (Z.testbit bm n) eqn:Hb; [|apply andb_false_r].
    rewrite (Z.add_comm n 32), (H n ltac:(lia) Hb). reflexivity.
  - replace (Z.testbit bm (n + 32)) with false; [reflexivity|].
    symmetry. rewrite <- (Z.mod_small bm (2 ^ 64)) by lia. apply Z.mod_pow2_bits_high. lia.
Qed.

Lemma alloc_any_of_spec bm :
  (forall s, 0 <= s < 32 -> Z.testbit bm s = false) -> alloc_any bm = false.
Proof.
  intros H. unfold alloc_any. apply negb_false_iff, Z.eqb_eq.
  rewrite ones_pred by lia. apply Z.bits_inj_0. intros n.
  destruct (Z.lt_ge_cases n 0) as [Hneg|Hn]; [apply Z.testbit_neg_r; assumption|].
  rewrite Z.land_spec. destruct (Z.lt_ge_cases n 32).
  - rewrite H by lia. reflexivity.
  - rewrite Z.ones_spec_high by lia. apply andb_false_r.
Qed.

Section ImageTotal.
  Variable im : image.
  Variable size : Z.
  Hypothesis Hwf : wf_image im.
  Hypothesis Hconf : conformant (spec_of im) size.

  Let sim := spec_of im.
  Let cb := h_cluster_bits (i_hdr im).
  Let q := geo im.
  Let ext := ext_l2 sim.
  Let df := ext_data sim.
  Let L := l2b cb ext.

  Lemma total_geo : geom_ok q cb ext df /\ 9 <= cb <= 21.
  Proof. destruct Hwf as (Hv & Hcb & Hl1). split; [apply geo_ok; assumption|exact Hcb]. Qed.

  (* every entry of a referenced L2 table exists and is well formed *)
  Lemma table_good l1i l1e idx :
    i_l1 im l1i = Some l1e -> Z.land l1e qcow2_L1E_OFFSET_MASK <> 0 -> 0 <= idx < 2 ^ L ->
    exists e bm, l2_entry q (i_l2 im (Z.land l1e qcow2_L1E_OFFSET_MASK)) idx = Ok e /\
                 l2_bitmap q (i_l2 im (Z.land l1e qcow2_L1E_OFFSET_MASK)) idx = Ok bm /\ entry_good q e bm.
  Proof.
    intros Hl1e Hnz Hidx. destruct total_geo as [G Hcb]. destruct Hwf as (Hv & _ & Hl1).
    destruct Hconf as (_ & _ & _ & _ & _ & Hwords & Hext).
    rewrite l1e_offset in *.
    assert (Hf : field l1e 9 47 <> 0) by lia.
    specialize (Hwords l1i l1e Hl1e Hf). specialize (fun Hx => Hext Hx l1i l1e Hl1e Hf).
    change (s_l2 (spec_of im)) with (i_l2 im) in Hwords, Hext.
    pose proof (spec_l2_entries im Hcb) as Hl2n. fold sim cb ext L in Hl2n.
    pose proof (spec_cluster_size im) as Hcs. fold sim cb in Hcs.
    fold sim in Hwords, Hext. rewrite Hcs in Hwords. rewrite Hl2n in Hext.
    assert (Hcs8 : 2 ^ cb / 8 = 2 ^ (cb - 3)).
    { change 8 with (2 ^ 3). replace (2 ^ cb) with (2 ^ (cb - 3) * 2 ^ 3) by (rewrite <- Z.pow_add_r by lia; f_equal; lia).
      apply Z.div_mul. lia. }
    rewrite Hcs8 in Hwords.
    unfold l2_entry, l2_bitmap. rewrite (gk_es _ _ _ _ G), (gk_ext _ _ _ _ G).
    unfold entry_good. rewrite (gk_ext _ _ _ _ G).
    unfold L, l2b in Hidx.
    destruct ext eqn:Hx.
    - rewrite mul16_div8.
      assert (Hp : 2 ^ (cb - 3) = 2 * 2 ^ (cb - 4)).
      { replace (cb - 3) with (1 + (cb - 4)) by lia. rewrite Z.pow_add_r by lia. reflexivity. }
      destruct (Hwords (2 * idx) ltac:(lia)) as (e & He).
      destruct (Hwords (2 * idx + 1) ltac:(lia)) as (bm & Hbm).
      exists e, bm. rewrite He, Hbm. split; [reflexivity|]. split; [reflexivity|]. intros _.
      destruct (Hext Hx idx e bm Hidx He Hbm) as (He64 & Hbm64 & Hcomp & Hboth & Hun).
      split; [apply both_any_of_spec; assumption|].
      intros Hc. apply alloc_any_of_spec.
      rewrite gct_eq, (gk_ext _ _ _ _ G), (gk_df _ _ _ _ G) in Hc. rewrite andb_false_r in Hc.
      destruct (Z.testbit e 62) eqn:H62; [discriminate|].
      destruct (Z.eqb_spec (field e 9 47 * 512) 0) as [Hz|]; [|discriminate].
      fold df in Hc. destruct (df && Z.testbit e 63) eqn:Hd; [discriminate|].
      apply Hun; [reflexivity|lia|exact Hd].
    - rewrite mul8_div8. destruct (Hwords idx ltac:(lia)) as (e & He).
      exists e, 0. rewrite He. split; [reflexivity|]. split; [reflexivity|]. intros; discriminate.
  Qed.

  Theorem yield_runs_ok fuel : forall offset length,
    0 <= offset -> offset + length <= size -> length < Z.of_nat fuel ->
    exists runs, yield_runs im fuel offset length = Ok runs.
  Proof.
    destruct total_geo as [G Hcb]. destruct Hwf as (Hv & _ & Hl1).
    pose proof (B_pos im Hcb) as HB. pose proof (L_pos im Hcb) as HL. fold sim cb ext L in HL.
    induction fuel as [|fuel IH]; intros offset length Hoff Hend Hf.
    - cbn [yield_runs]. destruct (Z.leb_spec length 0); [eauto|lia].
    - cbn [yield_runs]. destruct (Z.leb_spec length 0) as [|Hlen]; [eauto|].
      cbv zeta. fold q.
      destruct (step_indices im Hv Hcb offset length) as (Hi1 & Hi2 & Hi3 & Hi4 & Hi5).
      fold sim cb ext q L in Hi1, Hi2, Hi3, Hi4, Hi5.
      rewrite Hi5. rewrite ?Hi1, ?Hi2, ?Hi3, ?Hi4.
      destruct (hd_fields im Hv) as (_ & Hl1s & _). rewrite Hl1s.
      set (S := if ext then 32 else 1) in *.
      set (B := scb cb ext) in *.
      set (oic := offset mod 2 ^ cb) in *.
      set (l2i := (offset / 2 ^ cb) mod 2 ^ L) in *.
      set (l1i := offset / 2 ^ cb / 2 ^ L) in *.
      set (bn := Z.min (length + oic) ((2 ^ L - l2i) * 2 ^ cb)) in *.
      assert (Hemit : forall (r : run) rc, 0 < rc <= length ->
                exists runs, (do rest <- yield_runs im fuel (offset + rc) (length - rc); Ok (r :: rest)) = Ok runs).
      { intros r rc Hrc. destruct (IH (offset + rc) (length - rc) ltac:(lia) ltac:(lia) ltac:(lia)) as (rest & ->).
        cbn [bind]. eauto. }
      destruct (Z.gtb_spec l1i (h_l1_size (i_hdr im))) as [Hgt|Hle].
      { apply Hemit. destruct (unalloc_step im Hcb offset length Hlen (or_introl (Hl1 l1i ltac:(lia)))) as [Hrc _].
        exact Hrc. }
      (* the L1 table covers the disk *)
      destruct Hconf as (_ & _ & _ & _ & Hcov & _).
      assert (Hcp : 0 < 2 ^ cb) by (apply pow2_pos; lia).
      destruct (Hcov (offset / 2 ^ cb)) as (l1e & Hl1e).
      { apply Z.div_pos; lia. }
      { change (cluster_size (spec_of im)) with (2 ^ cb).
        pose proof (Z.div_mod offset (2 ^ cb) ltac:(lia)). pose proof (Z.mod_pos_bound offset (2 ^ cb) Hcp). nia. }
      rewrite (spec_l2_entries im Hcb) in Hl1e. change (s_l1 (spec_of im)) with (i_l1 im) in Hl1e.
      fold sim cb ext L l1i in Hl1e. rewrite Hl1e. cbn [of_option bind].
      destruct (Z.eqb_spec (Z.land l1e qcow2_L1E_OFFSET_MASK) 0) as [Hz|Hnz].
      { apply Hemit. destruct (unalloc_step im Hcb offset length Hlen
                    (or_intror (ex_intro _ l1e (conj Hl1e Hz)))) as [Hrc _]. exact Hrc. }
      set (t := i_l2 im (Z.land l1e qcow2_L1E_OFFSET_MASK)).
      destruct (step_bounds im Hcb offset length Hlen) as (_ & Hoic & Hl2i & Hbn & _ & Hbn2).
      fold sim cb ext L oic l2i bn in Hoic, Hl2i, Hbn, Hbn2.
      destruct (table_good l1i l1e l2i Hl1e Hnz Hl2i) as (e0 & bm0 & He0 & Hbm0 & Hg0). fold t in He0, Hbm0.
      rewrite He0, Hbm0. cbn [bind].
      assert (Hscr : 0 <= (offset / 2 ^ B) mod S).
      { apply Z.mod_pos_bound. unfold S. destruct ext; lia. }
      destruct (gst_total q e0 bm0 _ Hscr Hg0) as (ty & Hty & _). rewrite Hty. cbn [bind].
      destruct (ccs_total q t l2i (size_to_clusters q bn) ((offset / 2 ^ B) mod S) Hscr) as (count & Hcount).
      { intros j Hj. apply (table_good l1i l1e (l2i + j) Hl1e Hnz).
        rewrite (size_to_clusters_eq q cb ext df G Hcb) in Hj.
        assert ((bn + (2 ^ cb - 1)) / 2 ^ cb <= 2 ^ L - l2i).
        { apply Z.lt_succ_r. apply Z.div_lt_upper_bound; [lia|]. nia. }
        lia. }
      rewrite Hcount. cbn [bind]. apply Hemit.
      destruct (entry_step im Hv Hcb offset length Hlen l1e e0 bm0 ty count Hl1e Hnz He0 Hbm0 Hty Hcount) as [Hrc _].
      rewrite (gk_scb _ _ _ _ G). rewrite Z.shiftl_mul_pow2 by exact HB. exact Hrc.
  Qed.
End ImageTotal.

(* QCow2._read on a conformant image: any request that starts inside the disk — even one running past its
   end — returns a plan, and that plan is exactly the guest bytes (the shape of dyn_read_correct) *)
Theorem qcow2_read_total im off len :
  wf_image im -> conformant (spec_of im) (size_of im) ->
  0 <= off < size_of im -> 0 < len ->
  let n := Z.min len (size_of im - off) in
  exists p, qcow2_read im (S (Z.to_nat n)) off len = Ok p /\
            srcs_of p = map (guest_src im) (zseq off n).
Proof.
  intros Hwf Hconf Hoff Hlen n. unfold qcow2_read. fold n.
  destruct (yield_runs_ok im (size_of im) Hwf Hconf (S (Z.to_nat n)) off n ltac:(lia) ltac:(unfold n; lia)
              ltac:(unfold n; lia)) as (runs & Hruns).
  exists (flat_map (seg_of_run im) runs). unfold read_runs. rewrite Hruns. cbn [bind]. split; [reflexivity|].
  destruct Hwf as (Hv & Hcb & Hl1). exact (yield_runs_correct im Hv Hcb Hl1 _ off n runs Hruns).
Qed.

(* non-vacuity of [conformant]: the 70-cluster two-table image of Proofs/Qcow2.v *)
Example ex_std_conformant : conformant (spec_of ex_std) (size_of ex_std).
Proof.
  unfold conformant.
  assert (Hext : ext_l2 (spec_of ex_std) = false) by reflexivity.
  split; [left; reflexivity|]. split; [vm_compute; split; discriminate|].
  split; [rewrite Hext; discriminate|]. split; [vm_compute; discriminate|].
  change (size_of ex_std) with 35740. change (cluster_size (spec_of ex_std)) with 512.
  change (l2_entries (spec_of ex_std)) with 64.
  change (s_l1 (spec_of ex_std)) with (tbl [(0, 4096); (1, 3072)] 0 2).
  split; [|split].
  - intros c Hc Hlt. assert (Hq : 0 <= c / 64 < 2).
    { split; [apply Z.div_pos; lia|apply Z.div_lt_upper_bound; lia]. }
    unfold tbl. destruct (Z.leb_spec 0 (c / 64)); [|lia]. destruct (Z.ltb_spec (c / 64) 2); [|lia].
    cbn [andb]. eauto.
  - intros i l1e Hi Hnz w Hw. change (512 / 8) with 64 in Hw.
    unfold tbl in Hi. destruct (Z.leb_spec 0 i); [|discriminate]. destruct (Z.ltb_spec i 2); [|discriminate].
    cbn [andb] in Hi. assert (Hcase : i = 0 \/ i = 1) by lia.
    change (s_l2 (spec_of ex_std)) with (i_l2 ex_std).
    destruct Hcase as [-> | ->]; cbn in Hi; injection Hi as <-.
    + change (field 4096 9 47 * 512) with 4096. unfold ex_std, i_l2, tbl2. cbn [assoc_z Z.eqb Pos.eqb].
      unfold tbl. destruct (Z.leb_spec 0 w); [|lia]. destruct (Z.ltb_spec w 64); [|lia]. cbn [andb]. eauto.
    + change (field 3072 9 47 * 512) with 3072. unfold ex_std, i_l2, tbl2. cbn [assoc_z Z.eqb Pos.eqb].
      unfold tbl. destruct (Z.leb_spec 0 w); [|lia]. destruct (Z.ltb_spec w 64); [|lia]. cbn [andb]. eauto.
  - rewrite Hext. discriminate.
Qed.
