(* Proofs/StreamBytes.v — composition: reader contract => byte back end => the stream returns the
   guest bytes, for every file content and every history. *)
From Coq Require Import ZArith List Bool Lia.
From DH Require Import Base.Arith Base.Plan Model.AlignedStream Model.AlignedStreamB Proofs.AlignedStream
  Proofs.AlignedStreamB Proofs.BlockMapped Proofs.StreamReaders.
Import ListNotations.
Open Scope Z_scope.

Section Compose.
  Context {B : Type}.
  Variable zero : B.
  Variables file data parent : Z -> B.
  Variable infl : Z -> Z -> B.
  Variables size align : Z.
  Variable bread : Z -> Z -> res (list seg).
  Variable gsrc : Z -> src.

  Notation guest := (guest zero file data parent infl gsrc).
  Notation backend := (bytes_backend zero file data parent infl bread).

  Lemma contract_bread_ok :
    reader_contract size align bread gsrc -> bread_ok size align backend guest.
  Proof.
    intros Hc off len H1 H2 H3 H4.
    destruct (Hc off len H1 H2 H3 H4) as (p & T & Hp & Hs & HT & Hex).
    unfold bytes_backend. rewrite Hp. cbn [bind]. eexists. split; [reflexivity|].
    assert (Hden : denote zero file data parent infl p = map guest (zseq off T)).
    { unfold denote. rewrite Hs, map_map. reflexivity. }
    rewrite Hden. unfold zlen. rewrite map_length.
    assert (HT0 : 0 <= T) by lia. rewrite zseq_length by lia.
    split; [exact HT|]. split; [apply firstn_map_zseq; lia|exact Hex].
  Qed.

  (* every finite history over a reader that meets the contract: exactly the guest bytes *)
  Theorem stream_returns_guest_bytes :
    0 < align -> 0 <= size -> reader_contract size align bread gsrc ->
    forall ops, exists st',
      brun size align backend binit ops = Ok (st', map (array_out guest) (spec_run size 0 ops)).
  Proof.
    intros Hal Hsz Hc ops.
    destruct (brun_is_array size align backend guest Hal Hsz (contract_bread_ok Hc) ops binit
                (BInv_init size align guest Hal)) as (st' & Hrun & _).
    exists st'. exact Hrun.
  Qed.
End Compose.

(* ---------------------------------------------------------------------------------------------------
   Instances: for every reader with a contract theorem, every history over its stream returns the
   guest bytes — for every content of the backing files, every stream buffer size the format allows.
   --------------------------------------------------------------------------------------------------- *)
From DH Require Import Base.Table Model.Vhd Proofs.Vhd Model.Vdi Proofs.Vdi Model.Vhdx Proofs.Vhdx Model.Hds Proofs.Hds.
From DH Require Model.Qcow2 Proofs.Qcow2 Spec.Qcow2 Model.Vmdk Proofs.Vmdk.

Section Instances.
  Context {B : Type}.
  Variable zero : B.
  Variables file data parent : Z -> B.
  Variable infl : Z -> Z -> B.
  Notation G := (guest zero file data parent infl).
  Notation BK := (bytes_backend zero file data parent infl).

  Theorem vhd_dyn_stream_bytes d align :
    wf_dyn d -> 0 < align -> align mod 512 = 0 ->
    forall ops, exists st',
      brun (d_size d) align
        (BK (fun off len => dyn_read d (fuel_for (cdiv (Z.min len (d_size d - off)) SECTOR)) off len)) binit ops =
      Ok (st', map (array_out (G (Vhd.guest_src d))) (spec_run (d_size d) 0 ops)).
  Proof.
    intros Hwf Hal Ham. pose proof Hwf as (_ & Hsz & _).
    apply (stream_returns_guest_bytes zero file data parent infl); [exact Hal|lia|].
    now apply vhd_dyn_contract.
  Qed.

  Theorem vhd_fixed_stream_bytes size align :
    0 <= size -> 0 < align -> align mod 512 = 0 ->
    forall ops, exists st',
      brun size align (BK (fun off len => Ok (fixed_read size off len))) binit ops =
      Ok (st', map (array_out (G fixed_src)) (spec_run size 0 ops)).
  Proof.
    intros Hsz Hal Ham.
    apply (stream_returns_guest_bytes zero file data parent infl); [exact Hal|exact Hsz|].
    now apply vhd_fixed_contract.
  Qed.

  Theorem vhdx_stream_bytes x align :
    geom_ok x -> states_ok x -> vhdx_wf_nodiff x -> 0 < align -> align mod x_ss x = 0 ->
    forall ops, exists st',
      brun (x_size x) align
        (BK (fun off len => vhdx_read x (vhdx_fuel (cdiv (Z.min len (x_size x - off)) (x_ss x))) off len)) binit ops =
      Ok (st', map (array_out (G (vhdx_src x))) (spec_run (x_size x) 0 ops)).
  Proof.
    intros Hg Hst Hwf Hal Ham.
    apply (stream_returns_guest_bytes zero file data parent infl); [exact Hal| |now apply vhdx_contract].
    destruct Hwf as (_ & Hsz & _). exact Hsz.
  Qed.

  Theorem hds_stream_bytes h align :
    0 < h_cs h -> hds_wf h -> 0 < align ->
    forall ops, exists st',
      brun (h_size h) align (BK (fun off len => hds_read h (hds_fuel len) off len)) binit ops =
      Ok (st', map (array_out (G (hds_src h))) (spec_run (h_size h) 0 ops)).
  Proof.
    intros Hcs Hwf Hal.
    apply (stream_returns_guest_bytes zero file data parent infl); [exact Hal|apply Hwf|].
    now apply hds_contract.
  Qed.

  Theorem qcow2_stream_bytes (im : Model.Qcow2.image) align :
    Proofs.Qcow2.wf_image im -> Spec.Qcow2.conformant (Model.Qcow2.spec_of im) (Model.Qcow2.size_of im) ->
    0 <= Model.Qcow2.size_of im -> 0 < align ->
    forall ops, exists st',
      brun (Model.Qcow2.size_of im) align
        (BK (fun off len => Model.Qcow2.qcow2_read im (S (Z.to_nat (Z.min len (Model.Qcow2.size_of im - off)))) off len))
        binit ops =
      Ok (st', map (array_out (G (Model.Qcow2.guest_src im))) (spec_run (Model.Qcow2.size_of im) 0 ops)).
  Proof.
    intros Hwf Hc Hsz Hal.
    apply (stream_returns_guest_bytes zero file data parent infl); [exact Hal|exact Hsz|].
    now apply qcow2_contract.
  Qed.

  Theorem vmdk_sparse_stream_bytes (f : Model.Vmdk.vfile) (sp : Model.Vmdk.sparse) hp align :
    Proofs.Vmdk.wf_sparse f sp -> 0 < align -> align mod 512 = 0 ->
    forall ops, exists st',
      brun (Model.Vmdk.sp_capacity sp * 512) align
        (BK (fun off len => match Model.Vmdk.vmdk_read (Model.Vmdk.mk_vmdk [Model.Vmdk.XSparse f sp hp]) off len with
                            | Ok p => Ok (Model.Vmdk.plan_of_x p) | Err => Err | Fuel => Fuel end)) binit ops =
      Ok (st', map (array_out (G (Model.Vmdk.guest_src f sp 0 hp))) (spec_run (Model.Vmdk.sp_capacity sp * 512) 0 ops)).
  Proof.
    intros Hwf Hal Ham. pose proof Hwf as (_ & _ & Hcap & _).
    apply (stream_returns_guest_bytes zero file data parent infl); [exact Hal|lia|].
    now apply vmdk_sparse_contract.
  Qed.
End Instances.
