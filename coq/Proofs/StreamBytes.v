(* Proofs/StreamBytes.v — composition: reader contract => byte back end => the stream returns the
   guest bytes, for every file content and every history. *)
From Coq Require Import ZArith List Bool Lia.
From DH Require Import Base.Arith Base.Plan Model.AlignedStream Model.AlignedStreamB Proofs.AlignedStream
  Proofs.AlignedStreamB Proofs.BlockMapped Proofs.StreamReaders.
Import ListNotations.
Open Scope Z_scope.

Section Compose.
  Context {B : Type}.
  Variable zero : B.
  Variables file data parent : Z -> B.
  Variable infl : Z -> Z -> B.
  Variables size align : Z.
  Variable bread : Z -> Z -> res (list seg).
  Variable gsrc : Z -> src.

  Notation guest := (guest zero file data parent infl gsrc).
  Notation backend := (bytes_backend zero file data parent infl bread).

  Lemma contract_bread_ok :
    reader_contract size align bread gsrc -> bread_ok size align backend guest.
  Proof.
    intros Hc off len H1 H2 H3 H4.
    destruct (Hc off len H1 H2 H3 H4) as (p & T & Hp & Hs & HT & Hex).
    unfold bytes_backend. rewrite Hp. cbn [bind]. eexists. split; [reflexivity|].
    assert (Hden : denote zero file data parent infl p = map guest (zseq off T)).
    { unfold denote. rewrite Hs, map_map. reflexivity. }
    rewrite Hden. unfold zlen. rewrite map_length.
    assert (HT0 : 0 <= T) by lia. rewrite zseq_length by lia.
    split; [exact HT|]. split; [apply firstn_map_zseq; lia|exact Hex].
  Qed.

  (* every finite history over a reader that meets the contract: exactly the guest bytes *)
  Theorem stream_returns_guest_bytes :
    0 < align -> 0 <= size -> reader_contract size align bread gsrc ->
    forall ops, exists st',
      brun size align backend binit ops = Ok (st', map (array_out guest) (spec_run size 0 ops)).
  Proof.
    intros Hal Hsz Hc ops.
    destruct (brun_is_array size align backend guest Hal Hsz (contract_bread_ok Hc) ops binit
                (BInv_init size align guest Hal)) as (st' & Hrun & _).
    exists st'. exact Hrun.
  Qed.
End Compose.
