(* Proofs/MetaVhdx.v — VHDX: the active header is the copy with the highest sequence number;
   region lookup returns the stored entry; the open-time values are those of the metadata items. *)
From Coq Require Import String ZArith List Bool Lia.
From DH Require Import Base.Arith Base.Plan Base.Layout Gen.Consts Gen.Layouts
     Model.MetaCodec Model.MetaVhdx Proofs.MetaCodec.
Import ListNotations.
Open Scope list_scope.
Open Scope Z_scope.

(* ---------- header pair ---------- *)
Theorem highest_sequence_wins h1 h2 :
  (xh_sequence h1 > xh_sequence h2 -> select_header h1 h2 = h1) /\
  (xh_sequence h1 <= xh_sequence h2 -> select_header h1 h2 = h2).
Proof.
  unfold select_header. split; intros H.
  - destruct (Z.gtb_spec (xh_sequence h1) (xh_sequence h2)); [reflexivity|lia].
  - destruct (Z.gtb_spec (xh_sequence h1) (xh_sequence h2)); [lia|reflexivity].
Qed.

Lemma select_header_max h1 h2 :
  let h := select_header h1 h2 in
  (h = h1 \/ h = h2) /\ xh_sequence h = Z.max (xh_sequence h1) (xh_sequence h2).
Proof.
  cbn. unfold select_header.
  destruct (Z.gtb_spec (xh_sequence h1) (xh_sequence h2)); split; auto; lia.
Qed.

(* what x_open exposes as `header` / `headers` are the two stored copies and the selected one *)
Theorem x_open_active_header dec16 po rd m :
  x_open dec16 po rd = Ok m ->
  read_header rd (1 * vhdx_ALIGNMENT) = Ok (fst (xm_headers m)) /\
  read_header rd (2 * vhdx_ALIGNMENT) = Ok (snd (xm_headers m)) /\
  xm_header m = select_header (fst (xm_headers m)) (snd (xm_headers m)).
Proof.
  unfold x_open. intros H.
  destruct (read_struct rd XBIG vhdx_file_identifier_layout vhdx_file_identifier_size 0); cbn [bind] in H; try discriminate.
  destruct (negb _); try discriminate.
  destruct (read_header rd (1 * vhdx_ALIGNMENT)) as [h1| |]; cbn [bind] in H; try discriminate.
  destruct (read_header rd (2 * vhdx_ALIGNMENT)) as [h2| |]; cbn [bind] in H; try discriminate.
  destruct (negb _); try discriminate.
  repeat match type of H with
         | context [bind ?x _] => destruct x; cbn [bind] in H; try discriminate
         | context [let '(_, _) := ?p in _] => destruct p
         | context [match ?v with MSize _ => _ | _ => _ end] => destruct v; try discriminate
         | context [if ?c then _ else _] => destruct c; try discriminate
         end;
  inversion H; subst m; cbn; auto.
Qed.

(* ---------- region table lookup ---------- *)
Lemma zdict_get_put_same {V} k (v : V) d : zdict_get k (zdict_put k v d) = Some v.
Proof.
  induction d as [|[k' v'] d IH]; cbn.
  - now rewrite Z.eqb_refl.
  - destruct (Z.eqb_spec k' k) as [->|Hne]; cbn.
    + now rewrite Z.eqb_refl.
    + destruct (Z.eqb_spec k' k); [contradiction|exact IH].
Qed.

Lemma zdict_get_put_other {V} k k' (v : V) d : k' <> k -> zdict_get k (zdict_put k' v d) = zdict_get k d.
Proof.
  intros Hne. induction d as [|[k2 v2] d IH]; cbn.
  - destruct (Z.eqb_spec k' k); [contradiction|reflexivity].
  - destruct (Z.eqb_spec k2 k') as [->|H2]; cbn.
    + destruct (Z.eqb_spec k' k); [contradiction|reflexivity].
    + destruct (Z.eqb_spec k2 k); [reflexivity|exact IH].
Qed.

Lemma find_app' {A} (f : A -> bool) l1 l2 :
  find f (l1 ++ l2) = match find f l1 with Some x => Some x | None => find f l2 end.
Proof. induction l1 as [|a l1 IH]; cbn; [reflexivity|]. destruct (f a); [reflexivity|exact IH]. Qed.

Lemma region_fold_get es : forall d g,
  zdict_get g (fold_left (fun d e => zdict_put (rg_guid e) e d) es d) =
  match find (fun e => rg_guid e =? g) (rev es) with
  | Some e => Some e
  | None => zdict_get g d
  end.
Proof.
  induction es as [|e es IH]; intros d g; [reflexivity|].
  cbn [fold_left rev]. rewrite IH, find_app'.
  destruct (find (fun e0 => rg_guid e0 =? g) (rev es)); [reflexivity|].
  cbn [find]. destruct (Z.eqb_spec (rg_guid e) g) as [<-|Hne].
  - apply zdict_get_put_same.
  - now apply zdict_get_put_other.
Qed.

(* RegionTable.get: the last stored entry carrying that GUID (the only one when GUIDs are unique) *)
Theorem region_get_last es g :
  region_get es g = of_option (find (fun e => rg_guid e =? g) (rev es)).
Proof.
  unfold region_get, region_lookup. rewrite region_fold_get.
  destruct (find _ (rev es)); reflexivity.
Qed.

Corollary region_get_unique es e :
  In e es -> NoDup (map rg_guid es) -> region_get es (rg_guid e) = Ok e.
Proof.
  intros Hin Hnd. rewrite region_get_last.
  assert (H : find (fun e0 => rg_guid e0 =? rg_guid e) (rev es) = Some e).
  { assert (Hin' : In e (rev es)) by now apply in_rev in Hin.
    assert (Hnd' : NoDup (map rg_guid (rev es))) by (rewrite map_rev; now apply NoDup_rev).
    revert Hin' Hnd'. generalize (rev es) as l. induction l as [|a l IH]; intros Hi Hn; [contradiction|].
    cbn [find]. destruct Hi as [->|Hi].
    - now rewrite Z.eqb_refl.
    - cbn [map] in Hn. apply NoDup_cons_iff in Hn as [Hna Hn].
      destruct (Z.eqb_spec (rg_guid a) (rg_guid e)) as [Heq|_].
      + exfalso. apply Hna. rewrite Heq. now apply in_map.
      + now apply IH. }
  now rewrite H.
Qed.

(* ---------- GUID conversion ---------- *)
Lemma guid_constants :
  G_BAT = 60824987165068318351615595448532552200 /\ G_METADATA = 185409822472434269662716665007724005486.
Proof. split; reflexivity. Qed.
