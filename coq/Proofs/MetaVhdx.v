(* Proofs/MetaVhdx.v — VHDX: the active header is the copy with the highest sequence number;
   region lookup returns the stored entry; the open-time values are those of the metadata items. *)
From Coq Require Import String ZArith List Bool Lia.
From DH Require Import Base.Arith Base.Plan Base.Layout Gen.Consts Gen.Layouts
     Model.MetaCodec Model.MetaVhdx Proofs.MetaCodec Proofs.MetaText.
Import ListNotations.
Open Scope list_scope.
Open Scope Z_scope.

(* ---------- header pair ---------- *)
Theorem highest_sequence_wins h1 h2 :
  (xh_sequence h1 > xh_sequence h2 -> select_header h1 h2 = h1) /\
  (xh_sequence h1 <= xh_sequence h2 -> select_header h1 h2 = h2).
Proof.
  unfold select_header. split; intros H.
  - destruct (Z.gtb_spec (xh_sequence h1) (xh_sequence h2)); [reflexivity|lia].
  - destruct (Z.gtb_spec (xh_sequence h1) (xh_sequence h2)); [lia|reflexivity].
Qed.

Lemma select_header_max h1 h2 :
  let h := select_header h1 h2 in
  (h = h1 \/ h = h2) /\ xh_sequence h = Z.max (xh_sequence h1) (xh_sequence h2).
Proof.
  cbn. unfold select_header.
  destruct (Z.gtb_spec (xh_sequence h1) (xh_sequence h2)); split; auto; lia.
Qed.

(* what x_open exposes as `header` / `headers` are the two stored copies and the selected one *)
Theorem x_open_active_header dec16 po rd m :
  x_open dec16 po rd = Ok m ->
  read_header rd (1 * vhdx_ALIGNMENT) = Ok (fst (xm_headers m)) /\
  read_header rd (2 * vhdx_ALIGNMENT) = Ok (snd (xm_headers m)) /\
  xm_header m = select_header (fst (xm_headers m)) (snd (xm_headers m)).
Proof.
  unfold x_open. intros H.
  destruct (read_struct rd XBIG vhdx_file_identifier_layout vhdx_file_identifier_size 0); cbn [bind] in H; try discriminate.
  destruct (negb _); try discriminate.
  destruct (read_header rd (1 * vhdx_ALIGNMENT)) as [h1| |]; cbn [bind] in H; try discriminate.
  destruct (read_header rd (2 * vhdx_ALIGNMENT)) as [h2| |]; cbn [bind] in H; try discriminate.
  destruct (negb _); try discriminate.
  repeat match type of H with
         | context [bind ?x _] => destruct x; cbn [bind] in H; try discriminate
         | context [let '(_, _) := ?p in _] => destruct p
         | context [match ?v with MSize _ => _ | _ => _ end] => destruct v; try discriminate
         | context [if ?c then _ else _] => destruct c; try discriminate
         end;
  inversion H; subst m; cbn; auto.
Qed.

(* ---------- region table lookup ---------- *)
Lemma zdict_get_put_same {V} k (v : V) d : zdict_get k (zdict_put k v d) = Some v.
Proof.
  induction d as [|[k' v'] d IH]; cbn.
  - now rewrite Z.eqb_refl.
  - destruct (Z.eqb_spec k' k) as [->|Hne]; cbn.
    + now rewrite Z.eqb_refl.
    + destruct (Z.eqb_spec k' k); [contradiction|exact IH].
Qed.

Lemma zdict_get_put_other {V} k k' (v : V) d : k' <> k -> zdict_get k (zdict_put k' v d) = zdict_get k d.
Proof.
  intros Hne. induction d as [|[k2 v2] d IH]; cbn.
  - destruct (Z.eqb_spec k' k); [contradiction|reflexivity].
  - destruct (Z.eqb_spec k2 k') as [->|H2]; cbn.
    + destruct (Z.eqb_spec k' k); [contradiction|reflexivity].
    + destruct (Z.eqb_spec k2 k); [reflexivity|exact IH].
Qed.

Lemma find_app' {A} (f : A -> bool) l1 l2 :
  find f (l1 ++ l2) = match find f l1 with Some x => Some x | None => find f l2 end.
Proof. induction l1 as [|a l1 IH]; cbn; [reflexivity|]. destruct (f a); [reflexivity|exact IH]. Qed.

Lemma region_fold_get es : forall d g,
  zdict_get g (fold_left (fun d e => zdict_put (rg_guid e) e d) es d) =
  match find (fun e => rg_guid e =? g) (rev es) with
  | Some e => Some e
  | None => zdict_get g d
  end.
Proof.
  induction es as [|e es IH]; intros d g; [reflexivity|].
  cbn [fold_left rev]. rewrite IH, find_app'.
  destruct (find (fun e0 => rg_guid e0 =? g) (rev es)); [reflexivity|].
  cbn [find]. destruct (Z.eqb_spec (rg_guid e) g) as [<-|Hne].
  - apply zdict_get_put_same.
  - now apply zdict_get_put_other.
Qed.

(* RegionTable.get: the last stored entry carrying that GUID (the only one when GUIDs are unique) *)
Theorem region_get_last es g :
  region_get es g = of_option (find (fun e => rg_guid e =? g) (rev es)).
Proof.
  unfold region_get, region_lookup. rewrite region_fold_get.
  destruct (find _ (rev es)); reflexivity.
Qed.

Corollary region_get_unique es e :
  In e es -> NoDup (map rg_guid es) -> region_get es (rg_guid e) = Ok e.
Proof.
  intros Hin Hnd. rewrite region_get_last.
  assert (H : find (fun e0 => rg_guid e0 =? rg_guid e) (rev es) = Some e).
  { assert (Hin' : In e (rev es)) by now apply in_rev in Hin.
    assert (Hnd' : NoDup (map rg_guid (rev es))) by (rewrite map_rev; now apply NoDup_rev).
    revert Hin' Hnd'. generalize (rev es) as l. induction l as [|a l IH]; intros Hi Hn; [contradiction|].
    cbn [find]. destruct Hi as [->|Hi].
    - now rewrite Z.eqb_refl.
    - cbn [map] in Hn. apply NoDup_cons_iff in Hn as [Hna Hn].
      destruct (Z.eqb_spec (rg_guid a) (rg_guid e)) as [Heq|_].
      + exfalso. apply Hna. rewrite Heq. now apply in_map.
      + now apply IH. }
  now rewrite H.
Qed.

(* ---------- GUID conversion ---------- *)
Lemma guid_constants :
  G_BAT = 60824987165068318351615595448532552200 /\ G_METADATA = 185409822472434269662716665007724005486.
Proof. split; reflexivity. Qed.

(* ---------- parent locator: UTF-16-LE keys and values at stored offsets ---------- *)
Ltac assoc := repeat rewrite <- app_assoc; reflexivity.

Section Locator.
  Variables (enc16 : list Z -> list Z) (dec16 : list Z -> option (list Z)) (ok : list Z -> Prop).
  Hypothesis dec_enc : forall s, ok s -> dec16 (enc16 s) = Some s.
  Definition kv_texts_ok (kv : list Z * list Z) : Prop := ok (fst kv) /\ ok (snd kv).

  Definition entry_rec (ko vo kl vl : Z) : record :=
    [("key_offset"%string, VInt ko); ("value_offset"%string, VInt vo);
     ("key_length"%string, VInt kl); ("value_length"%string, VInt vl)].

  Fixpoint entry_recs (pos : Z) (kvs : list (list Z * list Z)) : list record :=
    match kvs with
    | [] => []
    | (k, v) :: r => let kl := zlen (enc16 k) in let vl := zlen (enc16 v) in
                     entry_rec pos (pos + kl) kl vl :: entry_recs (pos + kl + vl) r
    end.

  (* what the on-disk fields can hold *)
  Fixpoint kvs_ok (pos : Z) (kvs : list (list Z * list Z)) : Prop :=
    match kvs with
    | [] => True
    | (k, v) :: r => let kl := zlen (enc16 k) in let vl := zlen (enc16 v) in
                     0 <= pos /\ pos + kl < 2 ^ 32 /\ kl < 2 ^ 16 /\ vl < 2 ^ 16 /\ kvs_ok (pos + kl + vl) r
    end.

  Lemma locator_table_len kvs : forall pos, zlen (locator_table enc16 pos kvs) = 12 * zlen kvs.
  Proof.
    induction kvs as [|[k v] r IH]; intros pos; [reflexivity|].
    cbn [locator_table]. rewrite !zlen_app, !zlen_le_bytes, IH, zlen_cons. lia.
  Qed.

  Lemma entry_encode ko vo kl vl :
    le_bytes 4 ko ++ le_bytes 4 vo ++ le_bytes 2 kl ++ le_bytes 2 vl
    = encode_struct XBIG vhdx_parent_locator_entry_layout (entry_rec ko vo kl vl).
  Proof. cbn. now rewrite app_nil_r. Qed.

  Lemma entry_wf ko vo kl vl :
    0 <= ko < 2 ^ 32 -> 0 <= vo < 2 ^ 32 -> 0 <= kl < 2 ^ 16 -> 0 <= vl < 2 ^ 16 ->
    wf_vals vhdx_parent_locator_entry_layout (entry_rec ko vo kl vl).
  Proof.
    intros. cbn [wf_vals entry_rec vhdx_parent_locator_entry_layout]. unfold val_ok.
    cbn [is_scalar f_kind f_count Z.eqb Pos.eqb f_size f_name].
    change (256 ^ 4) with (2 ^ 32). change (256 ^ 2) with (2 ^ 16).
    repeat split; eexists; (split; [reflexivity|]); lia.
  Qed.

  Lemma table_decode kvs : forall pos rest,
    kvs_ok pos kvs ->
    all_ok (map (decode_struct XBIG vhdx_parent_locator_entry_layout vhdx_parent_locator_entry_size)
                (chunks_of (length kvs) vhdx_parent_locator_entry_size (locator_table enc16 pos kvs ++ rest)))
    = Some (entry_recs pos kvs).
  Proof.
    induction kvs as [|[k v] r IH]; intros pos rest Hok; [reflexivity|].
    destruct Hok as (Hp & Hpk & Hkl & Hvl & Hok).
    pose proof (zlen_nonneg (enc16 k)). pose proof (zlen_nonneg (enc16 v)).
    cbn [length chunks_of locator_table entry_recs map].
    set (kl := zlen (enc16 k)) in *. set (vl := zlen (enc16 v)) in *.
    set (e := le_bytes 4 pos ++ le_bytes 4 (pos + kl) ++ le_bytes 2 kl ++ le_bytes 2 vl).
    assert (He : zlen e = 12) by (unfold e; rewrite !zlen_app, !zlen_le_bytes; reflexivity).
    replace ((le_bytes 4 pos ++ le_bytes 4 (pos + kl) ++ le_bytes 2 kl ++ le_bytes 2 vl ++
              locator_table enc16 (pos + kl + vl) r) ++ rest)
      with (e ++ (locator_table enc16 (pos + kl + vl) r ++ rest)) by (unfold e; assoc).
    change vhdx_parent_locator_entry_size with 12 in *.
    assert (Hf : firstn (Z.to_nat 12) (e ++ locator_table enc16 (pos + kl + vl) r ++ rest) = e).
    { unfold zlen in He. rewrite firstn_app. replace (Z.to_nat 12 - length e)%nat with 0%nat by lia.
      cbn [firstn]. rewrite app_nil_r. apply firstn_all2. lia. }
    assert (Hs : skipn (Z.to_nat 12) (e ++ locator_table enc16 (pos + kl + vl) r ++ rest)
                 = locator_table enc16 (pos + kl + vl) r ++ rest).
    { unfold zlen in He. rewrite skipn_app. replace (Z.to_nat 12 - length e)%nat with 0%nat by lia.
      rewrite skipn_all2 by lia. reflexivity. }
    rewrite Hf, Hs. cbn [all_ok].
    unfold e. rewrite entry_encode.
    rewrite <- (app_nil_r (encode_struct _ _ _)).
    change 12 with (layout_size vhdx_parent_locator_entry_layout).
    rewrite struct_roundtrip; [|reflexivity|apply entry_wf; lia].
    change (layout_size vhdx_parent_locator_entry_layout) with 12.
    rewrite (IH _ rest Hok). reflexivity.
  Qed.

  Lemma entries_read kvs : forall buf PRE post base d pos,
    Forall kv_texts_ok kvs ->
    buf = PRE ++ locator_strings enc16 kvs ++ post -> zlen PRE = base + pos ->
    locator_entries dec16 (buf_reader buf) base (entry_recs pos kvs) d
    = Ok (fold_left (fun d kv => dict_put (fst kv) (snd kv) d) kvs d).
  Proof.
    induction kvs as [|[k v] r IH]; intros buf PRE post base d pos Hok Hb Hpre; [reflexivity|].
    pose proof (Forall_inv Hok) as [Hkok Hvok]. cbn [fst snd] in Hkok, Hvok.
    pose proof (Forall_inv_tail Hok) as Hok'.
    cbn [entry_recs locator_entries locator_strings fold_left fst snd].
    change (vint (entry_rec pos (pos + zlen (enc16 k)) (zlen (enc16 k)) (zlen (enc16 v))) "key_offset") with pos.
    change (vint (entry_rec pos (pos + zlen (enc16 k)) (zlen (enc16 k)) (zlen (enc16 v))) "key_length")
      with (zlen (enc16 k)).
    change (vint (entry_rec pos (pos + zlen (enc16 k)) (zlen (enc16 k)) (zlen (enc16 v))) "value_offset")
      with (pos + zlen (enc16 k)).
    change (vint (entry_rec pos (pos + zlen (enc16 k)) (zlen (enc16 k)) (zlen (enc16 v))) "value_length")
      with (zlen (enc16 v)).
    cbn [locator_strings] in Hb.
    assert (Hk : buf_reader buf (base + pos) (zlen (enc16 k)) = enc16 k).
    { rewrite Hb. replace (PRE ++ (enc16 k ++ enc16 v ++ locator_strings enc16 r) ++ post)
        with (PRE ++ enc16 k ++ (enc16 v ++ locator_strings enc16 r ++ post)) by assoc.
      apply buf_reader_mid; [lia|reflexivity]. }
    assert (Hv : buf_reader buf (base + (pos + zlen (enc16 k))) (zlen (enc16 v)) = enc16 v).
    { rewrite Hb. replace (PRE ++ (enc16 k ++ enc16 v ++ locator_strings enc16 r) ++ post)
        with ((PRE ++ enc16 k) ++ enc16 v ++ (locator_strings enc16 r ++ post)) by assoc.
      apply buf_reader_mid; [rewrite zlen_app; lia|reflexivity]. }
    rewrite Hk, Hv, (dec_enc k Hkok), (dec_enc v Hvok). cbn [of_option bind].
    apply (IH buf (PRE ++ enc16 k ++ enc16 v) post).
    - exact Hok'.
    - rewrite Hb. assoc.
    - rewrite !zlen_app. lia.
  Qed.

  (* ParentLocator(render type kvs) exposes the stored type and exactly the stored key/value pairs *)
  Theorem locator_roundtrip type_le kvs pre post o :
    o = zlen pre -> zlen type_le = 16 -> zlen kvs < 2 ^ 16 -> Forall kv_texts_ok kvs ->
    kvs_ok (vhdx_parent_locator_header_size + zlen kvs * vhdx_parent_locator_entry_size) kvs ->
    parent_locator dec16 (buf_reader (pre ++ locator_render enc16 type_le kvs ++ post)) o
    = Ok {| pl_type := uuid_of_bytes_le type_le; pl_entries := dict_of kvs |}.
  Proof.
    intros -> Ht Hn Htx Hok. unfold parent_locator, locator_render.
    change vhdx_parent_locator_header_size with 20 in *. change vhdx_parent_locator_entry_size with 12 in *.
    set (n := zlen kvs) in *. pose proof (zlen_nonneg kvs) as Hn0. fold n in Hn0.
    set (tbl := locator_table enc16 (20 + n * 12) kvs).
    set (strs := locator_strings enc16 kvs).
    set (hr := [("locator_type"%string, VBytes type_le); ("reserved"%string, VInt 0);
                ("key_value_count"%string, VInt n)]).
    assert (Hh : type_le ++ le_bytes 2 0 ++ le_bytes 2 n
                 = encode_struct XBIG vhdx_parent_locator_header_layout hr).
    { cbn. now rewrite app_nil_r. }
    replace (pre ++ (type_le ++ le_bytes 2 0 ++ le_bytes 2 n ++ tbl ++ strs) ++ post)
      with (pre ++ (type_le ++ le_bytes 2 0 ++ le_bytes 2 n) ++ (tbl ++ strs ++ post)) by assoc.
    rewrite Hh.
    change 20 with (layout_size vhdx_parent_locator_header_layout) at 1.
    rewrite read_struct_roundtrip; [|reflexivity| |reflexivity].
    2:{ cbn [wf_vals hr vhdx_parent_locator_header_layout]. unfold val_ok.
        cbn [is_scalar f_kind f_count Z.eqb Pos.eqb f_size f_name]. change (256 ^ 2) with (2 ^ 16).
        repeat split; eexists; (split; [reflexivity|]); lia. }
    cbn [bind].
    change (vint hr "key_value_count") with n. change (vbytes hr "locator_type") with type_le.
    (* the entry table *)
    unfold read_array, read_exact.
    assert (Htl : zlen tbl = n * 12) by (unfold tbl; rewrite locator_table_len; fold n; lia).
    assert (Hhl : zlen (encode_struct XBIG vhdx_parent_locator_header_layout hr) = 20).
    { rewrite <- Hh, !zlen_app, !zlen_le_bytes, Ht. reflexivity. }
    set (hb := encode_struct XBIG vhdx_parent_locator_header_layout hr) in *.
    replace (pre ++ hb ++ tbl ++ strs ++ post) with ((pre ++ hb) ++ tbl ++ (strs ++ post)) by assoc.
    rewrite (buf_reader_mid (pre ++ hb) tbl (strs ++ post) (zlen pre + 20) (n * 12))
      by (try (rewrite zlen_app; lia); lia).
    rewrite Htl, Z.ltb_irrefl. cbn [bind].
    replace (Z.to_nat n) with (length kvs) by (unfold n, zlen; lia).
    pose proof (table_decode kvs (20 + n * 12) [] Hok) as Htd.
    change vhdx_parent_locator_entry_size with 12 in Htd. rewrite app_nil_r in Htd. fold tbl in Htd.
    rewrite Htd. cbn [of_option bind].
    (* keys and values *)
    fold tbl.
    rewrite (entries_read kvs _ ((pre ++ hb) ++ tbl) post (zlen pre) [] (20 + n * 12)).
    - reflexivity.
    - exact Htx.
    - fold strs. assoc.
    - rewrite !zlen_app, Hhl, Htl. lia.
  Qed.
End Locator.

(* with the model's own UTF-16-LE codec no codec hypothesis is left: any strings of Unicode scalar values *)
Corollary locator_roundtrip_utf16 type_le kvs pre post o :
  o = zlen pre -> zlen type_le = 16 -> zlen kvs < 2 ^ 16 ->
  Forall (fun kv => Forall (fun c => scalar c = true) (fst kv) /\ Forall (fun c => scalar c = true) (snd kv)) kvs ->
  kvs_ok utf16le_encode (vhdx_parent_locator_header_size + zlen kvs * vhdx_parent_locator_entry_size) kvs ->
  parent_locator utf16le_decode (buf_reader (pre ++ locator_render utf16le_encode type_le kvs ++ post)) o
  = Ok {| pl_type := uuid_of_bytes_le type_le; pl_entries := dict_of kvs |}.
Proof.
  intros. apply (locator_roundtrip utf16le_encode utf16le_decode (Forall (fun c => scalar c = true)) utf16le_roundtrip);
    assumption.
Qed.
