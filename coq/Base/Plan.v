(* Base/Plan.v — ranges, outcomes, byte sources and read plans.

   A reader model never returns bytes: it returns a *plan*, a list of
   segments naming where each byte comes from.  [srcs_of] expands a plan into
   the per-byte list of sources; a reader is correct when that list equals
   [map guest_src (zseq off len)].  Since sources are symbolic the statement
   holds for every content of the backing files (see [denote]). *)
From Coq Require Import ZArith List Bool Lia.
Import ListNotations.
Open Scope Z_scope.

(* ---------- outcomes ---------- *)
Inductive res (A : Type) : Type :=
| Ok (a : A)      (* the implementation returns a *)
| Err             (* the implementation raises *)
| Fuel.           (* the model ran out of fuel: excluded by every theorem *)
Arguments Ok {A} a.
Arguments Err {A}.
Arguments Fuel {A}.

Definition bind {A B} (r : res A) (f : A -> res B) : res B :=
  match r with Ok a => f a | Err => Err | Fuel => Fuel end.
Notation "'do' x <- r ; k" := (bind r (fun x => k))
  (at level 200, x name, r at level 100, k at level 200).

Definition of_option {A} (o : option A) : res A :=
  match o with Some a => Ok a | None => Err end.

(* ---------- integer ranges ---------- *)
Fixpoint zseq_nat (o : Z) (k : nat) : list Z :=
  match k with O => [] | S k' => o :: zseq_nat (o + 1) k' end.
Definition zseq (o n : Z) : list Z := zseq_nat o (Z.to_nat n).

Lemma zseq_nat_length o k : length (zseq_nat o k) = k.
Proof. revert o; induction k as [|k IH]; intros o; simpl; [reflexivity|now rewrite IH]. Qed.

Lemma zseq_length o n : 0 <= n -> Z.of_nat (length (zseq o n)) = n.
Proof. intros; unfold zseq; rewrite zseq_nat_length; lia. Qed.

Lemma zseq_nat_app o a b :
  zseq_nat o (a + b) = zseq_nat o a ++ zseq_nat (o + Z.of_nat a) b.
Proof.
  revert o; induction a as [|a IH]; intros o.
  - simpl. now replace (o + 0) with o by lia.
  - cbn [Nat.add zseq_nat app]. rewrite IH. do 3 f_equal. lia.
Qed.

Lemma zseq_app o n m :
  0 <= n -> 0 <= m -> zseq o (n + m) = zseq o n ++ zseq (o + n) m.
Proof.
  intros Hn Hm. unfold zseq. rewrite Z2Nat.inj_add by lia.
  rewrite zseq_nat_app. now rewrite Z2Nat.id by lia.
Qed.

Lemma zseq_nonpos o n : n <= 0 -> zseq o n = [].
Proof. intros; unfold zseq. now replace (Z.to_nat n) with 0%nat by lia. Qed.

Lemma zseq_nat_In o k i : In i (zseq_nat o k) <-> o <= i < o + Z.of_nat k.
Proof.
  revert o; induction k as [|k IH]; intros o; simpl.
  - lia.
  - rewrite IH. lia.
Qed.

Lemma zseq_In o n i : In i (zseq o n) <-> o <= i < o + n /\ 0 < n.
Proof.
  unfold zseq. rewrite zseq_nat_In. lia.
Qed.

Lemma map_ext_zseq_nat {A} (f g : Z -> A) o k :
  (forall i, o <= i < o + Z.of_nat k -> f i = g i) ->
  map f (zseq_nat o k) = map g (zseq_nat o k).
Proof.
  intros H. apply map_ext_in. intros i Hi. apply H. now apply zseq_nat_In.
Qed.

Lemma map_ext_zseq {A} (f g : Z -> A) o n :
  (forall i, o <= i < o + n -> f i = g i) ->
  map f (zseq o n) = map g (zseq o n).
Proof.
  intros H. unfold zseq. apply map_ext_zseq_nat. intros i Hi. apply H. lia.
Qed.

Lemma zseq_nat_shift {A} (f : Z -> A) o d k :
  map f (zseq_nat (o + d) k) = map (fun i => f (i + d)) (zseq_nat o k).
Proof.
  revert o; induction k as [|k IH]; intros o; simpl; [reflexivity|].
  f_equal. replace (o + d + 1) with (o + 1 + d) by lia. apply IH.
Qed.

Lemma zseq_shift {A} (f : Z -> A) o d n :
  map f (zseq (o + d) n) = map (fun i => f (i + d)) (zseq o n).
Proof. unfold zseq. apply zseq_nat_shift. Qed.

(* map over [zseq o n] seen as a function of the relative index *)
Lemma zseq_rel {A} (f : Z -> A) o n :
  map f (zseq o n) = map (fun j => f (o + j)) (zseq 0 n).
Proof.
  replace o with (0 + o) at 1 by lia. rewrite zseq_shift.
  apply map_ext. intros j. f_equal. lia.
Qed.

Lemma zseq_succ o n : 0 <= n -> zseq o (n + 1) = zseq o n ++ [o + n].
Proof.
  intros. rewrite zseq_app by lia. reflexivity.
Qed.

Lemma zseq_cons o n : 0 < n -> zseq o n = o :: zseq (o + 1) (n - 1).
Proof.
  intros. replace n with (1 + (n - 1)) at 1 by lia.
  rewrite zseq_app by lia. reflexivity.
Qed.

(* ---------- byte sources ---------- *)
Inductive src : Type :=
| Zero                       (* a zero byte *)
| File (o : Z)               (* byte o of the image file *)
| Data (o : Z)               (* byte o of the external data file *)
| Parent (o : Z)             (* guest byte o of the parent / backing layer *)
| Infl (d : Z) (k : Z).      (* byte k of the inflated unit described by d *)

(* ---------- plan segments ---------- *)
Inductive seg : Type :=
| SZero (n : Z)
| SFile (o n : Z)
| SData (o n : Z)
| SParent (o n : Z)
| SInfl (d k n : Z).

Definition seg_len (s : seg) : Z :=
  match s with
  | SZero n | SFile _ n | SData _ n | SParent _ n | SInfl _ _ n => n
  end.

Definition srcs_of_seg (s : seg) : list src :=
  match s with
  | SZero n => map (fun _ => Zero) (zseq 0 n)
  | SFile o n => map File (zseq o n)
  | SData o n => map Data (zseq o n)
  | SParent o n => map Parent (zseq o n)
  | SInfl d k n => map (Infl d) (zseq k n)
  end.

Definition srcs_of (p : list seg) : list src := flat_map srcs_of_seg p.

Definition plan_len (p : list seg) : Z := fold_right (fun s a => seg_len s + a) 0 p.

Lemma srcs_of_app p q : srcs_of (p ++ q) = srcs_of p ++ srcs_of q.
Proof. unfold srcs_of. apply flat_map_app. Qed.

Lemma srcs_of_cons s p : srcs_of (s :: p) = srcs_of_seg s ++ srcs_of p.
Proof. reflexivity. Qed.

Lemma srcs_of_seg_length s : 0 <= seg_len s ->
  Z.of_nat (length (srcs_of_seg s)) = seg_len s.
Proof.
  destruct s; simpl; intros; rewrite map_length; apply zseq_length; assumption.
Qed.

Lemma map_const_zseq {A} (c : A) o n : map (fun _ => c) (zseq o n) = map (fun _ => c) (zseq 0 n).
Proof.
  unfold zseq. generalize (Z.to_nat n) as k. intros k. revert o.
  generalize 0. induction k as [|k IH]; intros a o; simpl; [reflexivity|].
  f_equal. apply IH.
Qed.

(* ---------- merging adjacent segments ---------- *)
Definition merge2 (a b : seg) : option seg :=
  match a, b with
  | SZero n, SZero m => Some (SZero (n + m))
  | SFile o n, SFile o' m => if o' =? o + n then Some (SFile o (n + m)) else None
  | SData o n, SData o' m => if o' =? o + n then Some (SData o (n + m)) else None
  | SParent o n, SParent o' m => if o' =? o + n then Some (SParent o (n + m)) else None
  | SInfl d k n, SInfl d' k' m =>
      if (d' =? d) && (k' =? k + n) then Some (SInfl d k (n + m)) else None
  | _, _ => None
  end.

Lemma merge2_sound a b c :
  0 <= seg_len a -> 0 <= seg_len b -> merge2 a b = Some c ->
  srcs_of_seg c = srcs_of_seg a ++ srcs_of_seg b /\ seg_len c = seg_len a + seg_len b.
Proof.
  intros Ha Hb.
  destruct a, b; simpl in *; try discriminate.
  - intros [= <-]. cbn [srcs_of_seg seg_len]. split; [|reflexivity]. rewrite zseq_app by assumption.
    rewrite map_app. f_equal. apply map_const_zseq.
  - destruct (Z.eqb_spec o0 (o + n)) as [->|]; [|discriminate].
    intros [= <-]. cbn [srcs_of_seg seg_len]. split; [|reflexivity]. rewrite zseq_app by assumption. apply map_app.
  - destruct (Z.eqb_spec o0 (o + n)) as [->|]; [|discriminate].
    intros [= <-]. cbn [srcs_of_seg seg_len]. split; [|reflexivity]. rewrite zseq_app by assumption. apply map_app.
  - destruct (Z.eqb_spec o0 (o + n)) as [->|]; [|discriminate].
    intros [= <-]. cbn [srcs_of_seg seg_len]. split; [|reflexivity]. rewrite zseq_app by assumption. apply map_app.
  - destruct (Z.eqb_spec d0 d) as [->|]; [|discriminate].
    destruct (Z.eqb_spec k0 (k + n)) as [->|]; [|discriminate]. simpl.
    intros [= <-]. cbn [srcs_of_seg seg_len]. split; [|reflexivity]. rewrite zseq_app by assumption. apply map_app.
Qed.

(* push one segment on a plan whose head may absorb it *)
Definition push_seg (s : seg) (p : list seg) : list seg :=
  if seg_len s <=? 0 then p else
  match p with
  | [] => [s]
  | t :: p' => match merge2 s t with Some u => u :: p' | None => s :: t :: p' end
  end.

Definition normalize (p : list seg) : list seg := fold_right push_seg [] p.

Definition seg_nonneg (s : seg) : Prop := 0 <= seg_len s.

Lemma srcs_of_seg_nonpos s : seg_len s <= 0 -> srcs_of_seg s = [].
Proof. destruct s; simpl; intros; rewrite zseq_nonpos by assumption; reflexivity. Qed.

Lemma push_seg_sound s p :
  Forall seg_nonneg p ->
  srcs_of (push_seg s p) = srcs_of_seg s ++ srcs_of p /\ Forall seg_nonneg (push_seg s p).
Proof.
  intros Hp. unfold push_seg.
  destruct (Z.leb_spec (seg_len s) 0) as [Hs|Hs].
  - rewrite srcs_of_seg_nonpos by assumption. now split.
  - destruct p as [|t p'].
    + split; [reflexivity|]. constructor; [unfold seg_nonneg; lia|constructor].
    + inversion Hp as [|? ? Ht Hp']; subst.
      destruct (merge2 s t) as [u|] eqn:Hm.
      * destruct (merge2_sound s t u ltac:(lia) Ht Hm) as [Hu Hl].
        split.
        -- rewrite !srcs_of_cons, Hu, app_assoc. reflexivity.
        -- constructor; [unfold seg_nonneg in *; lia|assumption].
      * split; [reflexivity|]. constructor; [unfold seg_nonneg; lia|assumption].
Qed.

Lemma normalize_sound p :
  srcs_of (normalize p) = srcs_of p /\ Forall seg_nonneg (normalize p).
Proof.
  induction p as [|s p [IH1 IH2]]; simpl.
  - split; [reflexivity|constructor].
  - destruct (push_seg_sound s (normalize p) IH2) as [H1 H2].
    split; [|assumption]. rewrite H1, IH1. reflexivity.
Qed.

Theorem srcs_of_normalize p : srcs_of (normalize p) = srcs_of p.
Proof. apply normalize_sound. Qed.

(* ---------- from a pointwise spec to a plan (used by the correspondence to
   print what the specification says for a request, at granule g) ---------- *)
Definition seg_of_src (s : src) (g : Z) : seg :=
  match s with
  | Zero => SZero g
  | File o => SFile o g
  | Data o => SData o g
  | Parent o => SParent o g
  | Infl d k => SInfl d k g
  end.

Definition spec_plan (f : Z -> src) (g off cnt : Z) : list seg :=
  normalize (map (fun k => seg_of_src (f (off + k * g)) g) (zseq 0 cnt)).

(* ---------- interpretation as bytes, for any content ---------- *)
Section Denote.
  Context {B : Type}.
  Variable zero : B.
  Variables file data parent : Z -> B.
  Variable infl : Z -> Z -> B.

  Definition byte_of (s : src) : B :=
    match s with
    | Zero => zero
    | File o => file o
    | Data o => data o
    | Parent o => parent o
    | Infl d k => infl d k
    end.

  Definition denote (p : list seg) : list B := map byte_of (srcs_of p).

  Lemma denote_of_srcs p (f : Z -> src) off len :
    srcs_of p = map f (zseq off len) ->
    denote p = map (fun o => byte_of (f o)) (zseq off len).
  Proof. intros H. unfold denote. rewrite H, map_map. reflexivity. Qed.
End Denote.
