(* Base/Arith.v — division / modulo facts with a *variable* divisor.
   lia cannot divide by a variable; these are proved once with
   Z.div_unique / Z.mod_unique + nia and then only rewritten with. *)
From Coq Require Import ZArith Lia.
Open Scope Z_scope.

Lemma div_add_small a b j :
  0 < b -> 0 <= j -> a mod b + j < b -> (a + j) / b = a / b.
Proof.
  intros Hb Hj Hlt.
  pose proof (Z.mod_pos_bound a b Hb) as Hm.
  pose proof (Z.div_mod a b ltac:(lia)) as Hd.
  symmetry. apply Z.div_unique with (r := a mod b + j); [left; lia | nia].
Qed.

Lemma mod_add_small a b j :
  0 < b -> 0 <= j -> a mod b + j < b -> (a + j) mod b = a mod b + j.
Proof.
  intros Hb Hj Hlt.
  pose proof (Z.mod_pos_bound a b Hb) as Hm.
  pose proof (Z.div_mod a b ltac:(lia)) as Hd.
  symmetry. apply Z.mod_unique with (q := a / b); [left; lia | nia].
Qed.

Lemma div_mul_add a b r : 0 < b -> 0 <= r < b -> (a * b + r) / b = a.
Proof.
  intros Hb Hr. symmetry. apply Z.div_unique with (r := r); [left; lia | nia].
Qed.

Lemma mod_mul_add a b r : 0 < b -> 0 <= r < b -> (a * b + r) mod b = r.
Proof.
  intros Hb Hr. symmetry. apply Z.mod_unique with (q := a); [left; lia | nia].
Qed.

(* a request of rc sectors starting at sector s stays inside the block of s *)
Lemma byte_block s spb ss i rc :
  0 < spb -> 0 < ss -> 0 <= s -> 0 <= i < rc * ss -> s mod spb + rc <= spb ->
  (s * ss + i) / ss / spb = s / spb /\
  (s * ss + i) mod (spb * ss) = (s mod spb) * ss + i.
Proof.
  intros Hspb Hss Hs Hi Hfit.
  pose proof (Z.mod_pos_bound s spb Hspb) as Hm.
  pose proof (Z.div_mod s spb ltac:(lia)) as Hd.
  pose proof (Z.mod_pos_bound i ss Hss) as Hmi.
  pose proof (Z.div_mod i ss ltac:(lia)) as Hdi.
  assert (Hiq : 0 <= i / ss < rc).
  { split; [apply Z.div_pos; lia|]. apply Z.div_lt_upper_bound; lia. }
  assert (H1 : (s * ss + i) / ss = s + i / ss).
  { symmetry. apply Z.div_unique with (r := i mod ss); [left; lia | nia]. }
  split.
  - rewrite H1. apply div_add_small; lia.
  - symmetry. apply Z.mod_unique with (q := s / spb); [left; nia | nia].
Qed.

Lemma div_div_mul a b c : 0 < b -> 0 < c -> a / (b * c) = a / c / b.
Proof. intros. rewrite Z.mul_comm. symmetry. apply Z.div_div; lia. Qed.

Lemma mod_lt_of_le a b : 0 < b -> 0 <= a mod b < b.
Proof. intros; apply Z.mod_pos_bound; lia. Qed.

(* position o lies in unit o / u, at offset o mod u; stepping j < u - o mod u keeps the unit *)
Lemma unit_step o u j :
  0 < u -> 0 <= j -> j < u - o mod u ->
  (o + j) / u = o / u /\ (o + j) mod u = o mod u + j.
Proof.
  intros Hu Hj Hlt. split; [apply div_add_small | apply mod_add_small]; lia.
Qed.
