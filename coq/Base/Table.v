(* Base/Table.v — sparse tables for generated cases, small list helpers. *)
From Coq Require Import ZArith List Bool Lia.
Import ListNotations.
Open Scope Z_scope.

Fixpoint assoc_z {A} (l : list (Z * A)) (k : Z) : option A :=
  match l with
  | [] => None
  | (k', v) :: l' => if k' =? k then Some v else assoc_z l' k
  end.

(* a table of [len] entries, [dflt] everywhere except at the listed indices;
   an index outside [0, len) is a failed read (None). *)
Definition tbl {A} (l : list (Z * A)) (dflt : A) (len : Z) : Z -> option A :=
  fun i => if (0 <=? i) && (i <? len)
           then Some (match assoc_z l i with Some v => v | None => dflt end)
           else None.

(* two-level tables: first key selects a table *)
Definition tbl2 {A} (l : list (Z * (Z -> option A))) : Z -> Z -> option A :=
  fun t i => match assoc_z l t with Some f => f i | None => None end.

Definition zmin := Z.min.
Definition zmax := Z.max.

(* ceil division for positive divisor *)
Definition cdiv (a b : Z) : Z := (a + b - 1) / b.

Fixpoint find_first (f : Z -> bool) (i : Z) (k : nat) : option Z :=
  match k with
  | O => None
  | S k' => if f i then Some i else find_first f (i + 1) k'
  end.

Lemma find_first_some f i k r :
  find_first f i k = Some r ->
  i <= r < i + Z.of_nat k /\ f r = true /\ forall j, i <= j < r -> f j = false.
Proof.
  revert i; induction k as [|k IH]; intros i; simpl; [discriminate|].
  destruct (f i) eqn:Hf.
  - intros [= <-]. repeat split; try lia. exact Hf.
  - intros H. destruct (IH _ H) as (Hr & Hfr & Hall).
    repeat split; try lia; [exact Hfr|].
    intros j Hj. destruct (Z.eq_dec j i) as [->|]; [exact Hf|apply Hall; lia].
Qed.

Lemma find_first_none f i k :
  find_first f i k = None -> forall j, i <= j < i + Z.of_nat k -> f j = false.
Proof.
  revert i; induction k as [|k IH]; intros i; simpl; [intros; lia|].
  destruct (f i) eqn:Hf; [discriminate|].
  intros H j Hj. destruct (Z.eq_dec j i) as [->|]; [exact Hf|apply (IH _ H); lia].
Qed.
