(* Base/Layout.v — struct layouts as data (Gen/Layouts.v instantiates them)
   and a generic integer field decoder/encoder over byte lists. *)
From Coq Require Import String ZArith List Bool Lia.
From DH Require Import Base.Arith.
Import ListNotations.
Open Scope Z_scope.

Inductive fkind := KUInt | KInt | KChar | KFloat | KStruct (name : string).

Record field := mkf {
  f_name : string;
  f_off : Z;        (* byte offset in the struct *)
  f_size : Z;       (* total bytes (elem * count); -1 when dynamic *)
  f_elem : Z;       (* bytes per element *)
  f_count : Z;      (* 1 for scalars, n for arrays *)
  f_kind : fkind;
  f_bitoff : Z;     (* bit-fields: first bit inside the storage unit (LSB = 0) *)
  f_bitw : Z;       (* bit-fields: width; 0 for ordinary fields *)
}.

Fixpoint find_field (l : list field) (n : string) : option field :=
  match l with
  | [] => None
  | f :: l' => if String.eqb (f_name f) n then Some f else find_field l' n
  end.

(* little-endian / big-endian unsigned integers over byte lists *)
Fixpoint le_uint (bs : list Z) : Z :=
  match bs with [] => 0 | b :: r => b + 256 * le_uint r end.
Definition be_uint (bs : list Z) : Z := le_uint (rev bs).

Fixpoint le_bytes (n : nat) (v : Z) : list Z :=
  match n with O => [] | S n' => (v mod 256) :: le_bytes n' (v / 256) end.
Definition be_bytes (n : nat) (v : Z) : list Z := rev (le_bytes n v).

Definition slice {A} (l : list A) (off len : Z) : list A :=
  firstn (Z.to_nat len) (skipn (Z.to_nat off) l).

Definition bytes_ok (bs : list Z) : Prop := Forall (fun b => 0 <= b < 256) bs.

Lemma le_bytes_length n v : length (le_bytes n v) = n.
Proof. revert v; induction n as [|n IH]; intros v; simpl; [reflexivity|now rewrite IH]. Qed.

Lemma le_uint_le_bytes n v : 0 <= v < 256 ^ Z.of_nat n -> le_uint (le_bytes n v) = v.
Proof.
  revert v; induction n as [|n IH]; intros v Hv.
  - simpl in *. lia.
  - cbn [le_bytes le_uint]. rewrite IH.
    + pose proof (Z.div_mod v 256 ltac:(lia)). lia.
    + rewrite Nat2Z.inj_succ, Z.pow_succ_r in Hv by lia.
      split; [apply Z.div_pos; lia|]. apply Z.div_lt_upper_bound; lia.
Qed.

Lemma le_bytes_ok n v : bytes_ok (le_bytes n v).
Proof.
  revert v; induction n as [|n IH]; intros v; simpl; constructor.
  - apply Z.mod_pos_bound; lia.
  - apply IH.
Qed.

Lemma le_bytes_le_uint bs : bytes_ok bs -> le_bytes (length bs) (le_uint bs) = bs.
Proof.
  induction bs as [|b r IH]; intros H; [reflexivity|].
  inversion H as [|? ? Hb Hr]; subst. cbn [length le_bytes le_uint].
  replace (b + 256 * le_uint r) with (le_uint r * 256 + b) by lia.
  rewrite mod_mul_add, div_mul_add by lia.
  now rewrite IH.
Qed.

Lemma be_uint_be_bytes n v : 0 <= v < 256 ^ Z.of_nat n -> be_uint (be_bytes n v) = v.
Proof. intros; unfold be_uint, be_bytes. rewrite rev_involutive. now apply le_uint_le_bytes. Qed.

(* bit-field extraction: width w at bit offset o of storage value v *)
Definition bits (v o w : Z) : Z := (v / 2 ^ o) mod 2 ^ w.

Definition uint_of (big : bool) (bs : list Z) : Z := if big then be_uint bs else le_uint bs.
Definition bytes_of (big : bool) (n : nat) (v : Z) : list Z := if big then be_bytes n v else le_bytes n v.

(* decode an unsigned scalar / bit-field by name; None when the buffer is short
   or the field unknown *)
Definition get_uint (big : bool) (l : list field) (buf : list Z) (n : string) : option Z :=
  match find_field l n with
  | None => None
  | Some f =>
      let raw := slice buf (f_off f) (if f_bitw f =? 0 then f_size f else f_elem f) in
      if Z.of_nat (length raw) <? (if f_bitw f =? 0 then f_size f else f_elem f) then None else
      let v := uint_of big raw in
      Some (if f_bitw f =? 0 then v else bits v (f_bitoff f) (f_bitw f))
  end.

Definition get_bytes (l : list field) (buf : list Z) (n : string) : option (list Z) :=
  match find_field l n with
  | None => None
  | Some f => let raw := slice buf (f_off f) (f_size f) in
              if Z.of_nat (length raw) <? f_size f then None else Some raw
  end.

Definition signed (nbytes v : Z) : Z :=
  if v <? 2 ^ (8 * nbytes - 1) then v else v - 2 ^ (8 * nbytes).
