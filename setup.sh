#!/bin/bash
# Build the whole Coq development from the files on disk (offline).
set -e
cd "$(dirname "$(readlink -f "$0")")"
export OCAMLRUNPARAM="${OCAMLRUNPARAM:-s=1M}"
export PYTHONPATH="${VERIF_REPO:-/repo}:$PWD" PYTHONHASHSEED=0 PIP_NO_INDEX=1
python3 tools/translate.py --repo "${VERIF_REPO:-/repo}" --out coq/Gen || true
/venv/bin/python -c "from harness import main; main.ensure_makefile()"
cd coq && timeout 3000 make -k -j8 2>&1 | tail -5
