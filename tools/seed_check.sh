#!/bin/bash
# seed_check.sh <property> <patch.diff> <demo.py> [extra check ids...]
# Confirms a seeded change (tests still pass, demo fails with it and passes without) and runs the check(s) against it
# in a scratch copy of /repo (never touches /repo itself). Prints a one-line verdict per check.
set -u
P=$1; PATCH=$(readlink -f "$2"); DEMO=$(readlink -f "$3"); shift 3
CHECKS="$P $*"
S=/work/seedrun_$$
rm -rf $S; cp -r /repo $S; rm -rf $S/.git/worktrees 2>/dev/null
cd $S
CLEAN=$(PYTHONPATH=$S /venv/bin/python "$DEMO" >/dev/null 2>&1; echo $?)
if ! git apply "$PATCH" 2>/tmp/seed_apply_err; then echo "SEED $P: patch does not apply: $(head -1 /tmp/seed_apply_err)"; rm -rf $S; exit 2; fi
TESTS=$(/venv/bin/python -m pytest -q -p no:cacheprovider 2>&1 | tail -1)
SEEDED=$(PYTHONPATH=$S /venv/bin/python "$DEMO" >/dev/null 2>&1; echo $?)
echo "SEED $P $(basename $PATCH): demo clean=$CLEAN seeded=$SEEDED ; tests: $TESTS"
cd ${VERIF_DIR:-/verif}
for C in $CHECKS; do
  OUT=$(VERIF_REPO=$S timeout 1500 ./check $C 2>&1)
  RC=$?
  V=$(echo "$OUT" | grep -c "^VIOLATION")
  NF=$(echo "$OUT" | grep -c "no-failing-input-found")
  echo "   check $C: exit=$RC violations=$V no-failing-input=$NF :: $(echo "$OUT" | grep "^\[$C\]" | tail -1)"
done
rm -rf $S
python3 ${VERIF_DIR:-/verif}/tools/translate.py >/dev/null 2>&1
# evidence written by a run against a scratch tree is not evidence about /repo: put the committed files back
VD=${VERIF_DIR:-/verif}; [ -d $VD/.git ] && git -C $VD checkout -q -- evidence/ 2>/dev/null
true
