#!/bin/bash
# lane.sh <name> : (re)create /work/lane_<name>, a private copy of /verif (with its compiled Coq files) so that
# seeded / benign patches can be checked against scratch copies of /repo without disturbing coq/Gen of /verif.
set -e
L=/work/lane_$1
mkdir -p $L
rsync -a --delete --exclude .git --exclude out/ /verif/ $L/
echo $L
