#!/bin/bash
# update_genref.sh : refresh genref/ (reference copy of the generated Coq files) from /repo's current tree.
# Run after a fix: commit to /repo once every check passes; genref/ is what the failing-input search falls back to
# when the model regenerated from a changed tree no longer builds.
set -e
cd "$(dirname "$(readlink -f "$0")")/.."
python3 tools/translate.py --repo /repo --out coq/Gen
rm -f genref/*.v; cp coq/Gen/*.v genref/
python3 -c "import json; json.dump(json.load(open('coq/Gen/.status.json'))['owners'], open('genref/owners.json','w'), indent=1, sort_keys=True)"
echo "genref: $(ls genref | wc -l) files"
