"""translate_vmdk.py — declarative parts of dissect/hypervisor/disk/vmdk.py -> coq/Gen/VmdkTables.v

Extracted from the CURRENT source with the stdlib ast (fail-closed on unexpected shapes):
  * the literal masks/shifts of SparseDisk._lookup_grain_table and SparseDisk._lookup_grain (SE-sparse decoding)
  * the literals of SparseDisk.__init__ (COWD grain-table size, footer seek distance)
  * the header lengths of SparseDisk._read_compressed_grain
  * the two extent-type lists of VMDK.__init__ and which reader class each branch builds
  * RE_EXTENT_DESCRIPTOR: the alternatives of the access_mode and type groups and the rest of the
    pattern (whitespace/comments removed, the two alternations replaced by '@') as a skeleton
  * the prefixes DiskDescriptor.parse uses to recognise an extent line
Text is rendered as lists of code points (list Z).
"""
from __future__ import annotations

import ast
import os
import re

import translate
from translate import TranslateError

REL = "dissect/hypervisor/disk/vmdk.py"


def cps(s: str) -> str:
    return "[" + "; ".join(str(ord(c)) for c in s) + "]"


def cps_list(ss) -> str:
    return "[" + "; ".join(cps(s) for s in ss) + "]"


def _find_class(tree, name, path):
    for n in tree.body:
        if isinstance(n, ast.ClassDef) and n.name == name:
            return n
    raise TranslateError(f"{path}: class {name} not found")


def _find_method(cls, name, path):
    for n in cls.body:
        if isinstance(n, ast.FunctionDef) and n.name == name:
            return n
    raise TranslateError(f"{path}: {cls.name}.{name} not found")


def _int(n, path):
    if isinstance(n, ast.Constant) and isinstance(n.value, int) and not isinstance(n.value, bool):
        return n.value
    if isinstance(n, ast.UnaryOp) and isinstance(n.op, ast.USub):
        return -_int(n.operand, path)
    raise TranslateError(f"{path}:{getattr(n, 'lineno', '?')}: integer literal expected")


def _is_name(n, ident):
    return isinstance(n, ast.Name) and n.id == ident


def lookup_grain_table_masks(fn, path):
    """gtbl_offset & A != B   and   gtbl_offset &= C"""
    cmp_mask = cmp_val = and_mask = None
    for n in ast.walk(fn):
        if (isinstance(n, ast.Compare) and len(n.ops) == 1 and isinstance(n.ops[0], ast.NotEq)
                and isinstance(n.left, ast.BinOp) and isinstance(n.left.op, ast.BitAnd)
                and _is_name(n.left.left, "gtbl_offset")):
            if cmp_mask is not None:
                raise TranslateError(f"{path}:{n.lineno}: second mask comparison in _lookup_grain_table")
            cmp_mask = _int(n.left.right, path)
            cmp_val = _int(n.comparators[0], path)
        if isinstance(n, ast.AugAssign) and isinstance(n.op, ast.BitAnd) and _is_name(n.target, "gtbl_offset"):
            if and_mask is not None:
                raise TranslateError(f"{path}:{n.lineno}: second &= in _lookup_grain_table")
            and_mask = _int(n.value, path)
    if None in (cmp_mask, cmp_val, and_mask):
        raise TranslateError(f"{path}: SE-sparse grain-directory masks not found in _lookup_grain_table")
    return cmp_mask, cmp_val, and_mask


def lookup_grain_masks(fn, path):
    """cluster_sector_hi = (grain_entry & A) >> B ; cluster_sector_lo = (grain_entry & C) << D"""
    out = {}
    for n in ast.walk(fn):
        if isinstance(n, ast.Assign) and len(n.targets) == 1 and isinstance(n.targets[0], ast.Name) \
                and n.targets[0].id in ("cluster_sector_hi", "cluster_sector_lo"):
            v = n.value
            if not (isinstance(v, ast.BinOp) and isinstance(v.op, (ast.RShift, ast.LShift))
                    and isinstance(v.left, ast.BinOp) and isinstance(v.left.op, ast.BitAnd)
                    and _is_name(v.left.left, "grain_entry")):
                raise TranslateError(f"{path}:{n.lineno}: unexpected shape of {n.targets[0].id}")
            out[n.targets[0].id] = (_int(v.left.right, path), "shr" if isinstance(v.op, ast.RShift) else "shl",
                                    _int(v.right, path))
    if set(out) != {"cluster_sector_hi", "cluster_sector_lo"}:
        raise TranslateError(f"{path}: cluster_sector_hi/lo assignments not found in _lookup_grain")
    if out["cluster_sector_hi"][1] != "shr" or out["cluster_sector_lo"][1] != "shl":
        raise TranslateError(f"{path}: shift directions of cluster_sector_hi/lo changed")
    return out


def init_literals(fn, path):
    """self._grain_table_size = <int>  (COWD branch)   and   fh.seek(<-int>, io.SEEK_END) (footer)"""
    gts = []
    seeks = []
    for n in ast.walk(fn):
        if (isinstance(n, ast.Assign) and len(n.targets) == 1 and isinstance(n.targets[0], ast.Attribute)
                and n.targets[0].attr == "_grain_table_size" and isinstance(n.value, ast.Constant)):
            gts.append(_int(n.value, path))
        if (isinstance(n, ast.Call) and isinstance(n.func, ast.Attribute) and n.func.attr == "seek"
                and len(n.args) == 2 and isinstance(n.args[1], ast.Attribute) and n.args[1].attr == "SEEK_END"):
            try:
                v = _int(n.args[0], path)
            except TranslateError:
                continue
            if v != 0:
                seeks.append(v)
    if len(gts) != 1 or len(seeks) != 1:
        raise TranslateError(f"{path}: SparseDisk.__init__ literals not found (grain table size {gts}, footer seek {seeks})")
    return gts[0], seeks[0]


def header_lens(fn, path):
    vals = []
    for n in ast.walk(fn):
        if isinstance(n, ast.If):
            a = [s for s in n.body if isinstance(s, ast.Assign) and _is_name(s.targets[0], "header_len")]
            b = [s for s in n.orelse if isinstance(s, ast.Assign) and _is_name(s.targets[0], "header_len")]
            if a and b:
                vals.append((_int(a[0].value, path), _int(b[0].value, path)))
    if len(vals) != 1:
        raise TranslateError(f"{path}: header_len assignments not found in _read_compressed_grain")
    return vals[0]


def wiring_lists(fn, path):
    """if extent.type in [...]: ... SparseDisk(...)  elif extent.type in [...]: ... RawDisk(...)"""
    found = []

    def is_type_test(t):
        return (isinstance(t, ast.Compare) and len(t.ops) == 1 and isinstance(t.ops[0], ast.In)
                and isinstance(t.left, ast.Attribute) and t.left.attr == "type"
                and isinstance(t.comparators[0], (ast.List, ast.Tuple)))

    def reader_of(body):
        names = set()
        for s in body:
            for c in ast.walk(s):
                if isinstance(c, ast.Call) and isinstance(c.func, ast.Name) and c.func.id in ("SparseDisk", "RawDisk"):
                    names.add(c.func.id)
        if len(names) != 1:
            raise TranslateError(f"{path}: extent branch builds {sorted(names)}")
        return names.pop()

    def visit_if(n):
        if is_type_test(n.test):
            elts = []
            for e in n.test.comparators[0].elts:
                if not (isinstance(e, ast.Constant) and isinstance(e.value, str)):
                    raise TranslateError(f"{path}:{n.lineno}: non-literal extent type")
                elts.append(e.value)
            found.append((reader_of(n.body), elts))
            if len(n.orelse) == 1 and isinstance(n.orelse[0], ast.If):
                visit_if(n.orelse[0])
            elif n.orelse:
                raise TranslateError(f"{path}:{n.lineno}: else branch in extent wiring")

    for n in ast.walk(fn):
        if isinstance(n, ast.If) and is_type_test(n.test) and not found:
            visit_if(n)
    sparse = [e for r, l in found if r == "SparseDisk" for e in l]
    raw = [e for r, l in found if r == "RawDisk" for e in l]
    if not found:
        raise TranslateError(f"{path}: extent wiring not found in VMDK.__init__")
    return sparse, raw


def regex_parts(tree, path):
    pat = None
    for n in tree.body:
        if (isinstance(n, ast.Assign) and len(n.targets) == 1 and _is_name(n.targets[0], "RE_EXTENT_DESCRIPTOR")
                and isinstance(n.value, ast.Call) and isinstance(n.value.func, ast.Attribute)
                and n.value.func.attr == "compile" and n.value.args
                and isinstance(n.value.args[0], ast.Constant) and isinstance(n.value.args[0].value, str)):
            flags = n.value.args[1:] + [k.value for k in n.value.keywords]
            if not (len(flags) == 1 and isinstance(flags[0], ast.Attribute) and flags[0].attr == "VERBOSE"):
                raise TranslateError(f"{path}:{n.lineno}: RE_EXTENT_DESCRIPTOR flags are not exactly re.VERBOSE")
            pat = n.value.args[0].value
    if pat is None:
        raise TranslateError(f"{path}: RE_EXTENT_DESCRIPTOR = re.compile(<literal>, re.VERBOSE) not found")
    # re.VERBOSE: whitespace outside classes is ignored, '#' starts a comment (none expected inside classes here)
    if "[" in pat or "#" in pat:
        raise TranslateError(f"{path}: character class or comment in RE_EXTENT_DESCRIPTOR (unsupported)")
    flat = re.sub(r"\s+", "", pat)
    groups = {}
    for g in ("access_mode", "type"):
        m = re.search(r"\(\?P<" + g + r">([A-Za-z0-9_|]*)\)", flat)
        if not m:
            raise TranslateError(f"{path}: group {g} of RE_EXTENT_DESCRIPTOR is not a plain alternation")
        alts = m.group(1).split("|")
        if any(not a for a in alts):
            raise TranslateError(f"{path}: empty alternative in group {g}")
        groups[g] = alts
        flat = flat[:m.start(1)] + "@" + flat[m.end(1):]
    return groups["access_mode"], groups["type"], flat


def parse_prefixes(fn, path):
    for n in ast.walk(fn):
        if (isinstance(n, ast.Call) and isinstance(n.func, ast.Attribute) and n.func.attr == "startswith"
                and len(n.args) == 1 and isinstance(n.args[0], ast.Tuple)):
            out = []
            for e in n.args[0].elts:
                if not (isinstance(e, ast.Constant) and isinstance(e.value, str)):
                    raise TranslateError(f"{path}:{n.lineno}: non-literal prefix")
                out.append(e.value)
            return out
    raise TranslateError(f"{path}: extent-line prefixes not found in DiskDescriptor.parse")


@translate.register
def gen(repo):
    path, src, tree = translate.load_module(repo, REL)
    sd = _find_class(tree, "SparseDisk", path)
    vm = _find_class(tree, "VMDK", path)
    dd = _find_class(tree, "DiskDescriptor", path)
    gd_cmp_mask, gd_cmp_val, gd_and_mask = lookup_grain_table_masks(_find_method(sd, "_lookup_grain_table", path), path)
    gm = lookup_grain_masks(_find_method(sd, "_lookup_grain", path), path)
    cowd_gt, footer_seek = init_literals(_find_method(sd, "__init__", path), path)
    hl_lba, hl_plain = header_lens(_find_method(sd, "_read_compressed_grain", path), path)
    sparse, raw = wiring_lists(_find_method(vm, "__init__", path), path)
    modes, types, skeleton = regex_parts(tree, path)
    prefixes = parse_prefixes(_find_method(dd, "parse", path), path)
    L = [translate.HEADER.format(src=REL),
         "From Coq Require Import ZArith List.\nImport ListNotations.\nOpen Scope Z_scope.\n",
         "(* SparseDisk._lookup_grain_table: gtbl_offset & A != B ; gtbl_offset &= C *)",
         f"Definition vmdk_gde_check_mask : Z := {gd_cmp_mask}.",
         f"Definition vmdk_gde_check_value : Z := {gd_cmp_val}.",
         f"Definition vmdk_gde_index_mask : Z := {gd_and_mask}.",
         "(* SparseDisk._lookup_grain: (grain_entry & A) >> B ; (grain_entry & C) << D *)",
         f"Definition vmdk_gte_hi_mask : Z := {gm['cluster_sector_hi'][0]}.",
         f"Definition vmdk_gte_hi_shift : Z := {gm['cluster_sector_hi'][2]}.",
         f"Definition vmdk_gte_lo_mask : Z := {gm['cluster_sector_lo'][0]}.",
         f"Definition vmdk_gte_lo_shift : Z := {gm['cluster_sector_lo'][2]}.",
         "(* SparseDisk.__init__ *)",
         f"Definition vmdk_cowd_grain_table_size : Z := {cowd_gt}.",
         f"Definition vmdk_footer_seek : Z := {translate.zlit(footer_seek)}.",
         "(* SparseDisk._read_compressed_grain: header_len with / without the embedded LBA *)",
         f"Definition vmdk_grain_header_len_lba : Z := {hl_lba}.",
         f"Definition vmdk_grain_header_len_plain : Z := {hl_plain}.",
         "(* VMDK.__init__: extent types opened as SparseDisk / as RawDisk: " + ", ".join(sparse) + " / " + ", ".join(raw) + " *)",
         f"Definition vmdk_sparse_wired : list (list Z) := {cps_list(sparse)}.",
         f"Definition vmdk_raw_wired : list (list Z) := {cps_list(raw)}.",
         "(* RE_EXTENT_DESCRIPTOR: access modes " + "|".join(modes) + " ; types " + "|".join(types) + " *)",
         f"Definition vmdk_re_access_modes : list (list Z) := {cps_list(modes)}.",
         f"Definition vmdk_re_types : list (list Z) := {cps_list(types)}.",
         "(* the pattern without whitespace, the two alternations replaced by '@': " + skeleton.replace("*)", "* )").replace('"', "'") + " *)",
         f"Definition vmdk_re_skeleton : list Z := {cps(skeleton)}.",
         "(* DiskDescriptor.parse: line.startswith((...)) *)",
         f"Definition vmdk_extent_prefixes : list (list Z) := {cps_list(prefixes)}.",
         ""]
    return {"VmdkTables.v": "\n".join(L)}
