#!/usr/bin/env python3
"""Regenerate the table of seeded changes in DESIGN.md (between the SEED-TABLE markers) from seeded/*/meta.json."""
import json, os, re
V = os.path.dirname(os.path.dirname(os.path.abspath(__file__)))
rows = []
for d in sorted(os.listdir(os.path.join(V, "seeded"))):
    mp = os.path.join(V, "seeded", d, "meta.json")
    if not os.path.exists(mp):
        continue
    m = json.load(open(mp))
    esc = lambda s: " ".join(str(s).replace("|", "\\|").split())
    rows.append(f"| {d} | {m['property']} | {esc(m['what'])[:400]} | {esc(m['needs'])[:300]} | {esc(m['checks'])} |")
table = ("| seed | property | change | needs to manifest | which checks catch it |\n|---|---|---|---|---|\n" + "\n".join(rows) + "\n")
p = os.path.join(V, "DESIGN.md")
s = open(p).read()
a, b = "<!-- SEED-TABLE-BEGIN -->", "<!-- SEED-TABLE-END -->"
if a not in s:
    s += ("\n### 11.4 Seeded changes (written by fresh sub-agents that saw only the property text) and which checks catch them\n\n"
          "Each row is kept under `seeded/<seed>/` (patch.diff, demo.py, meta.json). Every change keeps the 47 repository tests green; "
          "each was confirmed with `tools/seed_check.sh` (demo exits 0 without and 1 with the patch) and then run against the check(s). "
          "Where a check missed a seed at first, the last column says what was strengthened.\n\n" + a + "\n" + b + "\n")
s = s[:s.index(a) + len(a)] + "\n" + table + s[s.index(b):]
open(p, "w").write(s)
print(len(rows), "seeds")
