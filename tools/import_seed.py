#!/usr/bin/env python3
"""import_seed.py <seed dir (_seed)> <n> <id> '<caught by: text>' — keep a confirmed seeded change under /verif/seeded/<id>/"""
import json, os, shutil, sys
src, n, sid, caught = sys.argv[1], sys.argv[2], sys.argv[3], sys.argv[4]
meta = json.load(open(os.path.join(src, "meta.json")))
seed = meta["seeds"][int(n) - 1]
d = os.path.join("/verif/seeded", sid)
os.makedirs(d, exist_ok=True)
shutil.copy(os.path.join(src, seed["patch"]), os.path.join(d, "patch.diff"))
shutil.copy(os.path.join(src, seed["demo"]), os.path.join(d, "demo.py"))
out = {"property": meta["property"], "what": seed["what"], "needs": seed["needs"], "author_ran": seed.get("ran"),
       "confirmed": "tools/seed_check.sh: patch applied to a scratch copy of /repo; existing 47 tests pass; demo exits 0 without and 1 with the patch",
       "checks": caught}
json.dump(out, open(os.path.join(d, "meta.json"), "w"), indent=1)
print("kept", d)
