"""Generate coq/Gen/Effects.v (C09): the inventory of every place where the library could touch the
file system or mutate a handle, over ALL modules under dissect/hypervisor.

Inventoried (fail-closed on anything the classification cannot read):

* opens           every call `open(...)` / `<expr>.open(...)` / `<expr>.read_text(...)` / `<expr>.read_bytes(...)` /
                  `io.open` / `os.open` / `os.fdopen` / `io.FileIO` / `codecs.open` / `gzip.open` / `bz2.open` / `lzma.open`
                  with its kind, the source text of the receiver, and its mode when the mode is a string literal
                  (first positional argument or `mode=`; the documented default "r" when absent).  `tarfile.open` /
                  `tarfile.TarFile` calls that forward the caller's own *args/**kwargs are PassThrough sites (the mode is the
                  caller's, default "r").  Calls of a method named `open` that resolve to a method *defined in the repository*
                  (HDD.open, QCow2Snapshot.open, HyperVStorageFileObject.open: they build streams, they open nothing)
                  are not listed when the receiver cannot be a path: receiver is `self`, or the call has no literal mode and
                  the name `open` with that arity is defined in the same module.  Everything else is listed.
* mutator_calls   every call of a method whose name is in MUTATORS (`copy` is not in it: copy.copy(obj) duplicates an object;
                  shutil.copy is excluded by the import theorem), with the object that is modified (the receiver, or the
                  first argument when the receiver is a cstruct type/instance `c_*.X[.Y]` / `c_*.X(...)`, whose `.write(stream, v)`
                  writes into its argument) classified by local def-use:
                    PrivateBuffer  a local name all of whose bindings in the function are `io.BytesIO(...)`/`BytesIO(...)`, or a
                                   parameter such that every call of the function in the repository passes a PrivateBuffer
                    CliOutput      a name bound by `with args.output.open(...) as name` in dissect/hypervisor/tools/envelope.py
                    PureValue      `x.replace(a, b[, n])` with two or more positional arguments (str/bytes.replace; Path.replace
                                   and os.replace on a path object take one), `c.remove(x)` on a list/set built in the function
                    Unknown        anything else
* runtime_imports every import statement that executes at run time (not under `if TYPE_CHECKING:`), at any depth
* os_uses         every attribute taken from the `os` module (through any alias), and every name imported from it
"""
from __future__ import annotations

import ast
import os

import translate
from translate import TranslateError

ROOT = "dissect/hypervisor"
MUTATORS = ["write", "writelines", "truncate", "unlink", "rename", "replace", "rmdir", "mkdir", "touch", "write_text",
            "write_bytes", "remove", "chmod", "lchmod", "chown", "symlink_to", "hardlink_to", "link_to", "rmtree",
            "removedirs", "makedirs", "renames", "copy2", "copyfile", "copytree", "move", "utime", "mkfifo", "mknod",
            "ftruncate", "pwrite", "sendfile", "fsync"]
OPEN_MODULE_FUNCS = {("io", "open"), ("os", "open"), ("os", "fdopen"), ("io", "FileIO"), ("codecs", "open"), ("gzip", "open"),
                     ("bz2", "open"), ("lzma", "open"), ("builtins", "open")}
CLI_MODULE = "dissect/hypervisor/tools/envelope.py"


def coq_str(s: str) -> str:
    if not all(32 <= ord(c) < 127 for c in s):
        s = s.encode("ascii", "backslashreplace").decode()
    return '"' + s.replace('"', '""') + '"'


def src_of(node) -> str:
    try:
        return ast.unparse(node)
    except Exception:  # noqa: BLE001
        return "<expr>"


def is_type_checking(test) -> bool:
    return (isinstance(test, ast.Name) and test.id == "TYPE_CHECKING") or \
        (isinstance(test, ast.Attribute) and test.attr == "TYPE_CHECKING")


class FuncInfo:
    def __init__(self, module, qual, node):
        self.module = module
        self.qual = qual
        self.node = node


class ModuleScan(ast.NodeVisitor):
    """one pass over a module: functions, calls, imports; TYPE_CHECKING blocks are skipped"""

    def __init__(self, rel, tree):
        self.rel = rel
        self.tree = tree
        self.stack = []              # qualified name parts
        self.func_nodes = []         # stack of FunctionDef nodes
        self.functions = {}          # qual -> FunctionDef
        self.calls = []              # (qual, enclosing FunctionDef | None, Call)
        self.imports = []            # (imported module, name | None, asname)
        self.os_aliases = set()
        self.os_names = []           # names imported from os
        self.attr_uses = []          # (base name, attr) for Name.attr expressions

    def qual(self):
        return ".".join(self.stack) if self.stack else "<module>"

    def visit_If(self, node):
        if is_type_checking(node.test):
            for n in node.orelse:
                self.visit(n)
            return
        self.generic_visit(node)

    def visit_ClassDef(self, node):
        self.stack.append(node.name)
        self.generic_visit(node)
        self.stack.pop()

    def visit_FunctionDef(self, node):
        self.stack.append(node.name)
        self.functions[self.qual()] = node
        self.func_nodes.append(node)
        self.generic_visit(node)
        self.func_nodes.pop()
        self.stack.pop()

    visit_AsyncFunctionDef = visit_FunctionDef

    def visit_Import(self, node):
        for a in node.names:
            self.imports.append((a.name, None, a.asname))
            if a.name == "os" or a.name.startswith("os."):
                self.os_aliases.add(a.asname or "os")

    def visit_ImportFrom(self, node):
        mod = ("." * node.level) + (node.module or "")
        for a in node.names:
            self.imports.append((mod, a.name, a.asname))
            if mod == "os" or mod.startswith("os."):
                self.os_names.append(a.name)

    def visit_Attribute(self, node):
        if isinstance(node.value, ast.Name):
            self.attr_uses.append((node.value.id, node.attr))
        self.generic_visit(node)

    def visit_Call(self, node):
        self.calls.append((self.qual(), self.func_nodes[-1] if self.func_nodes else None, node))
        self.generic_visit(node)


def literal_mode(call, pos):
    """-> ('lit', mode) | ('default',) | ('dynamic',)"""
    for kw in call.keywords:
        if kw.arg == "mode":
            if isinstance(kw.value, ast.Constant) and isinstance(kw.value.value, str):
                return ("lit", kw.value.value)
            return ("dynamic",)
        if kw.arg is None:
            return ("dynamic",)
    if len(call.args) > pos:
        a = call.args[pos]
        if isinstance(a, ast.Constant) and isinstance(a.value, str):
            return ("lit", a.value)
        return ("dynamic",)
    return ("default",)


def is_bytesio_call(n) -> bool:
    if not isinstance(n, ast.Call):
        return False
    f = n.func
    return (isinstance(f, ast.Name) and f.id == "BytesIO") or \
        (isinstance(f, ast.Attribute) and f.attr == "BytesIO" and isinstance(f.value, ast.Name) and f.value.id == "io")


def bindings_of(func, name):
    """every expression a local name is bound to in a function: list of ('assign', value) | ('with', ctx) | ('param', index)
    | ('other', node)"""
    out = []
    args = func.args
    params = [a.arg for a in args.posonlyargs + args.args]
    if name in params:
        out.append(("param", params.index(name)))
    for a in args.kwonlyargs:
        if a.arg == name:
            out.append(("other", a))
    if (args.vararg and args.vararg.arg == name) or (args.kwarg and args.kwarg.arg == name):
        out.append(("other", args))
    for n in ast.walk(func):
        if isinstance(n, ast.Assign):
            for t in n.targets:
                for leaf in ast.walk(t):
                    if isinstance(leaf, ast.Name) and leaf.id == name:
                        out.append(("assign", n.value) if isinstance(t, ast.Name) else ("other", n))
        elif isinstance(n, (ast.AnnAssign, ast.AugAssign)):
            if isinstance(n.target, ast.Name) and n.target.id == name:
                out.append(("assign", n.value) if isinstance(n, ast.AnnAssign) and n.value is not None else ("other", n))
        elif isinstance(n, (ast.With, ast.AsyncWith)):
            for item in n.items:
                if item.optional_vars is not None:
                    for leaf in ast.walk(item.optional_vars):
                        if isinstance(leaf, ast.Name) and leaf.id == name:
                            out.append(("with", item.context_expr))
        elif isinstance(n, (ast.For, ast.AsyncFor, ast.comprehension)):
            for leaf in ast.walk(n.target):
                if isinstance(leaf, ast.Name) and leaf.id == name:
                    out.append(("other", n))
        elif isinstance(n, ast.NamedExpr):
            if n.target.id == name:
                out.append(("assign", n.value))
        elif isinstance(n, ast.ExceptHandler) and n.name == name:
            out.append(("other", n))
    return out


def is_cstruct_receiver(n, cnames) -> bool:
    """c_x.T, c_x.T[...], c_x.T(...), c_x.T.U : a cstruct type or instance; also NAME[...] from a dict of such types is not"""
    while True:
        if isinstance(n, ast.Attribute):
            n = n.value
        elif isinstance(n, ast.Subscript):
            n = n.value
        elif isinstance(n, ast.Call):
            n = n.func
        else:
            break
    return isinstance(n, ast.Name) and n.id in cnames


class Inventory:
    def __init__(self, repo):
        self.repo = repo
        self.scans = {}
        base = os.path.join(repo, ROOT)
        if not os.path.isdir(base):
            raise TranslateError(f"{base} is not a directory")
        for dp, dn, fn in sorted(os.walk(base)):
            dn.sort()
            for f in sorted(fn):
                if f.endswith(".py"):
                    rel = os.path.relpath(os.path.join(dp, f), repo)
                    path, src, tree = translate.load_module(repo, rel)
                    sc = ModuleScan(rel, tree)
                    sc.visit(tree)
                    self.scans[rel] = sc
        if not self.scans:
            raise TranslateError("no modules found")
        # call graph by simple name, repository-wide: callee simple name -> [(module, caller FunctionDef, Call)]
        self.calls_by_name = {}
        for rel, sc in self.scans.items():
            for qual, fn, call in sc.calls:
                f = call.func
                nm = f.id if isinstance(f, ast.Name) else f.attr if isinstance(f, ast.Attribute) else None
                if nm:
                    self.calls_by_name.setdefault(nm, []).append((rel, fn, call))

    # ---- receiver classification
    def classify_name(self, rel, func, name, depth=0):
        if func is None:
            return "Unknown"
        bs = bindings_of(func, name)
        if not bs:
            return "Unknown"
        kinds = set()
        for b in bs:
            if b[0] == "assign" and is_bytesio_call(b[1]):
                kinds.add("PrivateBuffer")
            elif b[0] == "with":
                ce = b[1]
                if (rel == CLI_MODULE and isinstance(ce, ast.Call) and isinstance(ce.func, ast.Attribute) and ce.func.attr == "open"
                        and src_of(ce.func.value) == "args.output"):
                    kinds.add("CliOutput")
                else:
                    kinds.add("Unknown")
            elif b[0] == "param":
                kinds.add(self.classify_param(rel, func, b[1], depth))
            else:
                kinds.add("Unknown")
        return kinds.pop() if len(kinds) == 1 else "Unknown"

    def classify_param(self, rel, func, index, depth):
        if depth >= 2:
            return "Unknown"
        sites = self.calls_by_name.get(func.name, [])
        if not sites:
            return "Unknown"
        is_method = bool(func.args.args) and func.args.args[0].arg in ("self", "cls")
        res = set()
        for crel, cfn, call in sites:
            idx = index - (1 if is_method and isinstance(call.func, ast.Attribute) else 0)
            if idx < 0 or idx >= len(call.args) or any(isinstance(a, ast.Starred) for a in call.args):
                res.add("Unknown")
                continue
            a = call.args[idx]
            if is_bytesio_call(a):
                res.add("PrivateBuffer")
            elif isinstance(a, ast.Name):
                res.add(self.classify_name(crel, cfn, a.id, depth + 1))
            else:
                res.add("Unknown")
        return res.pop() if len(res) == 1 else "Unknown"

    # ---- the inventories
    def build(self):
        opens, muts, imports, os_uses = [], [], [], []
        for rel, sc in self.scans.items():
            cnames = {n for n in self.module_names(sc) if n.startswith("c_")}
            local_open_defs = [q for q in sc.functions if q.split(".")[-1] == "open"]
            for mod, name, asname in sc.imports:
                imports.append((rel, mod, name or ""))
            for alias in sorted(sc.os_aliases):
                for base, attr in sc.attr_uses:
                    if base == alias:
                        os_uses.append((rel, attr))
            for nm in sc.os_names:
                os_uses.append((rel, "from-import:" + nm))
            for qual, fn, call in sc.calls:
                f = call.func
                line = call.lineno
                # ---------------- opens
                if isinstance(f, ast.Name) and f.id == "open":
                    if "open" in sc.functions:      # the module defines its own open(); a bare call is that function
                        opens.append((rel, qual, line, "LocalFunction", "open", None))
                    else:
                        opens.append((rel, qual, line, "BuiltinOpen", src_of(call.args[0]) if call.args else "", literal_mode(call, 1)))
                elif isinstance(f, ast.Attribute) and f.attr in ("read_text", "read_bytes"):
                    opens.append((rel, qual, line, "ReadText" if f.attr == "read_text" else "ReadBytes", src_of(f.value), ("lit", "r")))
                elif isinstance(f, ast.Attribute) and isinstance(f.value, ast.Name) and \
                        (f.value.id, f.attr) in (("tarfile", "open"), ("tarfile", "TarFile")):
                    fwd = (len(call.args) == 1 and isinstance(call.args[0], ast.Starred) and
                           any(k.arg is None for k in call.keywords) and
                           all(k.arg is None or k.arg == "tarinfo" for k in call.keywords))
                    if fwd:
                        opens.append((rel, qual, line, "PassThrough", src_of(f), None))
                    else:
                        opens.append((rel, qual, line, "ModuleOpen", src_of(f), literal_mode(call, 1)))
                elif isinstance(f, ast.Attribute) and isinstance(f.value, ast.Name) and (f.value.id, f.attr) in OPEN_MODULE_FUNCS:
                    opens.append((rel, qual, line, "ModuleOpen", src_of(f), literal_mode(call, 1)))
                elif isinstance(f, ast.Attribute) and f.attr == "open":
                    mode = literal_mode(call, 0)
                    recv = f.value
                    if isinstance(recv, ast.Name) and recv.id in ("self", "cls") and local_open_defs:
                        continue                     # a method of the class itself (builds a stream)
                    opens.append((rel, qual, line, "PathOpen", src_of(recv), mode))
                # ---------------- mutators
                if isinstance(f, ast.Attribute) and f.attr in MUTATORS:
                    recv = f.value
                    target = recv
                    if is_cstruct_receiver(recv, cnames) or self.is_cstruct_table_lookup(recv, sc):
                        if not call.args:
                            muts.append((rel, qual, line, f.attr, src_of(recv), "Unknown"))
                            continue
                        target = call.args[0]
                    if f.attr == "replace" and len(call.args) >= 2 and target is recv:
                        cls = "PureValue"       # str/bytes.replace(old, new[, count]); Path.replace / os.replace take one path
                    elif f.attr == "remove" and isinstance(recv, ast.Name) and self.is_local_container(fn, recv.id):
                        cls = "PureValue"       # list.remove / set.remove on a container built in the same function
                    elif isinstance(target, ast.Name):
                        cls = self.classify_name(rel, fn, target.id)
                    else:
                        cls = "Unknown"
                    muts.append((rel, qual, line, f.attr, src_of(target), cls))
                elif isinstance(f, ast.Name) and f.id in MUTATORS:
                    muts.append((rel, qual, line, f.id, "<function>", "Unknown"))
        return opens, muts, imports, os_uses

    @staticmethod
    def is_local_container(func, name):
        """every binding of the local name is a list/set/dict display, a comprehension, or list()/set()/dict()/sorted()"""
        if func is None:
            return False
        bs = bindings_of(func, name)
        if not bs:
            return False
        for b in bs:
            if b[0] != "assign":
                return False
            v = b[1]
            ok = isinstance(v, (ast.List, ast.Set, ast.Dict, ast.ListComp, ast.SetComp, ast.DictComp)) or \
                (isinstance(v, ast.Call) and isinstance(v.func, ast.Name) and v.func.id in ("list", "set", "dict", "sorted"))
            if not ok:
                return False
        return True

    @staticmethod
    def module_names(sc):
        names = set()
        for mod, name, asname in sc.imports:
            names.add(asname or name or mod.split(".")[0])
        for n in sc.tree.body:
            if isinstance(n, ast.Assign):
                for t in n.targets:
                    if isinstance(t, ast.Name):
                        names.add(t.id)
        return names

    @staticmethod
    def is_cstruct_table_lookup(recv, sc):
        """NAME[key] where NAME is a module-level dict all of whose values are c_x.<type> expressions"""
        if not (isinstance(recv, ast.Subscript) and isinstance(recv.value, ast.Name)):
            return False
        for n in sc.tree.body:
            tgt = n.targets[0] if isinstance(n, ast.Assign) and len(n.targets) == 1 else n.target if isinstance(n, ast.AnnAssign) else None
            if isinstance(tgt, ast.Name) and tgt.id == recv.value.id and isinstance(getattr(n, "value", None), ast.Dict):
                vals = n.value.values
                is_c = [isinstance(v, ast.Attribute) and isinstance(v.value, ast.Name) and v.value.id.startswith("c_") for v in vals]
                is_none = [isinstance(v, ast.Constant) and v.value is None for v in vals]
                return any(is_c) and all(a or b for a, b in zip(is_c, is_none))
        return False


def mode_term(m):
    if m is None:
        return "MNone"
    if m[0] == "lit":
        return f"(MLit {coq_str(m[1])})"
    if m[0] == "default":
        return '(MLit "r")'
    return "MDynamic"


@translate.register
def gen_effects(repo):
    inv = Inventory(repo)
    opens, muts, imports, os_uses = inv.build()
    out = [translate.HEADER.format(src="every module under dissect/hypervisor (tools/translate_effects.py)"),
           "From Coq Require Import String ZArith List.\nImport ListNotations.\nOpen Scope Z_scope.\nOpen Scope string_scope.\n",
           "Inductive open_kind := PathOpen | BuiltinOpen | ModuleOpen | ReadText | ReadBytes | PassThrough | LocalFunction.",
           "Inductive open_mode := MLit (m : string) | MDynamic | MNone.",
           "Record open_site := mko { o_module : string; o_func : string; o_line : Z; o_kind : open_kind; "
           "o_target : string; o_mode : open_mode }.",
           "Inductive recv := PrivateBuffer | CliOutput | PureValue | Unknown.",
           "Record mut_call := mkm { m_module : string; m_func : string; m_line : Z; m_method : string; m_target : string; "
           "m_recv : recv }.",
           "",
           "Definition modules : list string := [" + "; ".join(coq_str(r) for r in inv.scans) + "].",
           "Definition mutator_names : list string := [" + "; ".join(coq_str(m) for m in MUTATORS) + "].",
           "Definition opens : list open_site := ["]
    out.append(";\n".join(f"  mko {coq_str(r)} {coq_str(q)} {ln} {k} {coq_str(t)} {mode_term(m)}" for r, q, ln, k, t, m in opens))
    out.append("].")
    out.append("Definition mutator_calls : list mut_call := [")
    out.append(";\n".join(f"  mkm {coq_str(r)} {coq_str(q)} {ln} {coq_str(me)} {coq_str(t)} {c}" for r, q, ln, me, t, c in muts))
    out.append("].")
    out.append("(* module, imported module, imported name (empty for `import x`) *)")
    out.append("Definition runtime_imports : list (string * string * string) := [")
    out.append(";\n".join(f"  ({coq_str(r)}, {coq_str(m)}, {coq_str(n)})" for r, m, n in imports))
    out.append("].")
    out.append("(* module, attribute taken from os *)")
    if os_uses:
        out.append("Definition os_uses : list (string * string) := [" + "; ".join(f"({coq_str(r)}, {coq_str(a)})" for r, a in os_uses) + "].")
    else:
        out.append("Definition os_uses : list (string * string) := [].")
    return {"Effects.v": "\n".join(out) + "\n"}
