"""C14 translator plug-in: declarative metadata tables of the disk readers -> coq/Gen/Meta{Vmdk,Qcow2,Hdd}Tables.v

* the alternatives of RE_EXTENT_DESCRIPTOR (access modes, extent types) and its overall shape
* the extent-line prefixes of DiskDescriptor.parse (`line.startswith((...))`)
* the two extent-type lists VMDK.__init__ dispatches on
* the literals `104` (offset of compression_type) and `0xFFFFFFF8` (8-byte padding mask) of qcow2.py
* the element names hdd.py looks up in DiskDescriptor.xml

Fail-closed: anything that does not have the expected shape raises TranslateError."""
from __future__ import annotations

import ast
import os
import re

import translate
from translate import TranslateError

# the grammar skeleton the hand-written matcher (Model/MetaVmdk.v re_extent_of) implements;
# %A / %T stand for the two generated alternative lists
SKELETON = (r'^(?P<access_mode>%A)\s(?P<sectors>\d+)\s(?P<type>%T)(\s(?P<filename>\".+\"))?(\s(?P<start_sector>\d+))?'
            r'(\s(?P<partition_uuid>\S+))?(\s(?P<device_identifier>\S+))?$')


def _parse(repo, rel):
    path = os.path.join(repo, rel)
    try:
        return translate.inline_literal_seqs(ast.parse(open(path).read(), path)), path
    except (OSError, SyntaxError) as e:
        raise TranslateError(f"{path}: {e}")


def _codes(s):
    if not all(ord(c) < 128 for c in s):
        raise TranslateError(f"non-ASCII table string {s!r}")
    return "[" + "; ".join(str(ord(c)) for c in s) + "]"


def _strs(name, items):
    return f"Definition {name} : list (list Z) := [" + "; ".join(_codes(s) for s in items) + "].\n"


def vmdk_tables(repo):
    tree, path = _parse(repo, "dissect/hypervisor/disk/vmdk.py")
    pattern = None
    prefixes = None
    type_lists = []
    for node in ast.walk(tree):
        if isinstance(node, ast.Assign) and len(node.targets) == 1 and isinstance(node.targets[0], ast.Name) \
                and node.targets[0].id == "RE_EXTENT_DESCRIPTOR":
            call = node.value
            if not (isinstance(call, ast.Call) and isinstance(call.func, ast.Attribute) and call.func.attr == "compile"
                    and len(call.args) == 2 and isinstance(call.args[0], ast.Constant) and isinstance(call.args[0].value, str)
                    and isinstance(call.args[1], ast.Attribute) and call.args[1].attr == "VERBOSE"):
                raise TranslateError(f"{path}:{node.lineno}: RE_EXTENT_DESCRIPTOR is not re.compile(<literal>, re.VERBOSE)")
            pattern = call.args[0].value
        if isinstance(node, ast.Call) and isinstance(node.func, ast.Attribute) and node.func.attr == "startswith" \
                and isinstance(node.func.value, ast.Name) and node.func.value.id == "line" and node.args \
                and isinstance(node.args[0], ast.Tuple):
            vals = [e.value for e in node.args[0].elts if isinstance(e, ast.Constant) and isinstance(e.value, str)]
            if len(vals) != len(node.args[0].elts):
                raise TranslateError(f"{path}:{node.lineno}: non-literal startswith tuple")
            if prefixes is not None:
                raise TranslateError(f"{path}:{node.lineno}: second startswith tuple on `line`")
            prefixes = vals
        if isinstance(node, ast.Compare) and len(node.ops) == 1 and isinstance(node.ops[0], ast.In) \
                and isinstance(node.left, ast.Attribute) and node.left.attr == "type" \
                and isinstance(node.comparators[0], (ast.List, ast.Tuple)):
            vals = [e.value for e in node.comparators[0].elts if isinstance(e, ast.Constant) and isinstance(e.value, str)]
            if len(vals) != len(node.comparators[0].elts):
                raise TranslateError(f"{path}:{node.lineno}: non-literal extent type list")
            type_lists.append((node.lineno, vals))
    if pattern is None:
        raise TranslateError(f"{path}: RE_EXTENT_DESCRIPTOR not found")
    if prefixes is None:
        raise TranslateError(f"{path}: extent line prefixes (line.startswith) not found")
    if len(type_lists) != 2:
        raise TranslateError(f"{path}: expected two extent type lists in VMDK.__init__, found {len(type_lists)}")
    flat = re.sub(r"\s+", "", pattern)       # re.VERBOSE: unescaped whitespace is ignored (the pattern has no comments, no [ ])
    if "#" in pattern or "[" in pattern:
        raise TranslateError(f"{path}: RE_EXTENT_DESCRIPTOR uses comments or character sets (unsupported)")
    m = re.fullmatch(re.escape(SKELETON).replace("%A", r"([A-Z|]+)").replace("%T", r"([A-Z|]+)"), flat)
    if not m:
        raise TranslateError(f"{path}: RE_EXTENT_DESCRIPTOR no longer has the shape the matcher implements: {flat}")
    access, types = m.group(1).split("|"), m.group(2).split("|")
    if not all(access) or not all(types):
        raise TranslateError(f"{path}: empty alternative in RE_EXTENT_DESCRIPTOR")
    type_lists.sort()
    out = _strs("meta_extent_access", access) + _strs("meta_extent_types", types)
    out += _strs("meta_extent_prefixes", prefixes)
    out += _strs("meta_wired_sparse_types", type_lists[0][1]) + _strs("meta_wired_raw_types", type_lists[1][1])
    return out


def qcow2_tables(repo):
    tree, path = _parse(repo, "dissect/hypervisor/disk/qcow2.py")
    comp = None
    mask = None
    for node in ast.walk(tree):
        if isinstance(node, ast.Compare) and isinstance(node.left, ast.Attribute) and node.left.attr == "header_length" \
                and len(node.ops) == 1 and isinstance(node.comparators[0], ast.Constant):
            if not isinstance(node.ops[0], ast.Gt) or comp is not None:
                raise TranslateError(f"{path}:{node.lineno}: unexpected header_length comparison")
            comp = node.comparators[0].value
        if isinstance(node, ast.BinOp) and isinstance(node.op, ast.BitAnd) and isinstance(node.right, ast.Constant) \
                and isinstance(node.left, ast.BinOp) and isinstance(node.left.op, ast.Add) \
                and isinstance(node.left.left, ast.Attribute) and node.left.left.attr == "len":
            if not (isinstance(node.left.right, ast.Constant) and node.left.right.value == 7) or mask is not None:
                raise TranslateError(f"{path}:{node.lineno}: unexpected extension padding expression")
            mask = node.right.value
    if comp is None or mask is None:
        raise TranslateError(f"{path}: header_length comparison / extension padding expression not found")
    return (f"Definition meta_qcow2_compression_offset : Z := {comp}.\n"
            f"Definition meta_qcow2_pad_mask : Z := {mask}.\n")


def hdd_tables(repo):
    tree, path = _parse(repo, "dissect/hypervisor/disk/hdd.py")
    tags = []
    for node in ast.walk(tree):
        if isinstance(node, ast.Call) and isinstance(node.func, ast.Attribute) and node.func.attr in ("find", "iterfind") \
                and len(node.args) == 1 and isinstance(node.args[0], ast.Constant) and isinstance(node.args[0].value, str):
            tags.append(node.args[0].value)
    if not tags:
        raise TranslateError(f"{path}: no element lookups found")
    seen = []
    for t in tags:
        if t not in seen:
            seen.append(t)
    return _strs("meta_hdd_tags", seen)


@translate.register
def gen(repo):
    def hdr(src):
        return (f"(* GENERATED by tools/translate_meta.py from {src} — do not edit. *)\n"
                "From Coq Require Import ZArith List.\nImport ListNotations.\nOpen Scope Z_scope.\n\n")
    # one file per source so that a change of one reader only rebuilds that reader's proofs
    return {"MetaVmdkTables.v": hdr("dissect/hypervisor/disk/vmdk.py") + vmdk_tables(repo),
            "MetaQcow2Tables.v": hdr("dissect/hypervisor/disk/qcow2.py") + qcow2_tables(repo),
            "MetaHddTables.v": hdr("dissect/hypervisor/disk/hdd.py") + hdd_tables(repo)}
