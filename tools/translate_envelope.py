"""Generator for coq/Gen/EnvelopeTables.v (property C16).

Reads dissect/hypervisor/util/envelope.py with `ast` and extracts the declarative facts the
Gallina model of the envelope / keystore code depends on.  Fail-closed: any shape that is not the
expected one raises TranslateError (the check then reports the tie as broken).

  envelope_ATTRIBUTE_TYPE_MAP      ENVELOPE_ATTRIBUTE_TYPE_MAP as (type value, (class, width));
                                   class 0 = None, 1 = unsigned, 2 = signed, 3 = float
  envelope_required_attributes     the tuple of the `for req in (...)` gate of Envelope.__init__
  envelope_header_version          literal of `self.header.version != N`
  envelope_aead_footer_version     literal of `aead_footer.version != N`
  envelope_cipher_names            every literal compared with self.cipher_name (must all agree)
  envelope_strip_block             N of `decrypted[: -N - footer.padding]`
  envelope_footer_tail             N of `decrypted[-N:]`
  envelope_keyhash_alg             hashlib.<alg>(self.cipher_name.encode() + key)
  envelope_pbkdf2_hash / _iterations   hashlib.pbkdf2_hmac(<hash>, data1 + PBKDF2_SALT, data2, <iterations>)
  envelope_keystore_mode           literal of `self.mode == "..."`
  envelope_config_fields           the obj[...] keys read by KeyStore.__init__ (in order)
"""
from __future__ import annotations

import ast

import translate
from translate import TranslateError

REL = "dissect/hypervisor/util/envelope.py"

BASE_TYPES = {
    "uint8": (1, 1), "uint16": (1, 2), "uint32": (1, 4), "uint64": (1, 8),
    "int8": (2, 1), "int16": (2, 2), "int32": (2, 4), "int64": (2, 8),
    "float": (3, 4), "double": (3, 8),
}


def _bytes_term(s: str) -> str:
    return "[" + "; ".join(str(b) for b in s.encode()) + "]"


def _find_class(tree, name, path):
    for n in tree.body:
        if isinstance(n, ast.ClassDef) and n.name == name:
            return n
    raise TranslateError(f"{path}: class {name} not found")


def _find_method(cls, name, path):
    for n in cls.body:
        if isinstance(n, ast.FunctionDef) and n.name == name:
            return n
    raise TranslateError(f"{path}: {cls.name}.{name} not found")


def _is_self_attr(n, attr):
    return isinstance(n, ast.Attribute) and n.attr == attr and isinstance(n.value, ast.Name) and n.value.id == "self"


@translate.register
def gen_envelope(repo):
    path, src, tree = translate.load_module(repo, REL)
    cname, endian, parsed = translate.find_cdefs(path, tree)
    if endian != "<":
        raise TranslateError(f"{path}: envelope structures are expected little-endian")
    enum = dict(parsed["enums"]["AttributeType"][1])
    out = []

    # ---- ENVELOPE_ATTRIBUTE_TYPE_MAP
    tmap = None
    for n in tree.body:
        if isinstance(n, ast.Assign) and len(n.targets) == 1 and isinstance(n.targets[0], ast.Name) \
                and n.targets[0].id == "ENVELOPE_ATTRIBUTE_TYPE_MAP":
            if not isinstance(n.value, ast.Dict):
                raise TranslateError(f"{path}:{n.lineno}: ENVELOPE_ATTRIBUTE_TYPE_MAP is not a dict literal")
            tmap = []
            for k, v in zip(n.value.keys, n.value.values):
                if not (isinstance(k, ast.Attribute) and isinstance(k.value, ast.Attribute)
                        and k.value.attr == "AttributeType" and k.attr in enum):
                    raise TranslateError(f"{path}:{n.lineno}: unexpected key in ENVELOPE_ATTRIBUTE_TYPE_MAP")
                if isinstance(v, ast.Constant) and v.value is None:
                    cls_w = (0, 0)
                elif isinstance(v, ast.Attribute) and isinstance(v.value, ast.Name) and v.value.id == cname \
                        and v.attr in BASE_TYPES:
                    cls_w = BASE_TYPES[v.attr]
                else:
                    raise TranslateError(f"{path}:{n.lineno}: unexpected value type for {k.attr}")
                tmap.append((enum[k.attr], cls_w))
    if tmap is None:
        raise TranslateError(f"{path}: ENVELOPE_ATTRIBUTE_TYPE_MAP not found")
    out.append("Definition envelope_ATTRIBUTE_TYPE_MAP : list (Z * (Z * Z)) := ["
               + "; ".join(f"({k}, ({c}, {w}))" for k, (c, w) in tmap) + "].")

    env = _find_class(tree, "Envelope", path)
    init = _find_method(env, "__init__", path)
    dec = _find_method(env, "decrypt", path)

    # ---- required attributes, versions, cipher names
    required = None
    hver = fver = None
    ciphers = []
    for n in ast.walk(init):
        if isinstance(n, ast.For) and isinstance(n.target, ast.Name) and n.target.id == "req":
            if not (isinstance(n.iter, ast.Tuple) and all(isinstance(e, ast.Constant) and isinstance(e.value, str)
                                                          for e in n.iter.elts)):
                raise TranslateError(f"{path}:{n.lineno}: required-attribute loop is not over a tuple of strings")
            required = [e.value for e in n.iter.elts]
        if isinstance(n, ast.Compare) and len(n.ops) == 1 and isinstance(n.comparators[0], ast.Constant):
            lit = n.comparators[0].value
            left = n.left
            if isinstance(left, ast.Attribute) and left.attr == "version" and isinstance(n.ops[0], ast.NotEq):
                if _is_self_attr(left.value, "header"):
                    hver = lit
                elif isinstance(left.value, ast.Name) and left.value.id == "aead_footer":
                    fver = lit
                else:
                    raise TranslateError(f"{path}:{n.lineno}: unexpected version gate")
    for fn in (init, dec):
        for n in ast.walk(fn):
            if isinstance(n, ast.Compare) and _is_self_attr(n.left, "cipher_name"):
                if not (len(n.ops) == 1 and isinstance(n.ops[0], ast.Eq) and isinstance(n.comparators[0], ast.Constant)
                        and isinstance(n.comparators[0].value, str)):
                    raise TranslateError(f"{path}:{n.lineno}: unexpected cipher_name comparison")
                ciphers.append(n.comparators[0].value)
    if required is None or not isinstance(hver, int) or not isinstance(fver, int) or len(ciphers) != 2:
        raise TranslateError(f"{path}: Envelope gates not found (required={required}, header version={hver}, "
                             f"footer version={fver}, cipher comparisons={ciphers})")
    if len(set(ciphers)) != 1:
        raise TranslateError(f"{path}: __init__ and decrypt compare cipher_name with different literals {ciphers}")
    out.append("Definition envelope_required_attributes : list (list Z) := ["
               + "; ".join(_bytes_term(r) for r in required) + "].")
    out.append(f"Definition envelope_header_version : Z := {hver}.")
    out.append(f"Definition envelope_aead_footer_version : Z := {fver}.")
    out.append(f"Definition envelope_cipher_name : list Z := {_bytes_term(ciphers[0])}.")

    # ---- strip arithmetic and key hash in decrypt
    strip = tail = alg = None
    for n in ast.walk(dec):
        if isinstance(n, ast.Subscript) and isinstance(n.value, ast.Name) and n.value.id == "decrypted" \
                and isinstance(n.slice, ast.Slice) and isinstance(n.ctx, ast.Load):
            s = n.slice
            if s.lower is None and s.step is None and isinstance(s.upper, ast.BinOp) and isinstance(s.upper.op, ast.Sub) \
                    and isinstance(s.upper.left, ast.UnaryOp) and isinstance(s.upper.left.op, ast.USub) \
                    and isinstance(s.upper.left.operand, ast.Constant) \
                    and isinstance(s.upper.right, ast.Attribute) and s.upper.right.attr == "padding":
                strip = s.upper.left.operand.value
            elif s.upper is None and s.step is None and isinstance(s.lower, ast.UnaryOp) \
                    and isinstance(s.lower.op, ast.USub) and isinstance(s.lower.operand, ast.Constant):
                tail = s.lower.operand.value
            else:
                raise TranslateError(f"{path}:{n.lineno}: unexpected slice of `decrypted`")
        if isinstance(n, ast.Call) and isinstance(n.func, ast.Attribute) and isinstance(n.func.value, ast.Name) \
                and n.func.value.id == "hashlib":
            a = n.args
            ok = (len(a) == 1 and isinstance(a[0], ast.BinOp) and isinstance(a[0].op, ast.Add)
                  and isinstance(a[0].left, ast.Call) and isinstance(a[0].left.func, ast.Attribute)
                  and a[0].left.func.attr == "encode" and _is_self_attr(a[0].left.func.value, "cipher_name")
                  and isinstance(a[0].right, ast.Name) and a[0].right.id == "key")
            if not ok:
                raise TranslateError(f"{path}:{n.lineno}: key hash is not hashlib.X(self.cipher_name.encode() + key)")
            alg = n.func.attr
    if not isinstance(strip, int) or not isinstance(tail, int) or alg is None:
        raise TranslateError(f"{path}: decrypt: strip/tail/key-hash expressions not found ({strip}, {tail}, {alg})")
    out.append(f"Definition envelope_strip_block : Z := {strip}.")
    out.append(f"Definition envelope_footer_tail : Z := {tail}.")
    out.append(f"Definition envelope_keyhash_alg : list Z := {_bytes_term(alg)}.")

    # ---- KeyStore.__init__
    ks = _find_class(tree, "KeyStore", path)
    kinit = _find_method(ks, "__init__", path)
    mode = None
    kdf = None
    fields = []
    for n in ast.walk(kinit):
        if isinstance(n, ast.Compare) and _is_self_attr(n.left, "mode"):
            if not (len(n.ops) == 1 and isinstance(n.ops[0], ast.Eq) and isinstance(n.comparators[0], ast.Constant)):
                raise TranslateError(f"{path}:{n.lineno}: unexpected mode comparison")
            mode = n.comparators[0].value
        if isinstance(n, ast.Subscript) and isinstance(n.value, ast.Name) and n.value.id == "obj" \
                and isinstance(n.ctx, ast.Load) and isinstance(n.slice, ast.Constant):
            fields.append((n.lineno, n.col_offset, n.slice.value))
        if isinstance(n, ast.Call) and isinstance(n.func, ast.Attribute) and n.func.attr == "pbkdf2_hmac":
            a = n.args
            ok = (len(a) == 4 and not n.keywords and isinstance(a[0], ast.Constant) and isinstance(a[0].value, str)
                  and isinstance(a[1], ast.BinOp) and isinstance(a[1].op, ast.Add)
                  and isinstance(a[1].left, ast.Name) and a[1].left.id == "data1"
                  and isinstance(a[1].right, ast.Name) and a[1].right.id == "PBKDF2_SALT"
                  and isinstance(a[2], ast.Name) and a[2].id == "data2"
                  and isinstance(a[3], ast.Constant) and isinstance(a[3].value, int))
            if not ok:
                raise TranslateError(f"{path}:{n.lineno}: pbkdf2_hmac call is not (hash, data1 + PBKDF2_SALT, data2, n)")
            kdf = (a[0].value, a[3].value)
    if not isinstance(mode, str) or kdf is None or not fields:
        raise TranslateError(f"{path}: KeyStore.__init__: mode/pbkdf2/obj fields not found")
    out.append(f"Definition envelope_keystore_mode : list Z := {_bytes_term(mode)}.")
    out.append(f"Definition envelope_pbkdf2_hash : list Z := {_bytes_term(kdf[0])}.")
    out.append(f"Definition envelope_pbkdf2_iterations : Z := {kdf[1]}.")
    out.append("Definition envelope_config_fields : list (list Z) := ["
               + "; ".join(_bytes_term(f) for _, _, f in sorted(fields)) + "].")

    text = (translate.HEADER.format(src=REL + " (tools/translate_envelope.py)")
            + "From Coq Require Import ZArith List.\nImport ListNotations.\nOpen Scope Z_scope.\n\n"
            + "\n".join(out) + "\n")
    return {"EnvelopeTables.v": text}
