"""Gen/DescTables.v — the declarative content of the four VM-configuration parsers
(dissect/hypervisor/descriptor/{vmx,ovf,vbox,pvs}.py), regenerated from the current source:

* vmx: the separators / strip sets / comment prefix of `_parse_dictionary`; `dev_classes`, the property
  names, the "disk" marker, the device/property separator and the way the class prefix is removed
  (`lstrip` = character-SET stripping, or a real prefix removal) in `VMX.disks`
* ovf: `NS`, the three XPaths compiled to ElementPath steps (with the stdlib's own tokenizer and a copy
  of its compile loop, restricted to the shapes the model evaluates), attribute / tag names, prefixes
* vbox: the HardDisk XPath, attribute names, the accepted format
* pvs: the Hdd XPath and the SystemName tag

Fail-closed: anything that is not exactly the expected call shape raises TranslateError.
"""
from __future__ import annotations

import ast
import re
from xml.etree import ElementPath

import translate
from translate import TranslateError

VMX = "dissect/hypervisor/descriptor/vmx.py"
OVF = "dissect/hypervisor/descriptor/ovf.py"
VBOX = "dissect/hypervisor/descriptor/vbox.py"
PVS = "dissect/hypervisor/descriptor/pvs.py"


# ----------------------------------------------------------------------------- rendering
def cstr(s: str) -> str:
    if any(0xD800 <= ord(c) <= 0xDFFF for c in s):
        raise TranslateError(f"surrogate in string constant {s!r}")
    return "[" + "; ".join(str(ord(c)) for c in s) + "]"


def comment(s: str) -> str:
    return "(* " + s.replace("(*", "( *").replace("*)", "* )").replace('"', "<dq>") + " *)"


def d_str(name, s):
    return f"Definition {name} : str := {cstr(s)}. {comment(repr(s))}"


def d_char(name, s, where):
    if len(s) != 1:
        raise TranslateError(f"{where}: separator {s!r} is not a single character (model supports one-character separators)")
    return f"Definition {name} : Z := {ord(s)}. {comment(repr(s))}"


def d_strs(name, ss):
    return f"Definition {name} : list str := [" + "; ".join(cstr(s) for s in ss) + f"]. {comment(repr(list(ss)))}"


# ----------------------------------------------------------------------------- ast helpers
def find_class(path, tree, name):
    for n in tree.body:
        if isinstance(n, ast.ClassDef) and n.name == name:
            return n
    raise TranslateError(f"{path}: class {name} not found")


def find_func(path, body, name):
    for n in body:
        if isinstance(n, (ast.FunctionDef, ast.AsyncFunctionDef)) and n.name == name:
            return n
    raise TranslateError(f"{path}: function {name} not found")


def class_consts(path, cls):
    """class-level NAME = <str | dict of str> assignments (plain or annotated)."""
    out = {}
    for n in cls.body:
        tgt = val = None
        if isinstance(n, ast.Assign) and len(n.targets) == 1 and isinstance(n.targets[0], ast.Name):
            tgt, val = n.targets[0].id, n.value
        elif isinstance(n, ast.AnnAssign) and isinstance(n.target, ast.Name) and n.value is not None:
            tgt, val = n.target.id, n.value
        if tgt is None:
            continue
        if isinstance(val, ast.Constant) and isinstance(val.value, str):
            out[tgt] = val.value
        elif isinstance(val, ast.Dict):
            d = {}
            for k, v in zip(val.keys, val.values):
                if not (isinstance(k, ast.Constant) and isinstance(k.value, str)
                        and isinstance(v, ast.Constant) and isinstance(v.value, str)):
                    raise TranslateError(f"{path}:{n.lineno}: {tgt} is not a str->str literal")
                d[k.value] = v.value
            out[tgt] = d
        else:
            raise TranslateError(f"{path}:{n.lineno}: class constant {tgt} has an unsupported value")
    return out


def is_self_attr(n, attr=None):
    return (isinstance(n, ast.Attribute) and isinstance(n.value, ast.Name) and n.value.id == "self"
            and (attr is None or n.attr == attr))


class Ev:
    def __init__(self, path, consts):
        self.path = path
        self.consts = consts

    def err(self, n, msg):
        raise TranslateError(f"{self.path}:{getattr(n, 'lineno', '?')}: {msg}")

    def s(self, n) -> str:
        if isinstance(n, ast.Constant) and isinstance(n.value, str):
            return n.value
        if is_self_attr(n):
            v = self.consts.get(n.attr)
            if isinstance(v, str):
                return v
            self.err(n, f"self.{n.attr} is not a string class constant")
        # self.NS['ovf'] / self.NS.get('ovf'): an entry of a str->str dict class constant
        if isinstance(n, ast.Subscript) and is_self_attr(n.value) and isinstance(n.slice, ast.Constant) \
                and isinstance(n.slice.value, str):
            d = self.consts.get(n.value.attr)
            if isinstance(d, dict) and n.slice.value in d:
                return d[n.slice.value]
            self.err(n, f"self.{n.value.attr}[{n.slice.value!r}] is not an entry of a dict class constant")
        if isinstance(n, ast.BinOp) and isinstance(n.op, ast.Add):
            return self.s(n.left) + self.s(n.right)
        if isinstance(n, ast.JoinedStr):
            parts = []
            for p in n.values:
                if isinstance(p, ast.Constant) and isinstance(p.value, str):
                    parts.append(p.value)
                elif isinstance(p, ast.FormattedValue) and p.conversion == -1 and p.format_spec is None:
                    parts.append(self.s(p.value))
                else:
                    self.err(n, "unsupported f-string part")
            return "".join(parts)
        if (isinstance(n, ast.Call) and isinstance(n.func, ast.Attribute) and n.func.attr == "format"
                and isinstance(n.func.value, ast.Constant) and isinstance(n.func.value.value, str)
                and not n.args and len(n.keywords) == 1 and n.keywords[0].arg is None
                and is_self_attr(n.keywords[0].value)):
            d = self.consts.get(n.keywords[0].value.attr)
            if not isinstance(d, dict):
                self.err(n, "format(**x): x is not a dict class constant")
            try:
                return n.func.value.value.format(**d)
            except (KeyError, IndexError, ValueError) as e:
                self.err(n, f"format failed: {e}")
        self.err(n, f"unsupported string expression {ast.dump(n)[:100]}")


def calls(fn, method):
    out = [n for n in ast.walk(fn) if isinstance(n, ast.Call) and isinstance(n.func, ast.Attribute)
           and n.func.attr == method]
    out.sort(key=lambda n: (n.lineno, n.col_offset))
    return out


def one(path, fn, method, nargs=None):
    cs = calls(fn, method)
    if len(cs) != 1:
        raise TranslateError(f"{path}: expected exactly one .{method}() call in {fn.name}, found {len(cs)}")
    c = cs[0]
    if c.keywords or (nargs is not None and len(c.args) != nargs):
        raise TranslateError(f"{path}:{c.lineno}: .{method}() has unexpected arguments")
    return c


# ----------------------------------------------------------------------------- XPath
def compile_xpath(where, path, ns):
    """Copy of ElementPath.iterfind's compile loop, restricted to the supported shapes."""
    if not path or path[-1:] == "/" or path[:1] == "/":
        raise TranslateError(f"{where}: unsupported path {path!r}")
    try:
        toks = list(ElementPath.xpath_tokenizer(path, ns))
    except SyntaxError as e:
        raise TranslateError(f"{where}: {e}")
    it = iter(toks)

    def nxt():
        return next(it)

    def plain_tag(tag):
        if not tag or tag == "*" or tag[:3] == "{*}" or tag[-2:] == "}*" or tag[:2] == "{}":
            raise TranslateError(f"{where}: wildcard / empty-namespace tag {tag!r} is not modelled")
        return tag

    steps = []
    try:
        token = nxt()
    except StopIteration:
        raise TranslateError(f"{where}: empty path")
    while True:
        op = token[0]
        try:
            if op == "":
                steps.append(("SChild", plain_tag(token[1])))
            elif op == ".":
                steps.append(("SSelf",))
            elif op == "//":
                token = nxt()
                if token[0]:
                    raise TranslateError(f"{where}: unsupported descendant step")
                steps.append(("SDesc", plain_tag(token[1])))
            elif op == "[":
                sig, pred = [], []
                while True:
                    token = nxt()
                    if token[0] == "]":
                        break
                    if token == ("", ""):
                        continue
                    if token[0] and token[0][:1] in "'\"":
                        token = "'", token[0][1:-1]
                    sig.append(token[0] or "-")
                    pred.append(token[1])
                sig = "".join(sig)
                if sig == "@-":
                    steps.append(("PAttr", pred[1]))
                elif sig == "@-='":
                    steps.append(("PAttrEq", pred[1], pred[-1]))
                elif sig == "-='" and not re.match(r"\-?\d+$", pred[0]):
                    steps.append(("PKidText", plain_tag(pred[0]), pred[-1]))
                else:
                    raise TranslateError(f"{where}: predicate shape {sig!r} is not modelled")
            else:
                raise TranslateError(f"{where}: path operator {op!r} is not modelled")
        except StopIteration:
            raise TranslateError(f"{where}: invalid path {path!r}")
        try:
            token = nxt()
            if token[0] == "/":
                token = nxt()
        except StopIteration:
            break
    return steps


def d_steps(name, steps, src):
    def one_step(s):
        if len(s) == 1:
            return s[0]
        return "(" + s[0] + " " + " ".join(cstr(a) for a in s[1:]) + ")"
    body = ";\n  ".join(one_step(s) + " " + comment(" ".join(repr(a) for a in s)) for s in steps)
    return f"{comment('compiled from ' + repr(src))}\nDefinition {name} : list step := [\n  {body}\n]."


# ----------------------------------------------------------------------------- vmx
def gen_vmx(repo):
    path, _, tree = translate.load_module(repo, VMX)
    out = [f"\n(* ---- {VMX}: _parse_dictionary ---- *)"]
    pd = find_func(path, tree.body, "_parse_dictionary")
    ev = Ev(path, {})
    sp = one(path, pd, "split", 1)
    out.append(d_char("vmx_line_sep", ev.s(sp.args[0]), f"{path}:{sp.lineno}"))
    sw = one(path, pd, "startswith", 1)
    out.append(d_str("vmx_comment_prefix", ev.s(sw.args[0])))
    pt = one(path, pd, "partition", 1)
    out.append(d_char("vmx_kv_sep", ev.s(pt.args[0]), f"{path}:{pt.lineno}"))
    strips = calls(pd, "strip")
    bare = [c for c in strips if not c.args and not c.keywords]
    arg = [c for c in strips if c.args]
    if len(strips) != 3 or len(bare) != 2 or len(arg) != 1 or len(arg[0].args) != 1:
        raise TranslateError(f"{path}: _parse_dictionary: expected line.strip(), key.strip() and value.strip(chars)")
    lows = calls(pd, "lower")
    if len(lows) != 1 or lows[0].args:
        raise TranslateError(f"{path}: _parse_dictionary: expected exactly one .lower()")
    # dictionary[key.strip().lower()] = value.strip(chars)
    ok = False
    for n in ast.walk(pd):
        if (isinstance(n, ast.Assign) and len(n.targets) == 1 and isinstance(n.targets[0], ast.Subscript)):
            k, v = n.targets[0].slice, n.value
            if (isinstance(k, ast.Call) and isinstance(k.func, ast.Attribute) and k.func.attr == "lower"
                    and isinstance(k.func.value, ast.Call) and isinstance(k.func.value.func, ast.Attribute)
                    and k.func.value.func.attr == "strip" and not k.func.value.args
                    and isinstance(k.func.value.func.value, ast.Name) and k.func.value.func.value.id == "key"
                    and v is arg[0] and isinstance(v.func.value, ast.Name) and v.func.value.id == "value"):
                ok = True
    if not ok:
        raise TranslateError(f"{path}: _parse_dictionary: assignment dictionary[key.strip().lower()] = value.strip(..) not found")
    out.append(d_str("vmx_value_strip", ev.s(arg[0].args[0])))

    out.append(f"\n(* ---- {VMX}: VMX.disks ---- *)")
    dk = find_func(path, find_class(path, tree, "VMX").body, "disks")
    classes = None
    for n in ast.walk(dk):
        if (isinstance(n, ast.Assign) and len(n.targets) == 1 and isinstance(n.targets[0], ast.Name)
                and n.targets[0].id == "dev_classes"):
            if not isinstance(n.value, (ast.Tuple, ast.List)):
                raise TranslateError(f"{path}:{n.lineno}: dev_classes is not a literal sequence")
            classes = [ev.s(e) for e in n.value.elts]
    if not classes:
        raise TranslateError(f"{path}: dev_classes not found in VMX.disks")
    out.append(d_strs("vmx_dev_classes", classes))
    one(path, dk, "startswith", 1)
    splits, parts = calls(dk, "split"), calls(dk, "partition")
    if len(splits) + len(parts) != 1:
        raise TranslateError(f"{path}: VMX.disks: expected one split(sep, 1) or partition(sep) of the setting name")
    if splits:
        c = splits[0]
        if len(c.args) != 2 or not (isinstance(c.args[1], ast.Constant) and c.args[1].value == 1) or c.keywords:
            raise TranslateError(f"{path}:{c.lineno}: expected split(sep, 1)")
    else:
        c = parts[0]
        if len(c.args) != 1 or c.keywords:
            raise TranslateError(f"{path}:{c.lineno}: expected partition(sep)")
    out.append(d_char("vmx_dev_sep", ev.s(c.args[0]), f"{path}:{c.lineno}"))
    ls, rp = calls(dk, "lstrip"), calls(dk, "removeprefix")
    if len(ls) + len(rp) != 1:
        raise TranslateError(f"{path}: VMX.disks: expected exactly one lstrip(dev_class) / removeprefix(dev_class)")
    c = (ls or rp)[0]
    if len(c.args) != 1 or not (isinstance(c.args[0], ast.Name) and c.args[0].id == "dev_class"):
        raise TranslateError(f"{path}:{c.lineno}: class prefix removal has an unexpected argument")
    out.append(f"Definition vmx_strip_is_charset : bool := {'true' if ls else 'false'}. "
               f"{comment('device.lstrip(dev_class) strips a character SET' if ls else 'real prefix removal')}")
    gets = [c for c in calls(dk, "get")]
    if len(gets) != 2 or any(len(c.args) != 1 or c.keywords for c in gets):
        raise TranslateError(f"{path}: VMX.disks: expected .get(<file name key>) and .get(<device type key>)")
    out.append(d_str("vmx_key_filename", ev.s(gets[0].args[0])))
    out.append(d_str("vmx_key_devicetype", ev.s(gets[1].args[0])))
    ins = [n for n in ast.walk(dk) if isinstance(n, ast.Compare) and len(n.ops) == 1 and isinstance(n.ops[0], ast.In)
           and isinstance(n.left, ast.Constant) and isinstance(n.left.value, str)]
    if len(ins) != 1:
        raise TranslateError(f"{path}: VMX.disks: expected exactly one '<marker> in <device type>' test")
    cmpn = ins[0].comparators[0]
    if not (isinstance(cmpn, ast.Call) and isinstance(cmpn.func, ast.Attribute) and cmpn.func.attr == "lower"):
        raise TranslateError(f"{path}:{ins[0].lineno}: the device type is not lower-cased before the test")
    out.append(d_str("vmx_disk_marker", ins[0].left.value))
    rets = [n for n in ast.walk(dk) if isinstance(n, ast.Return)]
    if not (len(rets) == 1 and isinstance(rets[0].value, ast.Call) and isinstance(rets[0].value.func, ast.Name)
            and rets[0].value.func.id == "sorted" and len(rets[0].value.args) == 1 and not rets[0].value.keywords):
        raise TranslateError(f"{path}: VMX.disks does not end in `return sorted(<list>)`")
    return out


# ----------------------------------------------------------------------------- ovf
def gen_ovf(repo):
    path, _, tree = translate.load_module(repo, OVF)
    cls = find_class(path, tree, "OVF")
    consts = class_consts(path, cls)
    ev = Ev(path, consts)
    ns = consts.get("NS")
    if not isinstance(ns, dict):
        raise TranslateError(f"{path}: OVF.NS not found")
    out = [f"\n(* ---- {OVF} ---- *)"]
    for k, v in ns.items():
        if not re.fullmatch(r"[a-z]+", k):
            raise TranslateError(f"{path}: namespace prefix {k!r}")
        out.append(d_str(f"ovf_ns_{k}", v))
    for cname, dname in (("FILE_XPATH", "ovf_file_xpath"), ("DISK_XPATH", "ovf_disk_xpath"),
                         ("DISK_DRIVE_XPATH", "ovf_drive_xpath")):
        if not isinstance(consts.get(cname), str):
            raise TranslateError(f"{path}: OVF.{cname} not found")
        out.append(d_steps(dname, compile_xpath(f"{path}: {cname}", consts[cname], ns), consts[cname]))
    init = find_func(path, cls.body, "__init__")
    fa = calls(init, "findall")
    want = ["FILE_XPATH", "DISK_XPATH"]
    if len(fa) != 2 or any(len(c.args) != 2 or not is_self_attr(c.args[0], w) or not is_self_attr(c.args[1], "NS")
                           for c, w in zip(fa, want)):
        raise TranslateError(f"{path}: OVF.__init__: expected findall(self.FILE_XPATH, self.NS) then findall(self.DISK_XPATH, self.NS)")
    gets = [c for c in calls(init, "get") if c.args and not (isinstance(c.args[0], ast.Name))]
    if len(gets) != 4 or any(len(c.args) != 1 or c.keywords for c in gets):
        raise TranslateError(f"{path}: OVF.__init__: expected four attribute reads (id, href, diskId, fileRef)")
    for name, c in zip(("ovf_attr_id", "ovf_attr_href", "ovf_attr_diskid", "ovf_attr_fileref"), gets):
        out.append(d_str(name, ev.s(c.args[0])))
    dk = find_func(path, cls.body, "disks")
    fa = calls(dk, "findall")
    if len(fa) != 1 or len(fa[0].args) != 2 or not is_self_attr(fa[0].args[0], "DISK_DRIVE_XPATH") \
            or not is_self_attr(fa[0].args[1], "NS"):
        raise TranslateError(f"{path}: OVF.disks: expected findall(self.DISK_DRIVE_XPATH, self.NS)")
    fd = one(path, dk, "find", 1)
    tag = ev.s(fd.args[0])
    if compile_xpath(f"{path}:{fd.lineno}", tag, None) != [("SChild", tag)]:
        raise TranslateError(f"{path}:{fd.lineno}: find() argument is not a plain tag")
    out.append(d_str("ovf_tag_hostresource", tag))
    rp = one(path, dk, "removeprefix", 1)
    out.append(d_str("ovf_res_prefix", ev.s(rp.args[0])))
    sws = calls(dk, "startswith")
    if len(sws) != 2 or any(len(c.args) != 1 for c in sws):
        raise TranslateError(f"{path}: OVF.disks: expected two startswith() tests")
    out.append(d_str("ovf_disk_prefix", ev.s(sws[0].args[0])))
    out.append(d_str("ovf_file_prefix", ev.s(sws[1].args[0])))
    sps = calls(dk, "split")
    seps = {ev.s(c.args[0]) for c in sps if len(c.args) == 1}
    if len(sps) != 2 or len(seps) != 1:
        raise TranslateError(f"{path}: OVF.disks: expected two split(sep) calls with the same separator")
    out.append(d_char("ovf_ref_sep", seps.pop(), f"{path}:{sps[0].lineno}"))
    for c in sps:
        # must be `<...>.split(sep)[-1]`
        pass
    subs = [n for n in ast.walk(dk) if isinstance(n, ast.Subscript) and n.value in sps]
    if len(subs) != 2 or any(not (isinstance(s.slice, ast.UnaryOp) and isinstance(s.slice.op, ast.USub)
                                  and isinstance(s.slice.operand, ast.Constant) and s.slice.operand.value == 1)
                             for s in subs):
        raise TranslateError(f"{path}: OVF.disks: expected split(sep)[-1]")
    return out


# ----------------------------------------------------------------------------- vbox / pvs
def gen_vbox(repo):
    path, _, tree = translate.load_module(repo, VBOX)
    cls = find_class(path, tree, "VBox")
    consts = class_consts(path, cls)
    ev = Ev(path, consts)
    out = [f"\n(* ---- {VBOX} ---- *)"]
    dk = find_func(path, cls.body, "disks")
    fa = one(path, dk, "findall", 1)
    xp = ev.s(fa.args[0])
    out.append(d_steps("vbox_disk_xpath", compile_xpath(f"{path}:{fa.lineno}", xp, None), xp))
    g = one(path, dk, "get", 1)
    out.append(d_str("vbox_attr_format", ev.s(g.args[0])))
    eqs = [n for n in ast.walk(dk) if isinstance(n, ast.Compare) and len(n.ops) == 1 and isinstance(n.ops[0], ast.Eq)
           and isinstance(n.comparators[0], ast.Constant) and isinstance(n.comparators[0].value, str)
           and isinstance(n.left, ast.Call) and isinstance(n.left.func, ast.Attribute) and n.left.func.attr == "lower"]
    if len(eqs) != 1:
        raise TranslateError(f"{path}: VBox.disks: expected `<format>.lower() == <const>`")
    out.append(d_str("vbox_format_accepted", eqs[0].comparators[0].value))
    subs = [n for n in ast.walk(dk) if isinstance(n, ast.Subscript) and isinstance(n.value, ast.Attribute)
            and n.value.attr == "attrib" and isinstance(n.slice, ast.Constant) and isinstance(n.slice.value, str)]
    ys = [n for n in ast.walk(dk) if isinstance(n, ast.Yield)]
    if len(subs) != 1 or len(ys) != 1 or ys[0].value is not subs[0]:
        raise TranslateError(f"{path}: VBox.disks: expected `yield <elem>.attrib[<const>]`")
    out.append(d_str("vbox_attr_location", subs[0].slice.value))
    return out


def gen_pvs(repo):
    path, _, tree = translate.load_module(repo, PVS)
    cls = find_class(path, tree, "PVS")
    ev = Ev(path, class_consts(path, cls))
    out = [f"\n(* ---- {PVS} ---- *)"]
    dk = find_func(path, cls.body, "disks")
    its = calls(dk, "iterfind") + calls(dk, "findall")
    if len(its) != 1 or len(its[0].args) != 1:
        raise TranslateError(f"{path}: PVS.disks: expected one iterfind(path)")
    xp = ev.s(its[0].args[0])
    out.append(d_steps("pvs_hdd_xpath", compile_xpath(f"{path}:{its[0].lineno}", xp, None), xp))
    fd = one(path, dk, "find", 1)
    tag = ev.s(fd.args[0])
    if compile_xpath(f"{path}:{fd.lineno}", tag, None) != [("SChild", tag)]:
        raise TranslateError(f"{path}:{fd.lineno}: find() argument is not a plain tag")
    out.append(d_str("pvs_tag_systemname", tag))
    ys = [n for n in ast.walk(dk) if isinstance(n, ast.Yield)]
    if len(ys) != 1 or not (isinstance(ys[0].value, ast.Attribute) and ys[0].value.attr == "text"):
        raise TranslateError(f"{path}: PVS.disks: expected `yield <elem>.text`")
    return out


@translate.register
def gen(repo):
    pre = ("From Coq Require Import ZArith List.\nImport ListNotations.\nOpen Scope Z_scope.\n"
           "From DH Require Import Model.Text Model.XmlTree.\n")
    body = gen_vmx(repo) + gen_ovf(repo) + gen_vbox(repo) + gen_pvs(repo)
    return {"DescTables.v": translate.HEADER.format(src="descriptor/{vmx,ovf,vbox,pvs}.py") + pre + "\n".join(body) + "\n"}
