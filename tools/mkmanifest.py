#!/usr/bin/env python3
"""Regenerate MANIFEST.json from the property modules under harness/props (META dicts)."""
import importlib, json, os, sys
V = os.path.dirname(os.path.dirname(os.path.abspath(__file__)))
sys.path.insert(0, V)
props = [json.loads(l)["id"] for l in open(os.path.join(V, "properties.jsonl")) if l.strip()]
checks, na = [], []
NA_REASONS = {}
nap = os.path.join(V, "not_applicable.json")
if os.path.exists(nap):
    NA_REASONS = json.load(open(nap))
for p in props:
    path = os.path.join(V, "harness", "props", p.lower() + ".py")
    if not os.path.exists(path) or p in NA_REASONS:
        na.append({"property_id": p, "reason": NA_REASONS.get(p, "check not built yet in this round (planned, see DESIGN.md §6)")})
        continue
    m = importlib.import_module(f"harness.props.{p.lower()}")
    meta = m.META
    checks.append({
        "property_id": p,
        "quick_cmd": f"./check {p} --tier quick",
        "thorough_cmd": f"./check {p} --tier thorough",
        "evidence_file": f"/verif/evidence/{p}.json",
        "replay_cmd_template": f"./check {p} --replay {{path}}",
        "engine": "coq-correspondence",
        "level_claimed": {"category": meta.get("category", "proof"), "text": meta["text"],
                          "design_ref": meta.get("design_ref", "DESIGN.md §6")},
        "level_note": meta["note"],
        "technique": meta.get("technique", "Coq proof + differential correspondence"),
    })
man = {
    "version": 1,
    "setup_cmd": "./setup.sh",
    "hooks": {"guard": "DISSECT_HYPERVISOR_VERIF", "enable": "no source hooks: checks import /repo with PYTHONPATH=/repo",
              "baseline_off_cmd": "cd /repo && /venv/bin/python -m pytest -ra -q -p no:cacheprovider --timeout=900",
              "source_commits": [], "add_only": True},
    "engines": [{"name": "coq-correspondence", "path": "/verif/check",
                 "serves_properties": [c["property_id"] for c in checks],
                 "kind_free_text": "Coq 8.16.1 development (coq/) regenerated+rebuilt per run, hand-written Gallina models tied to "
                                   "/repo by a translator (tools/translate.py -> coq/Gen) and a differential correspondence "
                                   "harness (harness/) evaluating the models with vm_compute"}],
    "checks": checks,
    "not_applicable": na,
    "notes": "See DESIGN.md. KNOWN_FINDINGS.jsonl lists repaired defects (fixed:) and recorded findings (known).",
}
json.dump(man, open(os.path.join(V, "MANIFEST.json"), "w"), indent=1)
print("MANIFEST.json:", len(checks), "checks,", len(na), "not claimed")
