"""Gen/XmlSites.v — inventory of every call into an XML library in every module under
dissect/hypervisor (C19), regenerated from the current source.

For each module: the alias map of its imports (runtime vs `if TYPE_CHECKING:`), every call whose callee
resolves through that map into an XML-capable package (xml, defusedxml, lxml, xmltodict, bs4, pyexpat,
html5lib, untangle) — with the resolved dotted name, the parser class (Defused / Stdlib / OtherParser), the
number of positional arguments and the keyword names — and every runtime import of an `xml...` module.
Calls of parser-like methods (fromstring, XML, iterparse, fromstringlist, parseString, feed) on a receiver
that is not an import are resolved through the receiver's constructor when it is assigned in the same
function; what cannot be resolved is listed in `xml_unresolved` (and a theorem requires that list empty).
Fail-closed on syntax errors and star-imports from XML packages."""
from __future__ import annotations

import ast
import os

import translate
from translate import TranslateError

XMLISH = {"xml", "defusedxml", "lxml", "xmltodict", "bs4", "pyexpat", "html5lib", "untangle", "expat"}
HARMLESS = {"tostring", "tostringlist", "Element", "SubElement", "ElementTree", "dump", "indent", "QName", "Comment",
            "register_namespace", "ProcessingInstruction", "iselement"}
PARSERLIKE = {"fromstring", "XML", "iterparse", "fromstringlist", "parseString", "feed", "XMLID", "XMLParser",
              "XMLPullParser"}


def cq(s):
    if not all(32 <= ord(c) < 127 for c in s):
        raise TranslateError(f"non-ASCII identifier {s!r}")
    return '"' + s.replace('"', '""') + '"'


def dotted(n):
    parts = []
    while isinstance(n, ast.Attribute):
        parts.append(n.attr)
        n = n.value
    if isinstance(n, ast.Name):
        parts.append(n.id)
        return list(reversed(parts))
    return None


def is_type_checking(test):
    return (isinstance(test, ast.Name) and test.id == "TYPE_CHECKING") or \
        (isinstance(test, ast.Attribute) and test.attr == "TYPE_CHECKING")


class Scan(ast.NodeVisitor):
    def __init__(self, path, modname):
        self.path, self.modname = path, modname
        self.alias = {}            # local name -> (dotted, typing_only)
        self.runtime_xml = []      # dotted names of runtime imports of xml.*
        self.sites = []
        self.unresolved = []
        self.typing = 0
        self.scope = []
        self.assigns = [{}]        # per function: target dotted-string -> constructor Call func dotted

    def imp(self, local, full, node):
        typing_only = self.typing > 0
        self.alias[local] = (full, typing_only)
        root = full.split(".")[0]
        if not typing_only and root == "xml":
            self.runtime_xml.append(full)

    def visit_Import(self, node):
        for a in node.names:
            if a.asname:
                self.imp(a.asname, a.name, node)
            else:
                self.imp(a.name.split(".")[0], a.name.split(".")[0], node)
                if a.name.split(".")[0] == "xml" and self.typing == 0:
                    self.runtime_xml.append(a.name)

    def visit_ImportFrom(self, node):
        if node.level:
            return
        mod = node.module or ""
        for a in node.names:
            if a.name == "*":
                if mod.split(".")[0] in XMLISH:
                    raise TranslateError(f"{self.path}:{node.lineno}: star import from {mod}")
                continue
            self.imp(a.asname or a.name, f"{mod}.{a.name}", node)

    def visit_If(self, node):
        if is_type_checking(node.test):
            self.typing += 1
            for s in node.body:
                self.visit(s)
            self.typing -= 1
            for s in node.orelse:
                self.visit(s)
        else:
            self.generic_visit(node)

    def visit_ClassDef(self, node):
        self.scope.append(node.name)
        self.generic_visit(node)
        self.scope.pop()

    def visit_FunctionDef(self, node):
        self.scope.append(node.name)
        self.assigns.append({})
        # first pass: constructor assignments in this function
        for n in ast.walk(node):
            if isinstance(n, ast.Assign) and len(n.targets) == 1 and isinstance(n.value, ast.Call):
                t = dotted(n.targets[0])
                f = dotted(n.value.func)
                if t and f:
                    self.assigns[-1][".".join(t)] = f
        self.generic_visit(node)
        self.assigns.pop()
        self.scope.pop()

    visit_AsyncFunctionDef = visit_FunctionDef

    def resolve(self, parts):
        """dotted parts -> (full dotted, typing_only) through the alias map, or None"""
        if parts and parts[0] in self.alias:
            full, typing_only = self.alias[parts[0]]
            return ".".join([full] + parts[1:]), typing_only
        return None

    def visit_Call(self, node):
        self.generic_visit(node)
        parts = dotted(node.func)
        if not parts:
            return
        res = self.resolve(parts)
        last = parts[-1]
        if res is None and len(parts) >= 2 and last in PARSERLIKE:
            recv = ".".join(parts[:-1])
            ctor = self.assigns[-1].get(recv)
            cres = self.resolve(ctor) if ctor else None
            if cres is None:
                self.unresolved.append((".".join(self.scope) or "<module>", node.lineno, ".".join(parts)))
                return
            if cres[0].split(".")[0] not in XMLISH:
                return
            res = (cres[0] + "()." + last, cres[1])
        if res is None:
            return
        full, _ = res
        root = full.split(".")[0]
        if root not in XMLISH or last in HARMLESS:
            return
        parser = "Defused" if root == "defusedxml" else ("Stdlib" if root == "xml" else "OtherParser")
        nargs = -1 if any(isinstance(a, ast.Starred) for a in node.args) else len(node.args)
        kws = [k.arg if k.arg is not None else "**" for k in node.keywords]
        self.sites.append((".".join(self.scope) or "<module>", node.lineno, full, parser, nargs, kws))


def modules(repo):
    base = os.path.join(repo, "dissect", "hypervisor")
    out = []
    for d, _, files in os.walk(base):
        for f in files:
            if f.endswith(".py"):
                p = os.path.join(d, f)
                rel = os.path.relpath(p, repo)
                out.append((rel, rel[:-3].replace(os.sep, ".").removesuffix(".__init__")))
    if not out:
        raise TranslateError(f"no modules under {base}")
    return sorted(out)


@translate.register
def gen(repo):
    sites, runtime, unresolved, mods = [], [], [], []
    for rel, modname in modules(repo):
        path, _, tree = translate.load_module(repo, rel)
        sc = Scan(path, modname)
        sc.visit(tree)
        mods.append(modname)
        for fn, line, full, parser, nargs, kws in sc.sites:
            sites.append(f"  mk_site {cq(modname)} {cq(fn)} {line} {cq(full)} {parser} {translate.zlit(nargs)} "
                         f"[{'; '.join(cq(k) for k in kws)}]")
        for full in sc.runtime_xml:
            runtime.append(f"({cq(modname)}, {cq(full)})")
        for fn, line, call in sc.unresolved:
            unresolved.append(f"({cq(modname)}, {cq(fn + ':' + str(line) + ':' + call)})")
    pre = ("From Coq Require Import String ZArith List.\nImport ListNotations.\nOpen Scope Z_scope.\n"
           "Open Scope string_scope.\nFrom DH Require Import Model.XmlEntry.\n\n")
    body = ("Definition xml_sites : list xml_site := [\n" + ";\n".join(sites) + "\n].\n\n"
            "(* runtime (not `if TYPE_CHECKING:`) imports of xml.* modules: (module, imported) *)\n"
            "Definition xml_runtime_imports : list (string * string) := [" + "; ".join(runtime) + "].\n\n"
            "(* parser-like method calls whose receiver could not be resolved *)\n"
            "Definition xml_unresolved : list (string * string) := [" + "; ".join(unresolved) + "].\n\n"
            "Definition xml_modules_scanned : list string := [" + "; ".join(cq(m) for m in mods) + "].\n")
    return {"XmlSites.v": translate.HEADER.format(src="every module under dissect/hypervisor") + pre + body}
