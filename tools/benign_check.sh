#!/bin/bash
# benign_check.sh <patch.diff> <check ids...> : applies a behaviour-preserving patch to a scratch copy of /repo,
# confirms the tests pass, runs the given checks against it; every check must stay quiet (exit 0).
set -u
PATCH=$(readlink -f "$1"); shift
S=/work/benignrun_$$
rm -rf $S; cp -r /repo $S; rm -rf $S/.git/worktrees 2>/dev/null
cd $S
if ! git apply "$PATCH" 2>/tmp/benign_apply_err; then echo "BENIGN $PATCH: does not apply: $(head -1 /tmp/benign_apply_err)"; rm -rf $S; exit 2; fi
TESTS=$(/venv/bin/python -m pytest -q -p no:cacheprovider 2>&1 | tail -1)
echo "BENIGN $PATCH ; tests: $TESTS"
cd ${VERIF_DIR:-/verif}
for C in "$@"; do
  OUT=$(VERIF_REPO=$S timeout 1500 ./check $C 2>&1)
  RC=$?
  echo "   check $C: exit=$RC :: $(echo "$OUT" | grep "^\[$C\]" | tail -1)"
  [ $RC -ne 0 ] && echo "$OUT" | grep "broken\|VIOLATION" | cut -c1-400 | head -5
done
rm -rf $S
# evidence written by a run against a scratch tree is not evidence about /repo: put the committed files back
VD=${VERIF_DIR:-/verif}; [ -d $VD/.git ] && git -C $VD checkout -q -- evidence/ 2>/dev/null
true
