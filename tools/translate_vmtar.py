"""Generate coq/Gen/VmTar.v from dissect/hypervisor/util/vmtar.py (C20).

What is read formally (fail-closed, any other shape raises TranslateError):

* class VisorTarInfo(tarfile.TarInfo)
  - frombuf:  obj = super().frombuf(buf, encoding, errors)
              obj.is_visor = buf[A:B] == b"<magic>"
              if obj.is_visor:  obj.<f> = struct.unpack("<fmt>", buf[a:b])[0]  (one per field)
              else:             obj.<f> = None                                  (same fields)
              return obj
  - _proc_member:  if <cond over self.is_visor / self.offset_data / ...>:
                       tarfile.offset = tarfile.fileobj.tell()
                       self._apply_pax_info(tarfile.pax_headers, tarfile.encoding, tarfile.errors)
                       return self
                   return super()._proc_member(tarfile)
* VisorTarFile / open: forward *args, **kwargs and add tarinfo=VisorTarInfo to tarfile.TarFile / tarfile.open

Generated: the magic and its slice bounds, each field's slice bounds, width, signedness and
endianness, and the skip condition of _proc_member as a Gallina function of the decoded fields.
"""
from __future__ import annotations

import ast
import os
import struct

import translate
from translate import TranslateError

REL = "dissect/hypervisor/util/vmtar.py"

FMT = {"I": (4, False), "i": (4, True), "H": (2, False), "h": (2, True), "Q": (8, False), "q": (8, True),
       "L": (4, False), "l": (4, True), "B": (1, False), "b": (1, True)}


def _err(path, node, msg):
    raise TranslateError(f"{path}:{getattr(node, 'lineno', '?')}: {msg}")


def _is_name(n, ident):
    return isinstance(n, ast.Name) and n.id == ident


def _slice_bounds(path, n, base):
    """buf[A:B] -> (A, B)"""
    if not (isinstance(n, ast.Subscript) and _is_name(n.value, base) and isinstance(n.slice, ast.Slice)
            and n.slice.step is None and isinstance(n.slice.lower, ast.Constant) and isinstance(n.slice.upper, ast.Constant)
            and isinstance(n.slice.lower.value, int) and isinstance(n.slice.upper.value, int)):
        _err(path, n, f"expected {base}[<int>:<int>]")
    return n.slice.lower.value, n.slice.upper.value


def _attr_of(n, obj):
    if isinstance(n, ast.Attribute) and _is_name(n.value, obj):
        return n.attr
    return None


def _strip_doc(body):
    if body and isinstance(body[0], ast.Expr) and isinstance(body[0].value, ast.Constant) and isinstance(body[0].value.value, str):
        return body[1:]
    return body


def _is_super_call(n, meth):
    return (isinstance(n, ast.Call) and isinstance(n.func, ast.Attribute) and n.func.attr == meth
            and isinstance(n.func.value, ast.Call) and _is_name(n.func.value.func, "super") and not n.func.value.args)


def parse_frombuf(path, fn):
    args = [a.arg for a in fn.args.args]
    if args != ["cls", "buf", "encoding", "errors"]:
        _err(path, fn, f"frombuf signature {args}")
    body = _strip_doc(fn.body)
    if len(body) != 4:
        _err(path, fn, f"frombuf: expected 4 statements, found {len(body)}")
    s0, s1, s2, s3 = body
    if not (isinstance(s0, ast.Assign) and len(s0.targets) == 1 and _is_name(s0.targets[0], "obj")
            and _is_super_call(s0.value, "frombuf")
            and [getattr(a, "id", None) for a in s0.value.args] == ["buf", "encoding", "errors"] and not s0.value.keywords):
        _err(path, s0, "frombuf: first statement is not obj = super().frombuf(buf, encoding, errors)")
    if not (isinstance(s1, ast.Assign) and len(s1.targets) == 1 and _attr_of(s1.targets[0], "obj") == "is_visor"
            and isinstance(s1.value, ast.Compare) and len(s1.value.ops) == 1 and isinstance(s1.value.ops[0], ast.Eq)
            and isinstance(s1.value.comparators[0], ast.Constant) and isinstance(s1.value.comparators[0].value, bytes)):
        _err(path, s1, "frombuf: expected obj.is_visor = buf[A:B] == b'...'")
    lo, hi = _slice_bounds(path, s1.value.left, "buf")
    magic = s1.value.comparators[0].value
    if not (isinstance(s2, ast.If) and _attr_of(s2.test, "obj") == "is_visor"):
        _err(path, s2, "frombuf: expected if obj.is_visor:")
    fields = []
    for st in s2.body:
        if not (isinstance(st, ast.Assign) and len(st.targets) == 1 and _attr_of(st.targets[0], "obj")):
            _err(path, st, "frombuf: expected obj.<field> = <integer field of buf>")
        v = st.value
        # struct.unpack('<fmt>', buf[a:b])[0]
        if (isinstance(v, ast.Subscript) and isinstance(v.slice, ast.Constant) and v.slice.value == 0
                and isinstance(v.value, ast.Call) and isinstance(v.value.func, ast.Attribute)
                and _is_name(v.value.func.value, "struct") and v.value.func.attr == "unpack"
                and len(v.value.args) == 2 and not v.value.keywords
                and isinstance(v.value.args[0], ast.Constant) and isinstance(v.value.args[0].value, str)):
            fmt = v.value.args[0].value
            a, b = _slice_bounds(path, v.value.args[1], "buf")
            if len(fmt) != 2 or fmt[0] not in "<>" or fmt[1] not in FMT:
                _err(path, st, f"unsupported struct format {fmt!r}")
            width, signed = FMT[fmt[1]]
            if struct.calcsize(fmt) != width:
                _err(path, st, "format width")
            big = fmt[0] == ">"
        # int.from_bytes(buf[a:b], "little" | "big"[, signed=...]): the same field, spelled without struct
        elif (isinstance(v, ast.Call) and isinstance(v.func, ast.Attribute) and _is_name(v.func.value, "int")
                and v.func.attr == "from_bytes" and 1 <= len(v.args) <= 2):
            a, b = _slice_bounds(path, v.args[0], "buf")
            kw = {k.arg: k.value for k in v.keywords}
            order = v.args[1] if len(v.args) == 2 else kw.get("byteorder")
            if not (isinstance(order, ast.Constant) and order.value in ("little", "big")):
                _err(path, st, "int.from_bytes: byte order is not a literal")
            sg = kw.get("signed")
            if sg is not None and not (isinstance(sg, ast.Constant) and isinstance(sg.value, bool)):
                _err(path, st, "int.from_bytes: signed is not a literal")
            width, signed, big = b - a, bool(sg.value) if sg is not None else False, order.value == "big"
            if width not in (1, 2, 4, 8):
                _err(path, st, f"int.from_bytes over {width} bytes")
        else:
            _err(path, st, "frombuf: expected obj.<field> = struct.unpack('<fmt>', buf[a:b])[0] or int.from_bytes(buf[a:b], order)")
        fields.append((_attr_of(st.targets[0], "obj"), a, b, width, signed, big))
    none_fields = []
    for st in s2.orelse:
        if not (isinstance(st, ast.Assign) and len(st.targets) == 1 and _attr_of(st.targets[0], "obj")
                and isinstance(st.value, ast.Constant) and st.value.value is None):
            _err(path, st, "frombuf: expected obj.<field> = None in the else branch")
        none_fields.append(_attr_of(st.targets[0], "obj"))
    if [f[0] for f in fields] != none_fields:
        _err(path, s2, f"frombuf: field lists differ between branches: {[f[0] for f in fields]} / {none_fields}")
    if not (isinstance(s3, ast.Return) and _is_name(s3.value, "obj")):
        _err(path, s3, "frombuf: expected return obj")
    return magic, lo, hi, fields


BOOL_ATTRS = {"is_visor"}


def cond_to_coq(path, n, int_attrs):
    """Python truth value of a condition over self.<attr> -> Gallina bool term"""
    if isinstance(n, ast.BoolOp):
        parts = [cond_to_coq(path, v, int_attrs) for v in n.values]
        op = " && " if isinstance(n.op, ast.And) else " || "
        return "(" + op.join(parts) + ")"
    if isinstance(n, ast.UnaryOp) and isinstance(n.op, ast.Not):
        return f"(negb {cond_to_coq(path, n.operand, int_attrs)})"
    a = _attr_of(n, "self")
    if a in BOOL_ATTRS:
        return a
    if a in int_attrs:
        return f"(negb ({a} =? 0))"
    if isinstance(n, ast.Compare) and len(n.ops) == 1 and _attr_of(n.left, "self") in int_attrs \
            and isinstance(n.comparators[0], ast.Constant) and isinstance(n.comparators[0].value, int) \
            and not isinstance(n.comparators[0].value, bool):
        ops = {ast.Eq: "({a} =? {c})", ast.NotEq: "(negb ({a} =? {c}))", ast.Gt: "({a} >? {c})", ast.GtE: "({a} >=? {c})",
               ast.Lt: "({a} <? {c})", ast.LtE: "({a} <=? {c})"}
        for k, t in ops.items():
            if isinstance(n.ops[0], k):
                c = n.comparators[0].value
                return t.format(a=_attr_of(n.left, "self"), c=f"({c})" if c < 0 else c)
    if isinstance(n, ast.Compare) and len(n.ops) == 1 and isinstance(n.ops[0], ast.IsNot) and _attr_of(n.left, "self") in int_attrs \
            and isinstance(n.comparators[0], ast.Constant) and n.comparators[0].value is None:
        # a decoded field of a visor member is never None; of a non-visor member always: the caller guards with is_visor
        _err(path, n, "`is not None` tests are not in the supported subset (field presence is is_visor)")
    _err(path, n, f"unsupported condition {ast.dump(n)[:100]}")


def parse_proc_member(path, fn, int_attrs):
    args = [a.arg for a in fn.args.args]
    if args != ["self", "tarfile"]:
        _err(path, fn, f"_proc_member signature {args}")
    body = _strip_doc(fn.body)
    if len(body) != 2 or not isinstance(body[0], ast.If) or body[0].orelse:
        _err(path, fn, "_proc_member: expected `if <cond>: ...` followed by one return")
    iff, ret = body
    cond = cond_to_coq(path, iff.test, int_attrs)
    b = [s for s in iff.body if not (isinstance(s, ast.Expr) and isinstance(s.value, ast.Constant))]
    if len(b) != 3:
        _err(path, iff, f"_proc_member: expected 3 statements in the visor branch, found {len(b)}")
    a0, a1, a2 = b
    ok0 = (isinstance(a0, ast.Assign) and len(a0.targets) == 1 and _attr_of(a0.targets[0], "tarfile") == "offset"
           and isinstance(a0.value, ast.Call) and not a0.value.args and not a0.value.keywords
           and isinstance(a0.value.func, ast.Attribute) and a0.value.func.attr == "tell"
           and _attr_of(a0.value.func.value, "tarfile") == "fileobj")
    if not ok0:
        _err(path, a0, "_proc_member: expected tarfile.offset = tarfile.fileobj.tell()")
    ok1 = (isinstance(a1, ast.Expr) and isinstance(a1.value, ast.Call) and _attr_of(a1.value.func, "self") == "_apply_pax_info"
           and [_attr_of(x, "tarfile") for x in a1.value.args] == ["pax_headers", "encoding", "errors"] and not a1.value.keywords)
    if not ok1:
        _err(path, a1, "_proc_member: expected self._apply_pax_info(tarfile.pax_headers, tarfile.encoding, tarfile.errors)")
    if not (isinstance(a2, ast.Return) and _is_name(a2.value, "self")):
        _err(path, a2, "_proc_member: expected return self")
    if not (isinstance(ret, ast.Return) and _is_super_call(ret.value, "_proc_member")
            and [getattr(x, "id", None) for x in ret.value.args] == ["tarfile"] and not ret.value.keywords):
        _err(path, ret, "_proc_member: expected return super()._proc_member(tarfile)")
    return cond


def parse_factory(path, fn, target):
    """def f(*args, **kwargs): return tarfile.<target>(*args, **kwargs, tarinfo=VisorTarInfo)"""
    a = fn.args
    if a.args or a.kwonlyargs or a.posonlyargs or not a.vararg or not a.kwarg:
        _err(path, fn, f"{fn.name}: expected (*args, **kwargs)")
    body = _strip_doc(fn.body)
    if len(body) != 1 or not isinstance(body[0], ast.Return) or not isinstance(body[0].value, ast.Call):
        _err(path, fn, f"{fn.name}: expected a single return of a call")
    c = body[0].value
    if not (isinstance(c.func, ast.Attribute) and _is_name(c.func.value, "tarfile") and c.func.attr == target):
        _err(path, c, f"{fn.name}: expected tarfile.{target}(...)")
    if not (len(c.args) == 1 and isinstance(c.args[0], ast.Starred) and _is_name(c.args[0].value, a.vararg.arg)):
        _err(path, c, f"{fn.name}: positional arguments are not *args")
    kws = [(k.arg, k.value) for k in c.keywords]
    if len(kws) != 2 or kws[0][0] is not None or not _is_name(kws[0][1], a.kwarg.arg) or kws[1][0] != "tarinfo" \
            or not _is_name(kws[1][1], "VisorTarInfo"):
        _err(path, c, f"{fn.name}: keyword arguments are not (**kwargs, tarinfo=VisorTarInfo)")


@translate.register
def gen_vmtar(repo):
    path, src, tree = translate.load_module(repo, REL)
    cls = [n for n in tree.body if isinstance(n, ast.ClassDef) and n.name == "VisorTarInfo"]
    if len(cls) != 1:
        raise TranslateError(f"{path}: class VisorTarInfo not found")
    cls = cls[0]
    if not (len(cls.bases) == 1 and isinstance(cls.bases[0], ast.Attribute) and _is_name(cls.bases[0].value, "tarfile")
            and cls.bases[0].attr == "TarInfo"):
        _err(path, cls, "VisorTarInfo does not derive from tarfile.TarInfo")
    meths = {n.name: n for n in cls.body if isinstance(n, ast.FunctionDef)}
    other = [n for n in cls.body if not isinstance(n, (ast.FunctionDef, ast.AnnAssign))
             and not (isinstance(n, ast.Expr) and isinstance(n.value, ast.Constant))]
    if other:
        _err(path, other[0], "unexpected statement in class VisorTarInfo")
    if set(meths) != {"frombuf", "_proc_member"}:
        raise TranslateError(f"{path}: VisorTarInfo overrides {sorted(meths)}; the model covers frombuf and _proc_member only")
    if [ast.unparse(d) for d in meths["frombuf"].decorator_list] != ["classmethod"] or meths["_proc_member"].decorator_list:
        _err(path, meths["frombuf"], "decorators")
    magic, lo, hi, fields = parse_frombuf(path, meths["frombuf"])
    int_attrs = {f[0] for f in fields} | {"size"}
    cond = parse_proc_member(path, meths["_proc_member"], int_attrs)
    funs = {n.name: n for n in tree.body if isinstance(n, ast.FunctionDef)}
    if set(funs) != {"VisorTarFile", "open"}:
        raise TranslateError(f"{path}: module functions {sorted(funs)}; expected VisorTarFile and open")
    parse_factory(path, funs["VisorTarFile"], "TarFile")
    parse_factory(path, funs["open"], "open")
    names = [f[0] for f in fields]
    if "offset_data" not in names:
        raise TranslateError(f"{path}: no offset_data field decoded in frombuf")
    out = [translate.HEADER.format(src=REL),
           "From Coq Require Import String ZArith List Bool.\nImport ListNotations.\nOpen Scope Z_scope.\n",
           f"Definition vmtar_magic : list Z := [{'; '.join(str(b) for b in magic)}].",
           f"Definition vmtar_magic_lo : Z := {lo}.",
           f"Definition vmtar_magic_hi : Z := {hi}.",
           "(* field, slice lower, slice upper, width of the struct format, signed, big-endian *)",
           "Definition vmtar_fields : list (string * (Z * Z * Z * bool * bool)) := [" + "; ".join(
               f'("{n}"%string, ({a}, {b}, {w}, {"true" if s else "false"}, {"true" if be else "false"}))'
               for n, a, b, w, s, be in fields) + "]."]
    for n, a, b, w, s, be in fields:
        out.append(f"Definition vmtar_{n}_lo : Z := {a}.")
        out.append(f"Definition vmtar_{n}_hi : Z := {b}.")
        out.append(f"Definition vmtar_{n}_width : Z := {w}.")
        out.append(f"Definition vmtar_{n}_signed : bool := {'true' if s else 'false'}.")
        out.append(f"Definition vmtar_{n}_big : bool := {'true' if be else 'false'}.")
    # the tables of the tarfile module this interpreter runs (an external dependency of vmtar.py): the hand-written
    # model of tarfile is checked against them (Proofs/VmTar.v tarfile_tables)
    import tarfile as _tf
    try:
        tables = {"SUPPORTED_TYPES": _tf.SUPPORTED_TYPES, "REGULAR_TYPES": _tf.REGULAR_TYPES, "GNU_TYPES": _tf.GNU_TYPES}
        pax_types = (_tf.XHDTYPE, _tf.XGLTYPE, _tf.SOLARIS_XHDTYPE)
        scalars = {"BLOCKSIZE": _tf.BLOCKSIZE, "DIRTYPE": _tf.DIRTYPE[0], "AREGTYPE": _tf.AREGTYPE[0],
                   "GNUTYPE_LONGNAME": _tf.GNUTYPE_LONGNAME[0], "GNUTYPE_LONGLINK": _tf.GNUTYPE_LONGLINK[0],
                   "GNUTYPE_SPARSE": _tf.GNUTYPE_SPARSE[0], "LNKTYPE": _tf.LNKTYPE[0], "SYMTYPE": _tf.SYMTYPE[0]}
    except AttributeError as e:
        raise TranslateError(f"tarfile module lacks an expected table: {e}")
    for k, v in tables.items():
        if not all(isinstance(t, bytes) and len(t) == 1 for t in v):
            raise TranslateError(f"tarfile.{k} is not a tuple of one-byte type flags")
        out.append(f"Definition tarfile_{k} : list Z := [{'; '.join(str(t[0]) for t in v)}].")
    out.append(f"Definition tarfile_PAX_TYPES : list Z := [{'; '.join(str(t[0]) for t in pax_types)}].")
    for k, v in scalars.items():
        out.append(f"Definition tarfile_{k} : Z := {v}.")
    params = " ".join(["(is_visor : bool)"] + [f"({n} : Z)" for n in sorted(int_attrs)])
    out.append("(* VisorTarInfo._proc_member: when true the next header follows this one immediately and the\n"
               "   decoded offset_data is kept; otherwise tarfile.TarInfo._proc_member runs *)")
    out.append(f"Definition vmtar_skip_cond {params} : bool := {cond}.")
    return {"VmTar.v": "\n".join(out) + "\n"}
