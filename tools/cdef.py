"""A small, fail-closed reader for the cstruct definition language as used in
/repo's c_*.py files.  Anything it does not understand raises CdefError with
the offending text: the translator then refuses the source (tie broken)."""
from __future__ import annotations

import ast
import re


class CdefError(Exception):
    pass


BASE_TYPES = {
    "uint8": (1, "uint"), "uint16": (2, "uint"), "uint32": (4, "uint"), "uint64": (8, "uint"),
    "int8": (1, "int"), "int16": (2, "int"), "int32": (4, "int"), "int64": (8, "int"),
    "uint8_t": (1, "uint"), "uint16_t": (2, "uint"), "uint32_t": (4, "uint"), "uint64_t": (8, "uint"),
    "int8_t": (1, "int"), "int16_t": (2, "int"), "int32_t": (4, "int"), "int64_t": (8, "int"),
    "char": (1, "char"), "float": (4, "float"), "double": (8, "float"),
}


def strip_comments(text: str) -> str:
    text = re.sub(r"/\*.*?\*/", " ", text, flags=re.S)
    text = re.sub(r"//[^\n]*", " ", text)
    return text


def eval_int(expr: str, env: dict):
    """Evaluate a #define right-hand side: integers, names, + - * << >> | & ~ and parentheses,
    char literals and byte-string literals."""
    expr = expr.strip()
    try:
        node = ast.parse(expr, mode="eval").body
    except SyntaxError as e:
        raise CdefError(f"cannot parse define value {expr!r}: {e}")

    def ev(n):
        if isinstance(n, ast.Constant):
            if isinstance(n.value, bool):
                raise CdefError(f"bool in define {expr!r}")
            if isinstance(n.value, int):
                return n.value
            if isinstance(n.value, bytes):
                return n.value
            if isinstance(n.value, str):
                if len(n.value) == 1:
                    return ord(n.value)
                raise CdefError(f"string in define {expr!r}")
        if isinstance(n, ast.Name):
            if n.id in env:
                return env[n.id]
            raise CdefError(f"unknown name {n.id} in define {expr!r}")
        if isinstance(n, ast.BinOp):
            a, b = ev(n.left), ev(n.right)
            if not (isinstance(a, int) and isinstance(b, int)):
                raise CdefError(f"non-integer operand in {expr!r}")
            ops = {ast.Add: lambda: a + b, ast.Sub: lambda: a - b, ast.Mult: lambda: a * b,
                   ast.LShift: lambda: a << b, ast.RShift: lambda: a >> b,
                   ast.BitOr: lambda: a | b, ast.BitAnd: lambda: a & b, ast.BitXor: lambda: a ^ b,
                   ast.FloorDiv: lambda: a // b, ast.Mod: lambda: a % b}
            for k, f in ops.items():
                if isinstance(n.op, k):
                    return f()
            raise CdefError(f"operator in {expr!r}")
        if isinstance(n, ast.UnaryOp):
            v = ev(n.operand)
            if isinstance(n.op, ast.USub):
                return -v
            if isinstance(n.op, ast.Invert):
                return ~v
            if isinstance(n.op, ast.UAdd):
                return v
        raise CdefError(f"unsupported construct in define {expr!r}")

    return ev(node)


class Struct:
    def __init__(self, name):
        self.name = name
        self.fields = []      # dicts: name, off, size, kind, bitoff, bitw, count, elem, sub
        self.size = 0         # -1 when dynamic


def parse(text: str):
    """Return dict(defines=ordered dict, structs=ordered dict name->Struct, enums=name->(base,[(member,value)]),
    typedefs=name->base)."""
    text = strip_comments(text)
    defines: dict = {}
    structs: dict = {}
    enums: dict = {}
    typedefs: dict = {}

    # defines first (line based)
    rest_lines = []
    lines = text.split("\n")
    idx = 0
    while idx < len(lines):
        line = lines[idx]
        idx += 1
        s = line.strip(" \t")
        if s.startswith("#define") and s.endswith("'") and s.count("'") == 1 and idx < len(lines) \
                and lines[idx].strip(" \t").startswith("'"):
            # a char literal holding a real newline (the cdef text is not a raw string)
            s = s + "\n" + lines[idx].strip(" \t")
            idx += 1
        if s.startswith("#define"):
            cm = re.match(r"#define\s+(\w+)\s+'([\s\S])'\s*$", s)
            if cm:
                defines[cm.group(1)] = ord(cm.group(2))
                continue
            m = re.match(r"#define\s+(\w+)\s+(.+)$", s)
            if not m:
                raise CdefError(f"bad define line {s!r}")
            defines[m.group(1)] = eval_int(m.group(2), defines)
        elif s.startswith("#"):
            raise CdefError(f"unsupported preprocessor line {s!r}")
        else:
            rest_lines.append(line)
    body = "\n".join(rest_lines)

    pos = 0
    n = len(body)

    def skip_ws(p):
        while p < n and body[p].isspace():
            p += 1
        return p

    def match_brace(p):
        assert body[p] == "{"
        depth = 0
        q = p
        while q < n:
            if body[q] == "{":
                depth += 1
            elif body[q] == "}":
                depth -= 1
                if depth == 0:
                    return q
            q += 1
        raise CdefError("unbalanced braces")

    def type_info(t):
        if t in BASE_TYPES:
            return BASE_TYPES[t] + (None,)
        if t in typedefs:
            return type_info(typedefs[t])
        if t in enums:
            size, _ = BASE_TYPES[enums[t][0]]
            return (size, "enum", t)
        if t in structs:
            return (structs[t].size, "struct", t)
        raise CdefError(f"unknown type {t!r}")

    def parse_fields(src, st: Struct, base_off: int, union: bool):
        """Parse the field list in src into st.fields starting at base_off; return the extent in bytes."""
        p = 0
        m = len(src)
        off = base_off
        extent = 0
        bit_type = None
        bit_used = 0
        bit_start = 0
        while True:
            while p < m and src[p].isspace():
                p += 1
            if p >= m:
                break
            mm = re.match(r"(union|struct)\s*\{", src[p:])
            if mm:
                q = p + mm.end() - 1
                depth = 0
                e = q
                while e < m:
                    if src[e] == "{":
                        depth += 1
                    elif src[e] == "}":
                        depth -= 1
                        if depth == 0:
                            break
                    e += 1
                inner = src[q + 1:e]
                tail = re.match(r"\s*;", src[e + 1:])
                if not tail:
                    raise CdefError(f"named nested aggregate not supported near {src[p:p+40]!r}")
                sz = parse_fields(inner, st, off, mm.group(1) == "union")
                p = e + 1 + tail.end()
                bit_type = None
                if union:
                    extent = max(extent, sz)
                else:
                    off += sz
                    extent = off - base_off
                continue
            semi = src.find(";", p)
            if semi < 0:
                raise CdefError(f"missing ';' near {src[p:p+40]!r}")
            decl = " ".join(src[p:semi].split())
            p = semi + 1
            mm = re.match(r"^(\w+)\s+(\w+)\s*(?:\[(.*)\])?\s*(?::\s*(\d+))?$", decl)
            if not mm:
                raise CdefError(f"cannot parse field {decl!r} in {st.name}")
            tname, fname, arr, bits = mm.groups()
            size, kind, sub = type_info(tname)
            f = dict(name=fname, kind=kind, sub=sub or "", elem=size, count=1, bitoff=0, bitw=0)
            if bits is not None:
                bits = int(bits)
                if arr is not None:
                    raise CdefError(f"bit-field array {decl!r}")
                if bit_type != tname or bit_used + bits > size * 8:
                    # start a new storage unit
                    if bit_type is not None and not union:
                        pass
                    bit_type = tname
                    bit_used = 0
                    bit_start = off
                    if not union:
                        off += size
                f.update(off=bit_start, size=size, bitoff=bit_used, bitw=bits)
                bit_used += bits
                st.fields.append(f)
                extent = max(extent, off - base_off) if not union else max(extent, size)
                continue
            bit_type = None
            if arr is not None:
                arr = arr.strip()
                try:
                    cnt = eval_int(arr, defines)
                    if not isinstance(cnt, int):
                        raise CdefError("array size")
                    f.update(count=cnt, size=size * cnt)
                except CdefError:
                    if not re.match(r"^\w+$", arr):
                        raise
                    f.update(count=-1, size=-1, dyn=arr)
            else:
                f.update(size=size)
            f["off"] = off
            st.fields.append(f)
            if f["size"] < 0:
                st.size = -1
                extent = -1
                break
            if union:
                extent = max(extent, f["size"])
            else:
                off += f["size"]
                extent = off - base_off
        return extent

    while True:
        pos = skip_ws(pos)
        if pos >= n:
            break
        m = re.match(r"typedef\s+struct\s*(\w+)?\s*\{", body[pos:])
        if m:
            b = pos + m.end() - 1
            e = match_brace(b)
            tail = re.match(r"\s*(\w+)\s*;", body[e + 1:])
            if not tail:
                raise CdefError(f"typedef struct without name near {body[pos:pos+40]!r}")
            st = Struct(tail.group(1))
            ext = parse_fields(body[b + 1:e], st, 0, False)
            st.size = ext
            structs[st.name] = st
            pos = e + 1 + tail.end()
            continue
        m = re.match(r"struct\s+(\w+)\s*\{", body[pos:])
        if m:
            b = pos + m.end() - 1
            e = match_brace(b)
            tail = re.match(r"\s*;", body[e + 1:])
            if not tail:
                raise CdefError(f"struct without ';' near {body[pos:pos+40]!r}")
            st = Struct(m.group(1))
            ext = parse_fields(body[b + 1:e], st, 0, False)
            st.size = ext
            structs[st.name] = st
            pos = e + 1 + tail.end()
            continue
        m = re.match(r"(enum|flag)\s+(\w+)\s*(?::\s*(\w+))?\s*\{", body[pos:])
        if m:
            b = pos + m.end() - 1
            e = match_brace(b)
            tail = re.match(r"\s*;", body[e + 1:])
            if not tail:
                raise CdefError("enum without ';'")
            members = []
            nxt = 0
            for item in body[b + 1:e].split(","):
                item = item.strip()
                if not item:
                    continue
                if "=" in item:
                    k, v = item.split("=", 1)
                    val = eval_int(v, defines)
                    members.append((k.strip(), val))
                    nxt = val + 1
                else:
                    if not re.match(r"^\w+$", item):
                        raise CdefError(f"bad enum member {item!r}")
                    members.append((item, nxt))
                    nxt += 1
            enums[m.group(2)] = (m.group(3) or "uint32", members, m.group(1))
            pos = e + 1 + tail.end()
            continue
        m = re.match(r"typedef\s+(\w+)\s+(\w+)\s*;", body[pos:])
        if m:
            if m.group(1) not in BASE_TYPES and m.group(1) not in typedefs:
                raise CdefError(f"typedef of unknown type {m.group(1)}")
            typedefs[m.group(2)] = m.group(1)
            pos += m.end()
            continue
        raise CdefError(f"unsupported cdef construct near {body[pos:pos+60]!r}")

    return dict(defines=defines, structs=structs, enums=enums, typedefs=typedefs)
