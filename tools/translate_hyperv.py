"""Generator for coq/Gen/HyperVLits.v: the literals hyperv.py uses that are NOT in the cdef
(c_hyperv.py is covered by Gen/Consts.v, Gen/Layouts.v, Gen/Enums.v).

Extracted, fail-closed (any other shape raises TranslateError):
  HyperVFile.__init__            `if self.header.version != <int>: raise`          -> supported_version
  HyperVStorageKeyTableEntry
    .flags                       `return (self.header.type & <int>) >> <int>`      -> flags_mask, flags_shift
    .type                        `return KeyDataType(self.header.type & <int>)`    -> type_mask
    .file_object_pointer         `size, offset = struct.unpack("<IQ", data[:12])`  -> fop_widths (size first)
                                 `return offset, size`
    .value                       `if self.type == KeyDataType.X: return struct.unpack(F, data[:N])[0]`
                                 `if self.type in (KeyDataType.String, KeyDataType.Array): ... "<I" ... [4 : 4 + n]`
                                 `if self.type == KeyDataType.Bool: return struct.unpack(F, data[:N])[0] != 0`
                                                                                   -> value_formats, blob_types, len_width
    .key                         `self.raw.tobytes()[: self.header.data_offset - 1].decode("utf-8")` -> key_terminator
  HyperVFile.__init__ linking    `if entry.type == KeyDataType.Free: continue`     -> skipped_type
  HyperVStorageKeyTableEntry.as_dict   `child.as_dict() if child.type == KeyDataType.Node else child.value` -> node_type
"""
from __future__ import annotations

import ast
import os
import struct

import translate
from translate import TranslateError

PATH = "dissect/hypervisor/descriptor/hyperv.py"


def _eval_u16(expr, t, lineno, what):
    """evaluate an integer expression over self.header.type = t (no names, no calls)"""
    def ev(n):
        if isinstance(n, ast.Constant) and isinstance(n.value, int) and not isinstance(n.value, bool):
            return n.value
        if _is_attr_chain(n, ["self", "header", "type"]):
            return t
        if isinstance(n, ast.BinOp):
            a, b = ev(n.left), ev(n.right)
            ops = {ast.BitAnd: lambda: a & b, ast.BitOr: lambda: a | b, ast.BitXor: lambda: a ^ b, ast.Add: lambda: a + b,
                   ast.Sub: lambda: a - b, ast.Mult: lambda: a * b}
            for k, fn in ops.items():
                if isinstance(n.op, k):
                    return fn()
            if isinstance(n.op, ast.RShift) and 0 <= b < 64:
                return a >> b
            if isinstance(n.op, ast.LShift) and 0 <= b < 64:
                return a << b
            if isinstance(n.op, ast.FloorDiv) and b > 0:
                return a // b
            if isinstance(n.op, ast.Mod) and b > 0:
                return a % b
        if isinstance(n, ast.UnaryOp) and isinstance(n.op, (ast.Invert, ast.USub)):
            return ~ev(n.operand) if isinstance(n.op, ast.Invert) else -ev(n.operand)
        raise TranslateError(f"{PATH}:{lineno}: {what}: unsupported expression over self.header.type: {ast.unparse(expr)}")
    return ev(expr)


def _mask_shift(expr, lineno, what):
    vals = [_eval_u16(expr, t, lineno, what) for t in range(1 << 16)]
    for shift in range(16):
        mask = 0
        for bit in range(shift, 16):
            if vals[1 << bit] != 0:
                mask |= 1 << bit
        if mask and all(vals[t] == (t & mask) >> shift for t in range(1 << 16)):
            return mask, shift
    raise TranslateError(f"{PATH}:{lineno}: {what} is not equal to `(self.header.type & M) >> S` on all uint16 values")


def _find_class(tree, name):
    for n in tree.body:
        if isinstance(n, ast.ClassDef) and n.name == name:
            return n
    raise TranslateError(f"{PATH}: class {name} not found")


def _find_fn(cls, name):
    for n in cls.body:
        if isinstance(n, ast.FunctionDef) and n.name == name:
            return n
    raise TranslateError(f"{PATH}: {cls.name}.{name} not found")


def _int(node, what):
    if isinstance(node, ast.Constant) and isinstance(node.value, int) and not isinstance(node.value, bool):
        return node.value
    raise TranslateError(f"{PATH}:{getattr(node, 'lineno', '?')}: expected an integer literal for {what}")


def _is_attr_chain(node, chain):
    """self.header.type -> ['self', 'header', 'type']"""
    parts = []
    while isinstance(node, ast.Attribute):
        parts.append(node.attr)
        node = node.value
    if isinstance(node, ast.Name):
        parts.append(node.id)
    return list(reversed(parts)) == chain


def _enum_member(node, enum):
    if isinstance(node, ast.Attribute) and isinstance(node.value, ast.Name) and node.value.id == enum:
        return node.attr
    return None


def _unpack_call(node):
    """struct.unpack(FMT, X[:N]) -> (FMT, N) ; else None"""
    if (isinstance(node, ast.Call) and isinstance(node.func, ast.Attribute) and node.func.attr == "unpack"
            and isinstance(node.func.value, ast.Name) and node.func.value.id == "struct" and len(node.args) == 2
            and isinstance(node.args[0], ast.Constant) and isinstance(node.args[0].value, str)):
        fmt = node.args[0].value
        sl = node.args[1]
        n = None
        if isinstance(sl, ast.Subscript) and isinstance(sl.slice, ast.Slice) and sl.slice.lower is None \
                and sl.slice.step is None and isinstance(sl.slice.upper, ast.Constant):
            n = sl.slice.upper.value
        return fmt, n
    return None


@translate.register
def gen(repo):
    src_path = os.path.join(repo, PATH)
    try:
        src = open(src_path).read()
        tree = ast.parse(src)
    except (OSError, SyntaxError) as e:
        raise TranslateError(f"{PATH}: {e}")
    enums = translate_enum_values(repo)
    out = {}

    # --- HyperVFile.__init__: version gate, Free skipped
    init = _find_fn(_find_class(tree, "HyperVFile"), "__init__")
    versions = []
    skipped = []
    for n in ast.walk(init):
        if isinstance(n, ast.If) and isinstance(n.test, ast.Compare) and len(n.test.ops) == 1:
            t = n.test
            if _is_attr_chain(t.left, ["self", "header", "version"]):
                if not isinstance(t.ops[0], ast.NotEq) or not any(isinstance(b, ast.Raise) for b in n.body):
                    raise TranslateError(f"{PATH}:{n.lineno}: version gate is not `!= <int>: raise`")
                versions.append(_int(t.comparators[0], "supported version"))
            if _is_attr_chain(t.left, ["entry", "type"]) and _enum_member(t.comparators[0], "KeyDataType"):
                if not isinstance(t.ops[0], ast.Eq) or not (len(n.body) == 1 and isinstance(n.body[0], ast.Continue)):
                    raise TranslateError(f"{PATH}:{n.lineno}: unexpected KeyDataType test in the linking loop")
                skipped.append(_enum_member(t.comparators[0], "KeyDataType"))
    if len(versions) != 1:
        raise TranslateError(f"{PATH}: expected exactly one version gate, found {versions}")
    if skipped != ["Free"]:
        raise TranslateError(f"{PATH}: linking loop must skip exactly KeyDataType.Free, found {skipped}")
    out["supported_version"] = versions[0]
    out["skipped_type"] = enums["KeyDataType"]["Free"]

    ent = _find_class(tree, "HyperVStorageKeyTableEntry")

    # --- flags: any arithmetic over self.header.type (a uint16) that equals (type & M) >> S on all 65536 values;
    #     `(t & 0xFF00) >> 8` and `(t >> 8) & 0xFF` translate to the same (M, S)
    f = _find_fn(ent, "flags")
    ret = [s for s in f.body if isinstance(s, ast.Return)]
    if len(ret) != 1:
        raise TranslateError(f"{PATH}:{f.lineno}: flags has {len(ret)} return statements")
    out["flags_mask"], out["flags_shift"] = _mask_shift(ret[0].value, f.lineno, "flags")

    # --- type
    f = _find_fn(ent, "type")
    ret = [s for s in f.body if isinstance(s, ast.Return)]
    ok = (len(ret) == 1 and isinstance(ret[0].value, ast.Call) and isinstance(ret[0].value.func, ast.Name)
          and ret[0].value.func.id == "KeyDataType" and len(ret[0].value.args) == 1
          and isinstance(ret[0].value.args[0], ast.BinOp) and isinstance(ret[0].value.args[0].op, ast.BitAnd)
          and _is_attr_chain(ret[0].value.args[0].left, ["self", "header", "type"]))
    if not ok:
        raise TranslateError(f"{PATH}:{f.lineno}: type is not `KeyDataType(self.header.type & M)`")
    out["type_mask"] = _int(ret[0].value.args[0].right, "type mask")

    # --- is_file_object_pointer: bool(KeyDataFlag(self.flags) & KeyDataFlag.FileObjectPointer)
    f = _find_fn(ent, "is_file_object_pointer")
    members = [_enum_member(n, "KeyDataFlag") for n in ast.walk(f) if _enum_member(n, "KeyDataFlag")]
    if members != ["FileObjectPointer"]:
        raise TranslateError(f"{PATH}:{f.lineno}: is_file_object_pointer tests {members}")

    # --- file_object_pointer
    f = _find_fn(ent, "file_object_pointer")
    fop = None
    order = None
    for s in f.body:
        if isinstance(s, ast.Assign) and _unpack_call(s.value):
            fmt, n = _unpack_call(s.value)
            tgt = s.targets[0]
            if not (isinstance(tgt, ast.Tuple) and all(isinstance(e, ast.Name) for e in tgt.elts)):
                raise TranslateError(f"{PATH}:{s.lineno}: unexpected unpack target")
            fop = (fmt, n, [e.id for e in tgt.elts])
        if isinstance(s, ast.Return):
            if not (isinstance(s.value, ast.Tuple) and all(isinstance(e, ast.Name) for e in s.value.elts)):
                raise TranslateError(f"{PATH}:{s.lineno}: unexpected return of file_object_pointer")
            order = [e.id for e in s.value.elts]
    if fop is None or order != ["offset", "size"] or sorted(fop[2]) != ["offset", "size"]:
        raise TranslateError(f"{PATH}:{f.lineno}: file_object_pointer has an unexpected shape")
    fmt, n, names = fop
    if not fmt.startswith("<") or any(c not in "BHIQ" for c in fmt[1:]) or struct.calcsize(fmt) != n:
        raise TranslateError(f"{PATH}:{f.lineno}: unsupported pointer format {fmt!r} / slice {n}")
    widths = [struct.calcsize("<" + c) for c in fmt[1:]]
    out["fop_widths"] = widths
    out["fop_size_first"] = names[0] == "size"

    # --- value
    f = _find_fn(ent, "value")
    formats = []        # (type value, char code, width, post)
    blob = None
    for s in f.body:
        if not isinstance(s, ast.If):
            continue
        t = s.test
        if isinstance(t, ast.Compare) and _is_attr_chain(t.left, ["self", "type"]) and len(t.ops) == 1:
            if isinstance(t.ops[0], ast.Eq):
                name = _enum_member(t.comparators[0], "KeyDataType")
                if name is None or len(s.body) != 1 or not isinstance(s.body[0], ast.Return):
                    raise TranslateError(f"{PATH}:{s.lineno}: unexpected branch in value")
                v = s.body[0].value
                post = "id"
                if isinstance(v, ast.Compare) and len(v.ops) == 1 and isinstance(v.ops[0], ast.NotEq) \
                        and _int(v.comparators[0], "bool comparand") == 0:
                    post = "ne0"
                    v = v.left
                if not (isinstance(v, ast.Subscript) and isinstance(v.slice, ast.Constant) and v.slice.value == 0
                        and _unpack_call(v.value)):
                    raise TranslateError(f"{PATH}:{s.lineno}: value branch is not struct.unpack(...)[0]")
                fmt, n = _unpack_call(v.value)
                if len(fmt) != 2 or fmt[0] != "<" or fmt[1] not in "qQdI" or struct.calcsize(fmt) != n:
                    raise TranslateError(f"{PATH}:{s.lineno}: unsupported value format {fmt!r} / slice {n}")
                formats.append((enums["KeyDataType"][name], ord(fmt[1]), n, post))
            elif isinstance(t.ops[0], ast.In):
                tup = t.comparators[0]
                if not isinstance(tup, ast.Tuple):
                    raise TranslateError(f"{PATH}:{s.lineno}: unexpected membership test in value")
                names = [_enum_member(e, "KeyDataType") for e in tup.elts]
                if names != ["String", "Array"]:
                    raise TranslateError(f"{PATH}:{s.lineno}: blob types are {names}")
                lens = [_unpack_call(n) for n in ast.walk(s) if _unpack_call(n)]
                if lens != [("<I", 4)]:
                    raise TranslateError(f"{PATH}:{s.lineno}: length prefix is {lens}")
                decs = [n.args[0].value for n in ast.walk(s)
                        if isinstance(n, ast.Call) and isinstance(n.func, ast.Attribute) and n.func.attr == "decode"
                        and n.args and isinstance(n.args[0], ast.Constant)]
                if decs != ["utf-16-le"]:
                    raise TranslateError(f"{PATH}:{s.lineno}: string codec is {decs}")
                blob = [enums["KeyDataType"][x] for x in names]
            else:
                raise TranslateError(f"{PATH}:{s.lineno}: unexpected comparison in value")
    if blob is None or sorted(x[0] for x in formats) != sorted(
            enums["KeyDataType"][k] for k in ("Int", "UInt", "Double", "Bool")):
        raise TranslateError(f"{PATH}: value covers an unexpected set of types")
    for tv, ch, n, post in formats:
        if (post == "ne0") != (tv == enums["KeyDataType"]["Bool"]):
            raise TranslateError(f"{PATH}: `!= 0` post-processing on an unexpected type")
    out["value_formats"] = [(tv, ch, n) for tv, ch, n, _ in formats]
    out["blob_types"] = blob
    out["len_width"] = 4

    # --- key
    f = _find_fn(ent, "key")
    decs = [n for n in ast.walk(f) if isinstance(n, ast.Call) and isinstance(n.func, ast.Attribute)
            and n.func.attr == "decode"]
    subs = [n for n in ast.walk(f) if isinstance(n, ast.Subscript) and isinstance(n.slice, ast.Slice)]
    ok = (len(decs) == 1 and decs[0].args and isinstance(decs[0].args[0], ast.Constant)
          and decs[0].args[0].value == "utf-8" and len(subs) == 1 and subs[0].slice.lower is None
          and isinstance(subs[0].slice.upper, ast.BinOp) and isinstance(subs[0].slice.upper.op, ast.Sub)
          and _is_attr_chain(subs[0].slice.upper.left, ["self", "header", "data_offset"]))
    if not ok:
        raise TranslateError(f"{PATH}:{f.lineno}: key is not raw[: data_offset - K].decode('utf-8')")
    out["key_terminator"] = _int(subs[0].slice.upper.right, "key terminator length")

    # --- as_dict: the type dumped recursively
    f = _find_fn(ent, "as_dict")
    members = sorted({_enum_member(n, "KeyDataType") for n in ast.walk(f) if _enum_member(n, "KeyDataType")})
    if members != ["Node"]:
        raise TranslateError(f"{PATH}:{f.lineno}: as_dict tests {members}")
    out["node_type"] = enums["KeyDataType"]["Node"]

    z = translate.zlit
    lines = [translate.HEADER.format(src=PATH + " (literals outside the cdef)"),
             "From Coq Require Import ZArith List.", "Import ListNotations.", "Open Scope Z_scope.", ""]
    lines.append(f"Definition supported_version : Z := {z(out['supported_version'])}.")
    lines.append(f"Definition flags_mask : Z := {z(out['flags_mask'])}.")
    lines.append(f"Definition flags_shift : Z := {z(out['flags_shift'])}.")
    lines.append(f"Definition type_mask : Z := {z(out['type_mask'])}.")
    lines.append("(* struct.unpack format of a file-object pointer, field widths in order *)")
    lines.append("Definition fop_widths : list Z := [" + "; ".join(z(w) for w in out["fop_widths"]) + "].")
    lines.append(f"Definition fop_size_first : bool := {'true' if out['fop_size_first'] else 'false'}.")
    lines.append("(* KeyDataType value -> (struct format character, bytes) of the scalar value types *)")
    lines.append("Definition value_formats : list (Z * (Z * Z)) := [" +
                 "; ".join(f"({z(t)}, ({z(c)}, {z(n)}))" for t, c, n in out["value_formats"]) + "].")
    lines.append("Definition fmt_q : Z := 113.  Definition fmt_Q : Z := 81.  Definition fmt_d : Z := 100.  "
                 "Definition fmt_I : Z := 73.")
    lines.append("Definition blob_types : list Z := [" + "; ".join(z(t) for t in out["blob_types"]) + "].")
    lines.append(f"Definition len_width : Z := {z(out['len_width'])}.")
    lines.append(f"Definition key_terminator : Z := {z(out['key_terminator'])}.")
    lines.append(f"Definition skipped_type : Z := {z(out['skipped_type'])}.")
    lines.append(f"Definition node_type : Z := {z(out['node_type'])}.")
    return {"HyperVLits.v": "\n".join(lines) + "\n"}


def translate_enum_values(repo):
    """enum name -> member -> value, from the cdef of c_hyperv.py (through the shared cdef reader)."""
    import cdef
    path = os.path.join(repo, "dissect/hypervisor/descriptor/c_hyperv.py")
    try:
        tree = ast.parse(open(path).read())
    except (OSError, SyntaxError) as e:
        raise TranslateError(f"c_hyperv.py: {e}")
    text = None
    for n in tree.body:
        if isinstance(n, ast.Assign) and isinstance(n.value, ast.Constant) and isinstance(n.value.value, str) \
                and any(isinstance(t, ast.Name) and t.id == "hyperv_def" for t in n.targets):
            text = n.value.value
    if text is None:
        raise TranslateError("c_hyperv.py: hyperv_def not found")
    return _enums_from_cdef(cdef, text)


def _enums_from_cdef(cdef, text):
    import re
    out = {}
    for m in re.finditer(r"\b(enum|flag)\s+(\w+)\s*:\s*\w+\s*\{(.*?)\}", text, flags=re.S):
        body = re.sub(r"//[^\n]*", "", m.group(3))
        members = {}
        nxt = 0
        for item in body.split(","):
            item = item.strip()
            if not item:
                continue
            if "=" in item:
                k, v = [x.strip() for x in item.split("=", 1)]
                try:
                    val = int(v, 0)
                except ValueError:
                    raise TranslateError(f"c_hyperv.py: enum {m.group(2)}.{k}: unsupported value {v!r}")
            else:
                k, val = item, nxt
            members[k] = val
            nxt = val + 1
        out[m.group(2)] = members
    for need in ("KeyDataType", "KeyDataFlag", "ObjectEntryType"):
        if need not in out:
            raise TranslateError(f"c_hyperv.py: enum {need} not found")
    return out
