#!/usr/bin/env python3
"""save_corpus.py <replay.json> <name> — keep a (minimised) failing case as a corpus case that every run replays first."""
import json, os, sys
j = json.load(open(sys.argv[1]))
d = os.path.join(os.path.dirname(os.path.dirname(os.path.abspath(__file__))), "corpus", j["property"])
os.makedirs(d, exist_ok=True)
out = {"suite": j["suite"], "case": j["case"], "note": sys.argv[3] if len(sys.argv) > 3 else "",
       "original_findings": j.get("findings", [])[:3]}
json.dump(out, open(os.path.join(d, sys.argv[2] + ".json"), "w"), indent=1, sort_keys=True)
print("saved", os.path.join(d, sys.argv[2] + ".json"))
