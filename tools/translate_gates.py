"""Gen/Gates.v — inventory of every `raise` reachable in the validating constructors, with the
path condition (source text, normalised by ast.unparse) under which it is raised.

A gate that is deleted, widened, reordered or whose literal changes alters the generated list and the
pinning lemma in Proofs/Gates.v no longer checks (tie broken); the check then searches the mutant stream
for an input that is now wrongly accepted.  Conditions are printed in a canonical form (see Canon below) so
that renaming a local, flipping a comparison or turning an else into an early exit prints the same text."""
from __future__ import annotations

import ast

import translate
from translate import TranslateError, coq_string, load_module

TARGETS = [
    ("dissect/hypervisor/disk/qcow2.py", "qcow2", ["QCow2.__init__"]),
    ("dissect/hypervisor/disk/vhdx.py", "vhdx", ["VHDX.__init__", "RegionTable.__init__", "RegionTable.get",
                                                "MetadataTable.__init__", "MetadataTable.get"]),
    ("dissect/hypervisor/disk/vdi.py", "vdi", ["VDI.__init__"]),
    ("dissect/hypervisor/disk/hdd.py", "hdd", ["HDS.__init__", "HDD.__init__", "HDD.open", "XMLEntry.from_xml"]),
    ("dissect/hypervisor/disk/vmdk.py", "vmdk", ["SparseExtentHeader.__init__"]),
    ("dissect/hypervisor/descriptor/hyperv.py", "hyperv", ["HyperVFile.__init__", "HyperVStorageReplayLog.__init__",
                                                           "HyperVStorageObjectTable.__init__",
                                                           "HyperVStorageKeyTable.__init__"]),
    ("dissect/hypervisor/util/envelope.py", "envelope", ["Envelope.__init__", "KeyStore.__init__"]),
    ("dissect/hypervisor/descriptor/vmx.py", "vmx", ["KeySafe.from_text", "_parse_key_locator"]),
]


def find_func(tree, qual, path):
    parts = qual.split(".")
    body = tree.body
    node = None
    for i, p in enumerate(parts):
        node = None
        for n in body:
            if isinstance(n, (ast.ClassDef, ast.FunctionDef)) and n.name == p:
                node = n
                break
        if node is None:
            raise TranslateError(f"{path}: {qual} not found")
        body = node.body
    if not isinstance(node, ast.FunctionDef):
        raise TranslateError(f"{path}: {qual} is not a function")
    return node


def exc_name(r: ast.Raise, path):
    e = r.exc
    if e is None:
        return "reraise"
    if isinstance(e, ast.Call):
        e = e.func
    if isinstance(e, ast.Name):
        return e.id
    if isinstance(e, ast.Attribute):
        return e.attr
    raise TranslateError(f"{path}:{r.lineno}: unsupported raise expression")


# ---------------------------------------------------------------------------------------------------------------
# Canonical form of a gate condition.  The inventory is compared literally with the one pinned in Proofs/Gates.v, so
# rewrites that cannot change which inputs are refused must print the same text:
#   * local variables (assigned names, loop targets; not parameters) are numbered in order of first appearance ($1, $2 ..),
#     so renaming a local does not matter; attributes of self and module-level names stay as written;
#   * `not (a OP b)` is printed with the flipped operator; `x < lo or x > hi` and `not lo <= x <= hi` both print as
#     outside(x, lo, hi); `a == b or a == c` prints as `a in (b, c)`, `a != b and a != c` as `a not in (b, c)`;
#     list / set displays on the right of `in` print as tuples;
#   * a loop over a literal tuple keeps its elements (they are part of the gate), any other loop prints as `loop`;
#   * an `if` whose body always leaves the function (raise / return) lets the following statements fall through
#     without recording its negation, so `if a: raise X` + `if b: raise Y` and `if a: raise X elif b: raise Y` agree.
FLIP = {ast.Eq: ast.NotEq, ast.NotEq: ast.Eq, ast.Lt: ast.GtE, ast.GtE: ast.Lt, ast.Gt: ast.LtE, ast.LtE: ast.Gt,
        ast.In: ast.NotIn, ast.NotIn: ast.In, ast.Is: ast.IsNot, ast.IsNot: ast.Is}


def local_names(fn):
    # parameters are part of the public signature (keyword arguments): they keep their names
    params = {a.arg for a in fn.args.posonlyargs + fn.args.args + fn.args.kwonlyargs}
    names = set()
    for n in ast.walk(fn):
        if isinstance(n, ast.Name) and isinstance(n.ctx, ast.Store) and n.id not in params:
            names.add(n.id)
    return names


class Canon(ast.NodeTransformer):
    def __init__(self, locals_, numbering):
        self.locals = locals_
        self.numbering = numbering

    def visit_Name(self, n):
        if n.id in self.locals:
            return ast.copy_location(ast.Name(id=f"LOCAL__{n.id}__", ctx=n.ctx), n)
        return n

    def visit_UnaryOp(self, n):
        self.generic_visit(n)
        if isinstance(n.op, ast.Not):
            o = n.operand
            if isinstance(o, ast.Compare) and len(o.ops) == 1 and type(o.ops[0]) in FLIP:
                return ast.Compare(left=o.left, ops=[FLIP[type(o.ops[0])]()], comparators=o.comparators)
            if isinstance(o, ast.Compare) and len(o.ops) == 2 and all(isinstance(x, ast.LtE) for x in o.ops):
                return ast.Call(func=ast.Name(id="outside", ctx=ast.Load()),
                                args=[o.comparators[0], o.left, o.comparators[1]], keywords=[])
            if isinstance(o, ast.UnaryOp) and isinstance(o.op, ast.Not):
                return o.operand
        return n

    def visit_Compare(self, n):
        self.generic_visit(n)
        if len(n.ops) == 1 and isinstance(n.ops[0], (ast.In, ast.NotIn)) and isinstance(n.comparators[0], (ast.List, ast.Set)):
            n.comparators[0] = ast.Tuple(elts=n.comparators[0].elts, ctx=ast.Load())
        return n

    def visit_BoolOp(self, n):
        self.generic_visit(n)
        d = [ast.dump(v) for v in n.values]
        if isinstance(n.op, ast.Or) and len(n.values) == 2 and all(isinstance(v, ast.Compare) and len(v.ops) == 1 for v in n.values):
            a, b = n.values
            # x < lo or x > hi   (either order)
            for lo_c, hi_c in ((a, b), (b, a)):
                if isinstance(lo_c.ops[0], ast.Lt) and isinstance(hi_c.ops[0], ast.Gt) and ast.dump(lo_c.left) == ast.dump(hi_c.left):
                    return ast.Call(func=ast.Name(id="outside", ctx=ast.Load()),
                                    args=[lo_c.left, lo_c.comparators[0], hi_c.comparators[0]], keywords=[])
        same_left = all(isinstance(v, ast.Compare) and len(v.ops) == 1 and ast.dump(v.left) == ast.dump(n.values[0].left)
                        for v in n.values)
        if same_left and isinstance(n.op, ast.Or) and all(isinstance(v.ops[0], ast.Eq) for v in n.values):
            return ast.Compare(left=n.values[0].left, ops=[ast.In()],
                               comparators=[ast.Tuple(elts=[v.comparators[0] for v in n.values], ctx=ast.Load())])
        if same_left and isinstance(n.op, ast.And) and all(isinstance(v.ops[0], ast.NotEq) for v in n.values):
            return ast.Compare(left=n.values[0].left, ops=[ast.NotIn()],
                               comparators=[ast.Tuple(elts=[v.comparators[0] for v in n.values], ctx=ast.Load())])
        del d
        return n


def number_locals(text):
    """locals are numbered per gate, in order of first appearance in its path condition"""
    import re
    seen = {}
    return re.sub(r"LOCAL__(\w+?)__", lambda m: "L%d" % seen.setdefault(m.group(1), len(seen) + 1), text)


def canon(expr, ctx, negate=False):
    e = ast.parse(ast.unparse(expr), mode="eval").body          # private copy
    if negate:
        e = ast.UnaryOp(op=ast.Not(), operand=e)
    e = Canon(*ctx).visit(e)
    return ast.unparse(ast.fix_missing_locations(e))


def leaves(stmts):
    """True when the statement list always leaves the function (raise / return on every path)"""
    for st in stmts:
        if isinstance(st, (ast.Raise, ast.Return)):
            return True
        if isinstance(st, ast.If) and st.orelse and leaves(st.body) and leaves(st.orelse):
            return True
    return False


def collect(stmts, conds, out, path, ctx):
    for st in stmts:
        if isinstance(st, ast.Raise):
            out.append((number_locals(" and ".join(conds)) if conds else "True", exc_name(st, path)))
        elif isinstance(st, ast.If):
            collect(st.body, conds + [f"({canon(st.test, ctx)})"], out, path, ctx)
            if leaves(st.body):
                collect(st.orelse, conds, out, path, ctx)       # fall-through: same as statements after the if
            else:
                collect(st.orelse, conds + [f"({canon(st.test, ctx, negate=True)})"], out, path, ctx)
        elif isinstance(st, (ast.For, ast.While)):
            if isinstance(st, ast.For) and isinstance(st.iter, (ast.Tuple, ast.List)) and \
                    all(isinstance(x, ast.Constant) for x in st.iter.elts):
                hdr = f"loop[{canon(st.target, ctx)} in {ast.unparse(ast.Tuple(elts=st.iter.elts, ctx=ast.Load()))}]"
            else:
                hdr = "loop"
            collect(st.body, conds + [hdr], out, path, ctx)
            collect(st.orelse, conds, out, path, ctx)
        elif isinstance(st, ast.Try):
            collect(st.body, conds + ["try"], out, path, ctx)
            for h in st.handlers:
                collect(h.body, conds + [f"except[{ast.unparse(h.type) if h.type else ''}]"], out, path, ctx)
            collect(st.finalbody, conds, out, path, ctx)
        elif isinstance(st, ast.With):
            collect(st.body, conds, out, path, ctx)
        elif isinstance(st, (ast.FunctionDef, ast.ClassDef)):
            continue


@translate.register
def gen_gates(repo):
    lines = [translate.HEADER.format(src="the raise statements of the validating constructors"),
             "From Coq Require Import String List.\nImport ListNotations.\nOpen Scope string_scope.\n"]
    for rel, prefix, funcs in TARGETS:
        path, src, tree = load_module(repo, rel)
        for q in funcs:
            fn = find_func(tree, q, path)
            out = []
            collect(fn.body, [], out, path, (local_names(fn), {}))
            name = f"{prefix}_{q.replace('.', '_').replace('__', '')}_raises"
            rows = ";\n  ".join(f"({coq_string(c)}, {coq_string(e)})" for c, e in out)
            lines.append(f"Definition {name} : list (string * string) := [\n  {rows}\n].\n")
    return {"Gates.v": "\n".join(lines)}
