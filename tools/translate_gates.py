"""Gen/Gates.v — inventory of every `raise` reachable in the validating constructors, with the
path condition (source text, normalised by ast.unparse) under which it is raised.

A gate that is deleted, widened, reordered or whose literal changes alters the generated list and the
pinning lemma in Proofs/Gates.v no longer checks (tie broken); the check then searches the mutant stream
for an input that is now wrongly accepted."""
from __future__ import annotations

import ast

import translate
from translate import TranslateError, coq_string, load_module

TARGETS = [
    ("dissect/hypervisor/disk/qcow2.py", "qcow2", ["QCow2.__init__"]),
    ("dissect/hypervisor/disk/vhdx.py", "vhdx", ["VHDX.__init__", "RegionTable.__init__", "RegionTable.get",
                                                "MetadataTable.__init__", "MetadataTable.get"]),
    ("dissect/hypervisor/disk/vdi.py", "vdi", ["VDI.__init__"]),
    ("dissect/hypervisor/disk/hdd.py", "hdd", ["HDS.__init__", "HDD.__init__", "HDD.open", "XMLEntry.from_xml"]),
    ("dissect/hypervisor/disk/vmdk.py", "vmdk", ["SparseExtentHeader.__init__"]),
    ("dissect/hypervisor/descriptor/hyperv.py", "hyperv", ["HyperVFile.__init__", "HyperVStorageReplayLog.__init__",
                                                           "HyperVStorageObjectTable.__init__",
                                                           "HyperVStorageKeyTable.__init__"]),
    ("dissect/hypervisor/util/envelope.py", "envelope", ["Envelope.__init__", "KeyStore.__init__"]),
    ("dissect/hypervisor/descriptor/vmx.py", "vmx", ["KeySafe.from_text", "_parse_key_locator"]),
]


def find_func(tree, qual, path):
    parts = qual.split(".")
    body = tree.body
    node = None
    for i, p in enumerate(parts):
        node = None
        for n in body:
            if isinstance(n, (ast.ClassDef, ast.FunctionDef)) and n.name == p:
                node = n
                break
        if node is None:
            raise TranslateError(f"{path}: {qual} not found")
        body = node.body
    if not isinstance(node, ast.FunctionDef):
        raise TranslateError(f"{path}: {qual} is not a function")
    return node


def exc_name(r: ast.Raise, path):
    e = r.exc
    if e is None:
        return "reraise"
    if isinstance(e, ast.Call):
        e = e.func
    if isinstance(e, ast.Name):
        return e.id
    if isinstance(e, ast.Attribute):
        return e.attr
    raise TranslateError(f"{path}:{r.lineno}: unsupported raise expression")


def collect(stmts, conds, out, path):
    for st in stmts:
        if isinstance(st, ast.Raise):
            out.append((" and ".join(conds) if conds else "True", exc_name(st, path)))
        elif isinstance(st, ast.If):
            t = ast.unparse(st.test)
            collect(st.body, conds + [f"({t})"], out, path)
            collect(st.orelse, conds + [f"not ({t})"], out, path)
        elif isinstance(st, (ast.For, ast.While)):
            hdr = ast.unparse(st.target) + " in " + ast.unparse(st.iter) if isinstance(st, ast.For) else ast.unparse(st.test)
            collect(st.body, conds + [f"loop[{hdr}]"], out, path)
            collect(st.orelse, conds, out, path)
        elif isinstance(st, ast.Try):
            collect(st.body, conds + ["try"], out, path)
            for h in st.handlers:
                collect(h.body, conds + [f"except[{ast.unparse(h.type) if h.type else ''}]"], out, path)
            collect(st.finalbody, conds, out, path)
        elif isinstance(st, ast.With):
            collect(st.body, conds, out, path)
        elif isinstance(st, (ast.FunctionDef, ast.ClassDef)):
            continue


@translate.register
def gen_gates(repo):
    lines = [translate.HEADER.format(src="the raise statements of the validating constructors"),
             "From Coq Require Import String List.\nImport ListNotations.\nOpen Scope string_scope.\n"]
    for rel, prefix, funcs in TARGETS:
        path, src, tree = load_module(repo, rel)
        for q in funcs:
            fn = find_func(tree, q, path)
            out = []
            collect(fn.body, [], out, path)
            name = f"{prefix}_{q.replace('.', '_').replace('__', '')}_raises"
            rows = ";\n  ".join(f"({coq_string(c)}, {coq_string(e)})" for c, e in out)
            lines.append(f"Definition {name} : list (string * string) := [\n  {rows}\n].\n")
    return {"Gates.v": "\n".join(lines)}
