"""Gen/Qcow2Fun.v — the pure helper functions of qcow2.py / c_qcow2.py and the derived
geometry of QCow2.__init__, translated from the Python ast into Gallina (DESIGN §4.1, "PyPure").

Fail-closed: every construct outside the supported subset raises TranslateError with the source
location.  Supported:

  statements   docstring | NAME = expr | if/elif/else whose bodies all end in return/raise |
               return expr | return a, b | raise ... | `for i in range(n): if c: return e` (-> find_first)
  expressions  integer literals, names, qcow2.attr (-> geometry field), c_qcow2.CONST, enum members,
               module constants of c_qcow2 (tuples of enum members), + - * // % << >> & | ~, comparisons,
               `x in CONST`, not/and/or, bool(e), min/max, calls of other translated functions, a if c else b
  truthiness   an integer in boolean position becomes negb (e =? 0)

A function that raises (or calls one that does) is translated into the `res` monad of Base/Plan.v.
From QCow2.__init__ the straight-line assignments of the derived geometry are translated
(`open_geom`), the `if self.header.version == 2:` block of header defaults (`v2_fix`; the identity
when the source has no such block), and the conditions of the `has_subclusters` property and of the
data-file test.
"""
from __future__ import annotations

import ast

import translate
from translate import TranslateError

QCOW2 = "dissect/hypervisor/disk/qcow2.py"
C_QCOW2 = "dissect/hypervisor/disk/c_qcow2.py"

# functions to translate: (module, name, parameter standing for the QCow2 object or None)
FUNCS = [
    (C_QCOW2, "ctz"),
    (QCOW2, "offset_into_cluster"),
    (QCOW2, "offset_into_subcluster"),
    (QCOW2, "size_to_clusters"),
    (QCOW2, "size_to_subclusters"),
    (QCOW2, "offset_to_l1_index"),
    (QCOW2, "offset_to_l2_index"),
    (QCOW2, "offset_to_sc_index"),
    (QCOW2, "get_cluster_type"),
    (QCOW2, "get_subcluster_type"),
    (QCOW2, "get_subcluster_range_type"),
]

# derived geometry attributes of QCow2.__init__, in the order they must be assigned
GEOM_ATTRS = ["cluster_bits", "cluster_size", "subclusters_per_cluster", "subcluster_size", "subcluster_bits",
              "_l2_entry_size", "l2_bits", "l2_size", "compression_type", "csize_shift", "csize_mask",
              "cluster_offset_mask"]
BOOL_FIELDS = ["has_subclusters", "has_data_file"]
# header fields (QCowHeader scalar members)
HDR_FIELDS = ["magic", "version", "backing_file_offset", "backing_file_size", "cluster_bits", "size", "crypt_method",
              "l1_size", "l1_table_offset", "refcount_table_offset", "refcount_table_clusters", "nb_snapshots",
              "snapshots_offset", "incompatible_features", "compatible_features", "autoclear_features",
              "refcount_order", "header_length", "compression_type"]

ENUMS = ("QCow2ClusterType", "QCow2SubclusterType")
TUPLE_CONSTS = ("NORMAL_SUBCLUSTER_TYPES", "ZERO_SUBCLUSTER_TYPES", "UNALLOCATED_SUBCLUSTER_TYPES")


def fld(a):
    return "g_" + a.lstrip("_")


class Ctx:
    def __init__(self, path, defines, qparam=None, header_self=False, funs=None):
        self.path = path
        self.defines = defines          # c_qcow2 #define names
        self.qparam = qparam            # name of the parameter holding the QCow2 object
        self.header_self = header_self  # inside __init__: self.header.X / self.X
        self.funs = funs or {}          # translated functions: name -> dict(raises, nparams, takes_q)
        self.locals = {}                # name -> type ('Z' | 'bool' | 'pair' | 'seq')
        self.selfattrs = {}             # inside __init__: attribute -> type

    def err(self, node, msg):
        raise TranslateError(f"{self.path}:{getattr(node, 'lineno', '?')}: {msg}")


BINOPS = {ast.Add: "Z.add", ast.Sub: "Z.sub", ast.Mult: "Z.mul", ast.FloorDiv: "Z.div", ast.Mod: "Z.modulo",
          ast.LShift: "Z.shiftl", ast.RShift: "Z.shiftr", ast.BitAnd: "Z.land", ast.BitOr: "Z.lor"}
CMPOPS = {ast.Eq: "Z.eqb", ast.Lt: "Z.ltb", ast.LtE: "Z.leb", ast.Gt: "Z.gtb", ast.GtE: "Z.geb"}


def zlit(v):
    return f"({v})" if v < 0 else str(v)


def expr(cx: Ctx, n):
    """-> (type, term).  type in {'Z','bool'}"""
    if isinstance(n, ast.Constant):
        if isinstance(n.value, bool):
            return "bool", "true" if n.value else "false"
        if isinstance(n.value, int):
            return "Z", zlit(n.value)
        cx.err(n, f"constant {n.value!r}")
    if isinstance(n, ast.Name):
        if n.id in cx.locals:
            if cx.locals[n.id] not in ("Z", "bool"):
                cx.err(n, f"{n.id} is not a scalar")
            return cx.locals[n.id], "v_" + n.id
        cx.err(n, f"unknown name {n.id}")
    if isinstance(n, ast.Attribute):
        v = n.value
        if isinstance(v, ast.Name) and cx.qparam and v.id == cx.qparam:
            if n.attr in BOOL_FIELDS:
                return "bool", f"({fld(n.attr)} q)"
            if n.attr in GEOM_ATTRS:
                return "Z", f"({fld(n.attr)} q)"
            cx.err(n, f"unknown geometry attribute {n.attr}")
        if isinstance(v, ast.Name) and v.id == "c_qcow2":
            if n.attr in cx.defines:
                return "Z", "qcow2_" + n.attr
            cx.err(n, f"c_qcow2.{n.attr} is not a #define")
        if isinstance(v, ast.Name) and v.id in ENUMS:
            return "Z", f"qcow2_{v.id}_{n.attr}"
        if cx.header_self and isinstance(v, ast.Name) and v.id == "self":
            if n.attr in cx.selfattrs:
                return cx.selfattrs[n.attr], "a_" + n.attr.lstrip("_")
            if n.attr == "has_subclusters":
                return "bool", "(has_subclusters h)"
            cx.err(n, f"self.{n.attr} used before it is assigned (or not a geometry attribute)")
        if (cx.header_self and isinstance(v, ast.Attribute) and isinstance(v.value, ast.Name) and v.value.id == "self"
                and v.attr == "header"):
            if n.attr in HDR_FIELDS:
                return "Z", f"(h_{n.attr} h)"
            cx.err(n, f"unknown header field {n.attr}")
        cx.err(n, "unsupported attribute expression")
    if isinstance(n, ast.BinOp):
        # ~x & m
        for k, f in BINOPS.items():
            if isinstance(n.op, k):
                a = zexpr(cx, n.left)
                b = zexpr(cx, n.right)
                return "Z", f"({f} {a} {b})"
        cx.err(n, "operator")
    if isinstance(n, ast.UnaryOp):
        if isinstance(n.op, ast.Invert):
            return "Z", f"(Z.lnot {zexpr(cx, n.operand)})"
        if isinstance(n.op, ast.USub):
            return "Z", f"(Z.opp {zexpr(cx, n.operand)})"
        if isinstance(n.op, ast.Not):
            return "bool", f"(negb {bexpr(cx, n.operand)})"
        cx.err(n, "unary operator")
    if isinstance(n, ast.BoolOp):
        op = "andb" if isinstance(n.op, ast.And) else "orb"
        parts = [bexpr(cx, v) for v in n.values]
        t = parts[-1]
        for p in reversed(parts[:-1]):
            t = f"({op} {p} {t})"
        return "bool", t
    if isinstance(n, ast.Compare):
        if len(n.ops) != 1:
            cx.err(n, "chained comparison")
        op, r = n.ops[0], n.comparators[0]
        if isinstance(op, ast.In):
            if isinstance(r, ast.Name) and r.id in TUPLE_CONSTS:
                return "bool", f"(existsb (Z.eqb {zexpr(cx, n.left)}) qcow2_{r.id})"
            cx.err(n, "`in` needs one of the c_qcow2 type tuples")
        if isinstance(op, ast.NotEq):
            return "bool", f"(negb (Z.eqb {zexpr(cx, n.left)} {zexpr(cx, r)}))"
        for k, f in CMPOPS.items():
            if isinstance(op, k):
                return "bool", f"({f} {zexpr(cx, n.left)} {zexpr(cx, r)})"
        cx.err(n, "comparison operator")
    if isinstance(n, ast.IfExp):
        c = bexpr(cx, n.test)
        ta, a = expr(cx, n.body)
        tb, b = expr(cx, n.orelse)
        if ta != tb:
            cx.err(n, "branches of different type")
        return ta, f"(if {c} then {a} else {b})"
    if isinstance(n, ast.Call):
        if n.keywords:
            cx.err(n, "keyword arguments")
        f = n.func
        if isinstance(f, ast.Name) and f.id == "bool" and len(n.args) == 1:
            return "bool", bexpr(cx, n.args[0])
        if isinstance(f, ast.Name) and f.id in ("min", "max") and len(n.args) == 2:
            return "Z", f"(Z.{f.id} {zexpr(cx, n.args[0])} {zexpr(cx, n.args[1])})"
        if isinstance(f, ast.Name) and f.id in cx.funs:
            info = cx.funs[f.id]
            if info["raises"]:
                cx.err(n, f"call of raising function {f.id} inside an expression")
            if info["ret"] != "Z":
                cx.err(n, f"{f.id} does not return an integer")
            return "Z", "(" + call_term(cx, n) + ")"
        cx.err(n, "unsupported call")
    cx.err(n, f"unsupported expression {ast.dump(n)[:60]}")


def call_term(cx, n):
    info = cx.funs[n.func.id]
    args = list(n.args)
    parts = [n.func.id]
    if info["takes_q"]:
        if not args or not (isinstance(args[0], ast.Name) and args[0].id == cx.qparam):
            cx.err(n, "first argument must be the qcow2 object")
        parts.append("q")
        args = args[1:]
    if len(args) != info["nparams"]:
        cx.err(n, f"{n.func.id} needs {info['nparams']} explicit arguments (defaults are not used)")
    parts += [zexpr(cx, a) for a in args]
    return " ".join(parts)


def zexpr(cx, n):
    t, s = expr(cx, n)
    if t != "Z":
        cx.err(n, "integer expression expected")
    return s


def bexpr(cx, n):
    t, s = expr(cx, n)
    if t == "bool":
        return s
    return f"(negb (Z.eqb {s} 0))"


def terminates(stmts):
    if not stmts:
        return False
    last = stmts[-1]
    if isinstance(last, (ast.Return, ast.Raise)):
        return True
    if isinstance(last, ast.If) and last.orelse:
        return terminates(last.body) and terminates(last.orelse)
    return False


def is_docstring(s):
    return isinstance(s, ast.Expr) and isinstance(s.value, ast.Constant) and isinstance(s.value.value, str)


def block(cx: Ctx, stmts, raises, ind):
    """translate a statement list that terminates; returns a Gallina term"""
    pad = "  " * ind
    if not stmts:
        raise TranslateError(f"{cx.path}: block falls off the end")
    s, rest = stmts[0], stmts[1:]
    if is_docstring(s):
        return block(cx, rest, raises, ind)
    if isinstance(s, ast.Return):
        if rest:
            cx.err(s, "statements after return")
        v = s.value
        if v is None:
            cx.err(s, "bare return")
        if isinstance(v, ast.Tuple):
            parts = []
            for e in v.elts:
                t, tm = expr(cx, e)
                parts.append(tm)
            term = "(" + ", ".join(parts) + ")"
        elif isinstance(v, ast.Call) and isinstance(v.func, ast.Name) and v.func.id in cx.funs \
                and cx.funs[v.func.id]["raises"]:
            return pad + "(" + call_term(cx, v) + ")"
        else:
            t, term = expr(cx, v)
        return pad + (f"Ok {term}" if raises else term)
    if isinstance(s, ast.Raise):
        if rest:
            cx.err(s, "statements after raise")
        return pad + "Err"
    if isinstance(s, ast.Assign):
        if len(s.targets) != 1 or not isinstance(s.targets[0], ast.Name):
            cx.err(s, "only NAME = expr assignments")
        name = s.targets[0].id
        v = s.value
        if isinstance(v, ast.Call) and isinstance(v.func, ast.Name) and v.func.id in cx.funs \
                and cx.funs[v.func.id]["raises"]:
            info = cx.funs[v.func.id]
            if info["ret"] != "Z":
                cx.err(s, "raising call must return an integer")
            cx.locals[name] = "Z"
            return f"{pad}do v_{name} <- {call_term(cx, v)};\n" + block(cx, rest, raises, ind)
        t, term = expr(cx, v)
        cx.locals[name] = t
        return f"{pad}let v_{name} := {term} in\n" + block(cx, rest, raises, ind)
    if isinstance(s, ast.If):
        c = bexpr(cx, s.test)
        if not terminates(s.body):
            cx.err(s, "`if` body must end in return/raise")
        saved = dict(cx.locals)
        a = block(cx, s.body, raises, ind + 1)
        cx.locals = dict(saved)
        if s.orelse:
            if rest:
                if not terminates(s.orelse):
                    cx.err(s, "`else` body must end in return/raise")
                cx.err(s, "statements after a terminating if/else")
            b = block(cx, s.orelse, raises, ind + 1)
        else:
            b = block(cx, rest, raises, ind + 1)
        cx.locals = saved
        return f"{pad}if {c} then\n{a}\n{pad}else\n{b}"
    if isinstance(s, ast.For):
        # for i in range(n): if c: return e   -> find_first
        ok = (isinstance(s.target, ast.Name) and not s.orelse and isinstance(s.iter, ast.Call)
              and isinstance(s.iter.func, ast.Name) and s.iter.func.id == "range" and len(s.iter.args) == 1
              and len(s.body) == 1 and isinstance(s.body[0], ast.If) and not s.body[0].orelse
              and len(s.body[0].body) == 1 and isinstance(s.body[0].body[0], ast.Return))
        if not ok:
            cx.err(s, "only `for i in range(n): if c: return e` loops")
        n_term = zexpr(cx, s.iter.args[0])
        i = s.target.id
        saved = dict(cx.locals)
        cx.locals[i] = "Z"
        c = bexpr(cx, s.body[0].test)
        found = block(cx, [s.body[0].body[0]], raises, ind + 1)
        cx.locals = saved
        notfound = block(cx, rest, raises, ind + 1)
        return (f"{pad}match find_first (fun v_{i} => {c}) 0 (Z.to_nat {n_term}) with\n"
                f"{pad}| Some v_{i} =>\n{found}\n{pad}| None =>\n{notfound}\n{pad}end")
    cx.err(s, f"unsupported statement {type(s).__name__}")


def has_raise(fn, funs):
    for n in ast.walk(fn):
        if isinstance(n, ast.Raise):
            return True
        if isinstance(n, ast.Call) and isinstance(n.func, ast.Name) and n.func.id in funs and funs[n.func.id]["raises"]:
            return True
    return False


def ret_kind(fn):
    kinds = set()
    for n in ast.walk(fn):
        if isinstance(n, ast.Return):
            if isinstance(n.value, ast.Tuple):
                kinds.add(f"pair{len(n.value.elts)}")
            else:
                kinds.add("Z")
    if len(kinds) != 1:
        raise TranslateError(f"function {fn.name}: mixed return shapes {kinds}")
    return kinds.pop()


def find_def(tree, name, path):
    for n in tree.body:
        if isinstance(n, ast.FunctionDef) and n.name == name:
            return n
    raise TranslateError(f"{path}: function {name} not found")


def translate_function(path, fn, defines, funs):
    args = fn.args
    if args.vararg or args.kwarg or args.kwonlyargs or args.posonlyargs:
        raise TranslateError(f"{path}:{fn.lineno}: unsupported parameter kinds")
    params = [a.arg for a in args.args]
    takes_q = bool(params) and params[0] == "qcow2"
    cx = Ctx(path, defines, qparam="qcow2" if takes_q else None, funs=funs)
    zparams = params[1:] if takes_q else params
    for p in zparams:
        cx.locals[p] = "Z"
    raises = has_raise(fn, funs)
    ret = ret_kind(fn)
    if not terminates(fn.body):
        raise TranslateError(f"{path}:{fn.lineno}: {fn.name} does not end in return/raise")
    body = block(cx, fn.body, raises, 1)
    rt = {"Z": "Z", "pair2": "(Z * Z)"}.get(ret)
    if rt is None:
        raise TranslateError(f"{path}:{fn.lineno}: unsupported return shape {ret}")
    if raises:
        rt = f"res {rt}"
    sig = " ".join((["(q : geom)"] if takes_q else []) + [f"(v_{p} : Z)" for p in zparams])
    text = f"(* {path.split('/')[-1]}: def {fn.name} *)\nDefinition {fn.name} {sig} : {rt} :=\n{body}.\n"
    info = {"raises": raises, "nparams": len(zparams), "takes_q": takes_q, "ret": "Z" if ret == "Z" else ret}
    return text, info


# ----------------------------------------------------------------------------- __init__
def is_self_attr(t, names=None):
    return (isinstance(t, ast.Attribute) and isinstance(t.value, ast.Name) and t.value.id == "self"
            and (names is None or t.attr in names))


def is_header_field(t):
    return (isinstance(t, ast.Attribute) and isinstance(t.value, ast.Attribute) and isinstance(t.value.value, ast.Name)
            and t.value.value.id == "self" and t.value.attr == "header")


def translate_init(path, cls, defines, funs):
    init = None
    props = {}
    for n in cls.body:
        if isinstance(n, ast.FunctionDef) and n.name == "__init__":
            init = n
        if isinstance(n, ast.FunctionDef) and n.name in BOOL_FIELDS:
            props[n.name] = n
    if init is None:
        raise TranslateError(f"{path}: QCow2.__init__ not found")
    cx = Ctx(path, defines, header_self=True, funs=funs)
    out = []

    # has_subclusters property: a single `return <expr over self.header>`
    p = props.get("has_subclusters")
    if p is None or len([s for s in p.body if not is_docstring(s)]) != 1 or not isinstance(p.body[-1], ast.Return):
        raise TranslateError(f"{path}: has_subclusters is not a single return")
    out.append(f"(* qcow2.py: QCow2.has_subclusters *)\nDefinition has_subclusters (h : hdr) : bool :=\n  {bexpr(cx, p.body[-1].value)}.\n")
    # has_data_file property must be `self.data_file != self.fh`; its value is then the data-file test of __init__
    p = props.get("has_data_file")
    okp = (p is not None and isinstance(p.body[-1], ast.Return) and isinstance(p.body[-1].value, ast.Compare)
           and ast.unparse(p.body[-1].value) == "self.data_file != self.fh")
    if not okp:
        raise TranslateError(f"{path}: has_data_file is not `self.data_file != self.fh`")

    v2 = None
    data_file_cond = None
    lets = []
    seen = []
    for s in init.body:
        # assignments to header fields anywhere except the recognised version-2 block are refused
        if isinstance(s, ast.If) and ast.unparse(s.test) == "self.header.version == 2" and not s.orelse:
            if v2 is not None or seen:
                cx.err(s, "version-2 block must come once, before the derived geometry")
            v2 = []
            for b in s.body:
                if not (isinstance(b, ast.Assign) and len(b.targets) == 1 and is_header_field(b.targets[0])
                        and b.targets[0].attr in HDR_FIELDS):
                    cx.err(b, "version-2 block may only assign header fields")
                cxv = Ctx(path, defines, header_self=False, funs={})
                v2.append((b.targets[0].attr, zexpr(cxv, b.value)))
            continue
        for n in ast.walk(s):
            if isinstance(n, (ast.Assign, ast.AugAssign, ast.AnnAssign)):
                tg = n.targets if isinstance(n, ast.Assign) else [n.target]
                for t in tg:
                    if is_header_field(t):
                        cx.err(n, "assignment to a header field outside the version-2 block")
        # data-file test
        if isinstance(s, ast.If) and any(isinstance(n, ast.Assign) and any(is_self_attr(t, ["data_file"]) for t in n.targets)
                                         for n in ast.walk(s)):
            shape = (len(s.orelse) == 1 and isinstance(s.orelse[0], ast.Assign)
                     and ast.unparse(s.orelse[0]) == "self.data_file = self.fh"
                     and isinstance(s.body[-1], ast.Assign) and ast.unparse(s.body[-1]) == "self.data_file = data_file")
            if not shape or data_file_cond is not None:
                cx.err(s, "unexpected shape of the data-file selection")
            data_file_cond = bexpr(cx, s.test)
            continue
        # geometry assignments
        tgt = None
        if isinstance(s, ast.Assign) and len(s.targets) == 1 and is_self_attr(s.targets[0], GEOM_ATTRS):
            tgt = s.targets[0].attr
            t, term = expr(cx, s.value)
        elif (isinstance(s, ast.If) and len(s.body) == 1 and len(s.orelse) == 1
              and isinstance(s.body[0], ast.Assign) and isinstance(s.orelse[0], ast.Assign)
              and len(s.body[0].targets) == 1 and len(s.orelse[0].targets) == 1
              and is_self_attr(s.body[0].targets[0], GEOM_ATTRS)
              and ast.unparse(s.body[0].targets[0]) == ast.unparse(s.orelse[0].targets[0])):
            tgt = s.body[0].targets[0].attr
            c = bexpr(cx, s.test)
            ta, a = expr(cx, s.body[0].value)
            tb, b = expr(cx, s.orelse[0].value)
            if ta != "Z" or tb != "Z":
                cx.err(s, "integer expected")
            t, term = "Z", f"(if {c} then {a} else {b})"
        else:
            for n in ast.walk(s):
                if isinstance(n, (ast.Assign, ast.AugAssign, ast.AnnAssign)):
                    tg = n.targets if isinstance(n, ast.Assign) else [n.target]
                    for tt in tg:
                        if is_self_attr(tt, GEOM_ATTRS):
                            cx.err(n, f"assignment to self.{tt.attr} in an unsupported position")
            continue
        if tgt in seen:
            cx.err(s, f"self.{tgt} assigned twice")
        if t != "Z":
            cx.err(s, "integer expected")
        seen.append(tgt)
        cx.selfattrs[tgt] = "Z"
        lets.append(f"  let a_{tgt.lstrip('_')} := {term} in")
    missing = [a for a in GEOM_ATTRS if a not in seen]
    if missing:
        raise TranslateError(f"{path}: geometry attributes not assigned in __init__: {missing}")
    if data_file_cond is None:
        raise TranslateError(f"{path}: data-file selection not found in __init__")
    out.append(f"Definition has_data_file (h : hdr) : bool :=\n  {data_file_cond}.\n")
    # v2_fix
    sets = dict(v2 or [])
    if v2 is not None and len(sets) != len(v2):
        raise TranslateError(f"{path}: version-2 block assigns a field twice")
    rows = "; ".join(f"h_{f} := {sets[f] if f in sets else f'h_{f} h'}" for f in HDR_FIELDS)
    out.append("(* the `if self.header.version == 2:` block of QCow2.__init__"
               + (" — ABSENT in this source, identity" if v2 is None else "") + " *)\n"
               f"Definition v2_defaults (h : hdr) : hdr :=\n  {{| {rows} |}}.\n"
               "Definition v2_fix (h : hdr) : hdr := if Z.eqb (h_version h) 2 then v2_defaults h else h.\n")
    rec = "; ".join([f"{fld(a)} := a_{a.lstrip('_')}" for a in GEOM_ATTRS] +
                    [f"{fld(b)} := {b} h" for b in BOOL_FIELDS])
    out.append("(* derived geometry of QCow2.__init__ *)\nDefinition open_geom (h : hdr) : geom :=\n"
               + "\n".join(lets) + f"\n  {{| {rec} |}}.\n")
    return "".join(x + "\n" for x in out)


@translate.register
def gen(repo):
    p1, _, t1 = translate.load_module(repo, C_QCOW2)
    p2, _, t2 = translate.load_module(repo, QCOW2)
    cname, endian, parsed = translate.find_cdefs(p1, t1)
    defines = set(parsed["defines"])
    for e in ENUMS:
        if e not in parsed["enums"]:
            raise TranslateError(f"{p1}: enum {e} missing")
    st = parsed["structs"].get("QCowHeader")
    if st is None:
        raise TranslateError(f"{p1}: QCowHeader missing")
    names = [f["name"] for f in st.fields if f["count"] in (0, 1, None) or f["name"] in HDR_FIELDS]
    for f in HDR_FIELDS:
        if f not in [x["name"] for x in st.fields]:
            raise TranslateError(f"{p1}: QCowHeader has no field {f}")
    extra = [x["name"] for x in st.fields if x["name"] not in HDR_FIELDS and x["name"] != "padding"]
    if extra:
        raise TranslateError(f"{p1}: QCowHeader has fields unknown to the translator: {extra}")
    trees = {C_QCOW2: (p1, t1), QCOW2: (p2, t2)}
    funs = {}
    texts = []
    for rel, name in FUNCS:
        path, tree = trees[rel]
        fn = find_def(tree, name, path)
        text, info = translate_function(path, fn, defines, funs)
        funs[name] = info
        texts.append(text)
    cls = None
    for n in t2.body:
        if isinstance(n, ast.ClassDef) and n.name == "QCow2":
            cls = n
    if cls is None:
        raise TranslateError(f"{p2}: class QCow2 not found")
    init_text = translate_init(p2, cls, defines, funs)
    hdr = "Record hdr := {\n" + "\n".join(f"  h_{f} : Z;" for f in HDR_FIELDS).rstrip(";") + "\n}.\n"
    geom = ("Record geom := {\n" + "\n".join(f"  {fld(a)} : Z;" for a in GEOM_ATTRS) + "\n"
            + "\n".join(f"  {fld(b)} : bool;" for b in BOOL_FIELDS).rstrip(";") + "\n}.\n")
    pre = (translate.HEADER.format(src="qcow2.py / c_qcow2.py (tools/translate_qcow2.py)") +
           "From Coq Require Import ZArith List Bool.\nImport ListNotations.\nOpen Scope Z_scope.\n"
           "From DH Require Import Base.Plan Base.Table Gen.Consts Gen.Enums.\n\n")
    # ctz comes first (it is used by open_geom); the geometry record precedes the functions that take it
    body = hdr + "\n" + geom + "\n" + texts[0] + "\n" + init_text + "\n".join(texts[1:])
    return {"Qcow2Fun.v": pre + body}
